//@unit indicator_base
//@include head.rs
//@import ohlcv.rs.tpl

//@export-begin
// ------------------------------------------------------------------ Action (core/action.rs): the integer part is extracted; the float
// conversion is bit-level code decided by Engine K (C16) and appears here only through its contract
//@extract src/core/action.rs type:SignalType
//@end
//@extract src/core/action.rs const:BOUND
//@end
//@extract src/core/action.rs enum:Action keepderive
//@end
// signed strength in -255..=255 (no signal counting as zero)
pub open spec fn sv(a: Action) -> int {
	match a { Action::Buy(v) => v as int, Action::Sell(v) => -(v as int), Action::None => 0 }
}
pub uninterp spec fn action_of_real(x: real) -> Action;
// From<Action> for i8 (R12: std trait impl emitted against a same-shaped local trait)
pub trait FromAction: Sized { fn from_action(value: Action) -> Self; }
impl FromAction for i8 {
//@extract src/core/action.rs impl[From<Action> for i8]::from rename=from_action
	ensures r as int == (if sv(value) > 0 { 1int } else if sv(value) < 0 { -1int } else { 0int }),
//@end
}
impl Action {
	pub open spec fn buy_all() -> Action { Action::Buy(255) }
	pub open spec fn sell_all() -> Action { Action::Sell(255) }
	pub open spec fn of_i8(x: int) -> Action { if x == 0 { Action::None } else if x > 0 { Action::Buy(255) } else { Action::Sell(255) } }
//@extract src/core/action.rs impl[From<i8> for Action]::from pub rename=from_i8
	ensures r == Action::of_i8(value as int),
//@end
//@extract src/core/action.rs impl[Action]::analog pub
//@replace self.into() ==> <i8 as FromAction>::from_action(self)
	ensures r as int == (if sv(self) > 0 { 1int } else if sv(self) < 0 { -1int } else { 0int }),
//@end
//@extract src/core/action.rs impl[Neg for Action]::neg pub
//@sig pub fn neg(self) -> (r: Action)
	ensures sv(r) == -sv(self), (r is None) == (self is None),
//@end
//@extract src/core/action.rs impl[Sub for Action]::sub pub
//@sig pub fn sub(self, rhs: Action) -> (r: Action)
	ensures sv(r) == (if sv(self) - sv(rhs) > 255 { 255 } else if sv(self) - sv(rhs) < -255 { -255 } else { sv(self) - sv(rhs) }),
//@replace (Self::None, s) => -s, ==> (Self::None, s) => s.neg(),
//@end
	// From<f64> for Action: nearest strength, saturating, NaN -> None; verified bit-precisely by Kani (C16)
	#[verifier::external_body]
	pub fn from_f(v: ValueType) -> (r: Action) ensures r == action_of_real(v@) { unimplemented!() }
	pub const BUY_ALL: Action = Action::Buy(255);
	pub const SELL_ALL: Action = Action::Sell(255);
}

// `x.into()` / `Action::from(x)` for the two source types indicators use (R12: resolved through a local trait)
pub trait IntoAction: Sized { spec fn action_s(self) -> Action; fn into_action(self) -> (r: Action) ensures r == self.action_s(); }
impl IntoAction for i8 {
	open spec fn action_s(self) -> Action { Action::of_i8(self as int) }
	fn into_action(self) -> (r: Action) { Action::from_i8(self) }
}
impl IntoAction for R {
	open spec fn action_s(self) -> Action { action_of_real(self@) }
	fn into_action(self) -> (r: Action) { Action::from_f(self) }
}
impl IntoAction for Action {
	open spec fn action_s(self) -> Action { self }
	fn into_action(self) -> (r: Action) { self }
}
impl Action {
	pub fn from_any<T: IntoAction>(x: T) -> (r: Action) ensures r == x.action_s() { x.into_action() }
}

// ------------------------------------------------------------------ crossing detectors (methods/cross.rs)
//@extract src/methods/cross.rs struct:CrossAbove keepderive
//@end
//@extract src/methods/cross.rs struct:CrossUnder keepderive
//@end
//@extract src/methods/cross.rs struct:Cross keepderive
//@end
impl CrossAbove {
//@extract src/methods/cross.rs impl[CrossAbove]::binary
	ensures r == (old(self).last_delta@ < 0real && value1@ - value2@ >= 0real), final(self).last_delta@ == value1@ - value2@,
//@end
}
impl CrossUnder {
//@extract src/methods/cross.rs impl[CrossUnder]::binary
	ensures r == (old(self).last_delta@ > 0real && value1@ - value2@ <= 0real), final(self).last_delta@ == value1@ - value2@,
//@end
}
impl Method for CrossAbove {
	type Params = ();
	type Input = (ValueType, ValueType);
	type Output = Action;
	open spec fn inv(&self) -> bool { true }
	open spec fn rejects(parameters: ()) -> bool { false }
	open spec fn new_req(parameters: (), initial_value: &(ValueType, ValueType)) -> bool { true }
	open spec fn fresh(parameters: (), initial_value: &(ValueType, ValueType), s: &Self) -> bool { s.last_delta@ == initial_value.0@ - initial_value.1@ }
	open spec fn input_ok(&self, x: &(ValueType, ValueType)) -> bool { true }
	// fires exactly when value - base was negative on the previous step and is non-negative now
	open spec fn step(pre: &Self, x: &(ValueType, ValueType), post: &Self, out: &Action) -> bool {
		&&& post.last_delta@ == x.0@ - x.1@
		&&& *out == (if pre.last_delta@ < 0real && x.0@ - x.1@ >= 0real { Action::Buy(255) } else { Action::None })
	}
//@extract src/methods/cross.rs impl[Method for CrossAbove]::new
	ensures r is Ok,
//@end
//@extract src/methods/cross.rs impl[Method for CrossAbove]::next
//@replace Action::from(self.binary(value.0, value.1) as i8) ==> Action::from_i8(self.binary(value.0, value.1) as i8)
//@end
}
impl Method for CrossUnder {
	type Params = ();
	type Input = (ValueType, ValueType);
	type Output = Action;
	open spec fn inv(&self) -> bool { true }
	open spec fn rejects(parameters: ()) -> bool { false }
	open spec fn new_req(parameters: (), initial_value: &(ValueType, ValueType)) -> bool { true }
	open spec fn fresh(parameters: (), initial_value: &(ValueType, ValueType), s: &Self) -> bool { s.last_delta@ == initial_value.0@ - initial_value.1@ }
	open spec fn input_ok(&self, x: &(ValueType, ValueType)) -> bool { true }
	open spec fn step(pre: &Self, x: &(ValueType, ValueType), post: &Self, out: &Action) -> bool {
		&&& post.last_delta@ == x.0@ - x.1@
		&&& *out == (if pre.last_delta@ > 0real && x.0@ - x.1@ <= 0real { Action::Buy(255) } else { Action::None })
	}
//@extract src/methods/cross.rs impl[Method for CrossUnder]::new
	ensures r is Ok,
//@end
//@extract src/methods/cross.rs impl[Method for CrossUnder]::next
//@replace Action::from(self.binary(value.0, value.1) as i8) ==> Action::from_i8(self.binary(value.0, value.1) as i8)
//@end
}
impl Method for Cross {
	type Params = ();
	type Input = (ValueType, ValueType);
	type Output = Action;
	open spec fn inv(&self) -> bool { self.up.last_delta@ == self.down.last_delta@ }
	open spec fn rejects(parameters: ()) -> bool { false }
	open spec fn new_req(parameters: (), initial_value: &(ValueType, ValueType)) -> bool { true }
	open spec fn fresh(parameters: (), initial_value: &(ValueType, ValueType), s: &Self) -> bool { s.up.last_delta@ == initial_value.0@ - initial_value.1@ }
	open spec fn input_ok(&self, x: &(ValueType, ValueType)) -> bool { true }
	// the signed combination: +full when crossing above, -full when crossing under, none otherwise
	open spec fn step(pre: &Self, x: &(ValueType, ValueType), post: &Self, out: &Action) -> bool {
		let d0 = pre.up.last_delta@;
		let d1 = x.0@ - x.1@;
		&&& post.up.last_delta@ == d1
		&&& *out == (if d0 < 0real && d1 >= 0real { Action::Buy(255) } else if d0 > 0real && d1 <= 0real { Action::Sell(255) } else { Action::None })
	}
//@extract src/methods/cross.rs impl[Method for Cross]::new
	ensures r is Ok,
//@end
//@extract src/methods/cross.rs impl[Method for Cross]::next
//@replace ((up as i8) - (down as i8)).into() ==> Action::from_i8((up as i8) - (down as i8))
//@end
}
//@export-end

// swapping the two series negates Cross (C14): a relational lemma over the step contract
pub proof fn cross_swap_negates(a: Cross, b: Cross, x: (ValueType, ValueType), y: (ValueType, ValueType), a2: Cross, b2: Cross, oa: Action, ob: Action)
	requires a.up.last_delta@ == -b.up.last_delta@, y.0@ == x.1@, y.1@ == x.0@, Cross::step(&a, &x, &a2, &oa), Cross::step(&b, &y, &b2, &ob)
	ensures sv(oa) == -sv(ob), a2.up.last_delta@ == -b2.up.last_delta@
{
}
} // verus!
fn main() {}
