//@unit ind_more
//@include head.rs
//@include select_lib.rs
//@import ohlcv.rs.tpl
//@import indicator_base.rs.tpl
//@include indicator_traits.rs
//@import sma.rs.tpl
//@import highest_lowest_index.rs.tpl

// ================================================================== Envelopes (generic in the averaging kind)
//@extract src/indicators/envelopes.rs struct:Envelopes
//@end
//@extract src/indicators/envelopes.rs struct:EnvelopesInstance
//@end
impl<M: MovingAverageConstructor> Envelopes<M> {
	pub open spec fn valid(&self) -> bool { self.k@ > 0real && self.ma.period_s() > 1 }
//@extract src/indicators/envelopes.rs impl[IndicatorConfig for Envelopes<M>]::validate pub
	ensures r == self.valid(),
//@end
//@extract src/indicators/envelopes.rs impl[IndicatorConfig for Envelopes<M>]::size pub
	ensures r == (3u8, 1u8),
//@end
//@extract src/indicators/envelopes.rs impl[IndicatorConfig for Envelopes<M>]::init pub
//@sig pub fn init<T: OHLCV>(self, candle: &T) -> (r: Result<EnvelopesInstance<M>, Error>)
	ensures
		!self.valid() ==> r is Err,
		r is Ok ==> r->Ok_0.inv() && r->Ok_0.cfg == self,
		r is Ok ==> self.ma.seeded(src_val(candle, self.source), &r->Ok_0.ma),
		// C08: for an averaging kind that cannot overshoot this is the constant state for the candle's source price (envelopes_const_step)
		r is Ok && self.ma.convex_kind() ==> r->Ok_0.const_state(src_val(candle, self.source)),
//@replace Ok(Self::Instance { ==> Ok(EnvelopesInstance {
//@end
}
pub open spec fn envelopes_step<M: MovingAverageConstructor>(pre: &EnvelopesInstance<M>, src: ValueType, post: &EnvelopesInstance<M>, v: ValueType, hi: real, lo: real) -> bool {
	&&& <M::Instance as Method>::step(&pre.ma, &src, &post.ma, &v)
	&&& hi == v@ * (1real + pre.cfg.k@) && lo == v@ * (1real - pre.cfg.k@)
	// C12: for a non-negative average the upper envelope is not below the lower one
	&&& (v@ >= 0real ==> hi >= lo)
}
impl<M: MovingAverageConstructor> EnvelopesInstance<M> {
	pub open spec fn inv(&self) -> bool {
		self.ma.inv() && self.k_high@ == 1real + self.cfg.k@ && self.k_low@ == 1real - self.cfg.k@ && self.cfg.k@ > 0real
	}
//@extract src/indicators/envelopes.rs impl[IndicatorInstance for EnvelopesInstance<M>]::next pub into=action
	requires old(self).inv()
	ensures final(self).inv(), final(self).cfg == old(self).cfg,
		r.length == (3u8, 1u8),
		// documented: the average of the source scaled by (1 + k) and (1 - k); third value is the second source
		exists|src: ValueType, v: ValueType| src@ == src_val(candle, old(self).cfg.source)
			&& #[trigger] envelopes_step(old(self), src, final(self), v, r.vals()[0]@, r.vals()[1]@),
		r.vals()[2]@ == src_val(candle, old(self).cfg.source2),
		// signal: +1 below the lower envelope, -1 above the upper one
		r.sigs()[0] == Action::of_i8((if r.vals()[2]@ < r.vals()[1]@ { 1int } else { 0int }) - (if r.vals()[2]@ > r.vals()[0]@ { 1int } else { 0int })),
//@hint before let v =
	proof { self.ma.input_always_ok(&src); }
//@hint result
	proof {
		let (x, k) = (v@, self.cfg.k@);
		if x >= 0real { assert(x * (1real + k) >= x * (1real - k)) by(nonlinear_arith) requires x >= 0real, k > 0real; }
		assert(envelopes_step(old(self), src, self, v, r.vals()[0]@, r.vals()[1]@));
	}
//@end
}

// ================================================================== KeltnerChannel (generic in the averaging kind)
//@extract src/indicators/keltner_channel.rs struct:KeltnerChannel
//@end
//@extract src/indicators/keltner_channel.rs struct:KeltnerChannelInstance
//@end
impl<M: MovingAverageConstructor> KeltnerChannel<M> {
	pub open spec fn valid(&self) -> bool { self.ma.period_s() > 1 && self.sigma@ > 0real }
//@extract src/indicators/keltner_channel.rs impl[IndicatorConfig for KeltnerChannel<M>]::validate pub
	ensures r == self.valid(),
//@end
//@extract src/indicators/keltner_channel.rs impl[IndicatorConfig for KeltnerChannel<M>]::size pub
	ensures r == (3u8, 1u8),
//@end
//@extract src/indicators/keltner_channel.rs impl[IndicatorConfig for KeltnerChannel<M>]::init pub
//@sig pub fn init<T: OHLCV>(self, candle: &T) -> (r: Result<KeltnerChannelInstance<M>, Error>)
	ensures
		!self.valid() ==> r is Err,
		r is Ok ==> r->Ok_0.inv() && r->Ok_0.cfg == self,
		// documented seeds: average from the source price, ATR from high - low, previous close from the candle's close
		r is Ok ==> self.ma.seeded(src_val(candle, self.source), &r->Ok_0.ma) && r->Ok_0.prev_close == candle.close_s()
			&& (forall|i: int| 0 <= i < r->Ok_0.sma.window.view().len() ==> (#[trigger] r->Ok_0.sma.window.view()[i])@ == candle.high_s()@ - candle.low_s()@),
		// C08: for an averaging kind that cannot overshoot and an ordered candle this is the constant state for that candle (keltner_const_step)
		r is Ok && self.ma.convex_kind() && candle.low_s()@ <= candle.close_s()@ <= candle.high_s()@ ==> r->Ok_0.const_state(candle),
//@replace Ok(Self::Instance { ==> Ok(KeltnerChannelInstance {
//@end
}
pub open spec fn keltner_step<M: MovingAverageConstructor>(pre: &KeltnerChannelInstance<M>, src: ValueType, tr: ValueType, post: &KeltnerChannelInstance<M>, upper: real, lower: real, ma: ValueType, atr: ValueType) -> bool {
	// documented: MA(source) +- sigma * SMA(true range)
	&&& <M::Instance as Method>::step(&pre.ma, &src, &post.ma, &ma) && SMA::step(&pre.sma, &tr, &post.sma, &atr)
	&&& upper == ma@ + pre.cfg.sigma@ * atr@ && lower == ma@ - pre.cfg.sigma@ * atr@
}
impl<M: MovingAverageConstructor> KeltnerChannelInstance<M> {
	pub open spec fn inv(&self) -> bool { self.ma.inv() && self.sma.inv() && self.cfg.sigma@ > 0real }
	// every true range in the ATR window is non-negative (kept as long as the candles fed have high >= low)
	pub open spec fn atr_nonneg(&self) -> bool { forall|i: int| 0 <= i < self.sma.window.view().len() ==> (#[trigger] self.sma.window.view()[i])@ >= 0real }
//@extract src/indicators/keltner_channel.rs impl[IndicatorInstance for KeltnerChannelInstance<M>]::next pub into=action
	requires old(self).inv()
	ensures final(self).inv(), final(self).cfg == old(self).cfg, final(self).prev_close == candle.close_s(),
		r.length == (3u8, 1u8),
		r.vals()[0]@ == src_val(candle, old(self).cfg.source),
		exists|src: ValueType, tr: ValueType, ma: ValueType, atr: ValueType|
			src@ == src_val(candle, old(self).cfg.source)
			&& tr@ == rmax(candle.high_s()@, old(self).prev_close@) - rmin(candle.low_s()@, old(self).prev_close@)
			&& #[trigger] keltner_step(old(self), src, tr, final(self), r.vals()[1]@, r.vals()[2]@, ma, atr)
			// C12: with non-negative true ranges the channel is ordered upper >= average >= lower
			&& (old(self).atr_nonneg() && candle.high_s()@ >= candle.low_s()@ ==> final(self).atr_nonneg() && r.vals()[1]@ >= ma@ && ma@ >= r.vals()[2]@),
//@hint before let ma: ValueType
	proof { self.ma.input_always_ok(&source); }
	let ghost pre_sma = self.sma;
//@hint result
	proof {
		let (a, s, m) = (atr@, self.cfg.sigma@, ma@);
		assert(a * s + m == m + s * a && a * (-s) + m == m - s * a) by(nonlinear_arith);
		assert(keltner_step(old(self), source, tr, self, r.vals()[1]@, r.vals()[2]@, ma, atr));
		if old(self).atr_nonneg() && candle.high_s()@ >= candle.low_s()@ {
			let v = self.sma.window.view();
			assert forall|i: int| 0 <= i < v.len() implies (#[trigger] v[i])@ >= 0real by {
				if i < v.len() - 1 { assert(v[i] == pre_sma.window.view()[i + 1]); }
			}
			lemma_sum_nonneg(v);
			assert(a >= 0real) by(nonlinear_arith) requires sum(v) >= 0real, a == sum(v) / (v.len() as real), v.len() >= 1;
			assert(s * a >= 0real) by(nonlinear_arith) requires s > 0real, a >= 0real;
		}
	}
//@end
}

// ---- C08 at indicator level (averaging kinds that cannot overshoot): the state `init` leaves behind for a candle is a fixed point when that candle is fed again
impl<M: MovingAverageConstructor> EnvelopesInstance<M> {
	pub open spec fn const_state(&self, s: real) -> bool { self.inv() && self.ma.convex() && self.ma.within(s, s) }
}
pub proof fn envelopes_const_step<M: MovingAverageConstructor>(pre: &EnvelopesInstance<M>, src: ValueType, post: &EnvelopesInstance<M>, v: ValueType, hi: real, lo: real)
	requires pre.const_state(src@), post.inv(), post.cfg == pre.cfg, envelopes_step(pre, src, post, v, hi, lo)
	ensures v@ == src@, hi == src@ * (1real + pre.cfg.k@), lo == src@ * (1real - pre.cfg.k@), post.const_state(src@)
{
	<M::Instance as MovingAverage>::lemma_within_step(&pre.ma, &src, &post.ma, &v, src@, src@);
}
impl<M: MovingAverageConstructor> KeltnerChannelInstance<M> {
	// for an ordered candle (low <= close <= high) fed repeatedly: the average holds only the source price, the ATR window only high - low, the previous close is the candle's close
	pub open spec fn const_state<T: OHLCV>(&self, c: &T) -> bool {
		&&& self.inv() && self.ma.convex() && self.ma.within(src_val(c, self.cfg.source), src_val(c, self.cfg.source))
		&&& self.prev_close == c.close_s() && c.low_s()@ <= c.close_s()@ <= c.high_s()@
		&&& forall|i: int| 0 <= i < self.sma.window.view().len() ==> (#[trigger] self.sma.window.view()[i])@ == c.high_s()@ - c.low_s()@
	}
}
pub proof fn keltner_const_step<M: MovingAverageConstructor, T: OHLCV>(pre: &KeltnerChannelInstance<M>, c: &T, src: ValueType, tr: ValueType, post: &KeltnerChannelInstance<M>, upper: real, lower: real, ma: ValueType, atr: ValueType)
	requires pre.const_state(c), post.inv(), post.cfg == pre.cfg, post.prev_close == c.close_s(), src@ == src_val(c, pre.cfg.source),
		tr@ == rmax(c.high_s()@, pre.prev_close@) - rmin(c.low_s()@, pre.prev_close@), keltner_step(pre, src, tr, post, upper, lower, ma, atr)
	ensures ma@ == src@, atr@ == c.high_s()@ - c.low_s()@, upper == src@ + pre.cfg.sigma@ * (c.high_s()@ - c.low_s()@), lower == src@ - pre.cfg.sigma@ * (c.high_s()@ - c.low_s()@),
		post.const_state(c)
{
	<M::Instance as MovingAverage>::lemma_within_step(&pre.ma, &src, &post.ma, &ma, src@, src@);
	let d = c.high_s()@ - c.low_s()@;
	assert(tr@ == d);
	let v = post.sma.window.view();
	assert forall|i: int| 0 <= i < v.len() implies (#[trigger] v[i])@ == d by {
		if i < v.len() - 1 { assert(v[i] == pre.sma.window.view()[i + 1]); }
	}
	lemma_sum_all_eq(v, d);
	let n = v.len() as real;
	assert((n * d) / n == d) by(nonlinear_arith) requires n >= 1real;
}
pub proof fn lemma_sum_nonneg(s: Seq<R>)
	requires forall|i: int| 0 <= i < s.len() ==> (#[trigger] s[i])@ >= 0real
	ensures sum(s) >= 0real
	decreases s.len()
{
	if s.len() > 0 { lemma_sum_nonneg(s.drop_last()); }
}
} // verus!
fn main() {}
