//@unit simple_window
//@include head.rs
//@export-begin

// ------------------------------------------------------------------ Momentum
//@extract src/methods/momentum.rs struct:Momentum
//@end
impl Method for Momentum {
	type Params = PeriodType;
	type Input = ValueType;
	type Output = ValueType;
	open spec fn inv(&self) -> bool { self.window.wf() && self.window.cap() >= 1 }
	open spec fn rejects(parameters: PeriodType) -> bool { parameters == 0 }
	open spec fn new_req(parameters: PeriodType, initial_value: &ValueType) -> bool { true }
	open spec fn fresh(parameters: PeriodType, initial_value: &ValueType, s: &Self) -> bool {
		s.window.view() =~= konst(parameters as nat, *initial_value)
	}
	open spec fn input_ok(&self, x: &ValueType) -> bool { true }
	// documented: value(t) - value(t - length)
	open spec fn step(pre: &Self, x: &ValueType, post: &Self, out: &ValueType) -> bool {
		&&& post.window.view() == pre.window.view().drop_first().push(*x)
		&&& out@ == x@ - pre.window.view()[0]@
	}
//@extract src/methods/momentum.rs impl[Method for Momentum]::new
//@hint result
	proof { if r is Ok { lemma_cloned_konst(r->Ok_0.window.view(), length as nat, value); } }
//@end
//@extract src/methods/momentum.rs impl[Method for Momentum]::next
//@end
}

//@extract src/methods/momentum.rs type:Change
//@end

// ------------------------------------------------------------------ Derivative
//@extract src/methods/derivative.rs struct:Derivative
//@end
impl Method for Derivative {
	type Params = PeriodType;
	type Input = ValueType;
	type Output = ValueType;
	open spec fn inv(&self) -> bool {
		self.window.wf() && self.window.cap() >= 1 && self.divider@ * (self.window.cap() as real) == 1real
	}
	open spec fn rejects(parameters: PeriodType) -> bool { parameters == 0 }
	open spec fn new_req(parameters: PeriodType, initial_value: &ValueType) -> bool { true }
	open spec fn fresh(parameters: PeriodType, initial_value: &ValueType, s: &Self) -> bool {
		s.window.view() =~= konst(parameters as nat, *initial_value)
	}
	open spec fn input_ok(&self, x: &ValueType) -> bool { true }
	// documented: (value(t) - value(t - length)) / length
	open spec fn step(pre: &Self, x: &ValueType, post: &Self, out: &ValueType) -> bool {
		&&& post.window.view() == pre.window.view().drop_first().push(*x)
		&&& out@ == (x@ - pre.window.view()[0]@) / (pre.window.cap() as real)
	}
//@extract src/methods/derivative.rs impl[Method for Derivative]::new
//@hint before match length
	proof {
		if length > 0 {
			let n = length as real;
			assert(rdiv(1real, n) * n == 1real) by(nonlinear_arith) requires n >= 1real, rdiv(1real, n) == 1real / n;
		}
	}
//@hint result
	proof { if r is Ok { lemma_cloned_konst(r->Ok_0.window.view(), length as nat, *value); } }
//@end
//@extract src/methods/derivative.rs impl[Method for Derivative]::next
//@hint before (value - prev_value)
	proof {
		let n = self.window.cap() as real;
		let d = self.divider@;
		let a = value@ - prev_value@;
		assert(a * d == a / n) by(nonlinear_arith) requires d * n == 1real, n >= 1real;
	}
//@end
}

// ------------------------------------------------------------------ RateOfChange
//@extract src/methods/rate_of_change.rs struct:RateOfChange
//@end
impl Method for RateOfChange {
	type Params = PeriodType;
	type Input = ValueType;
	type Output = ValueType;
	open spec fn inv(&self) -> bool { self.0.wf() && self.0.cap() >= 1 }
	open spec fn rejects(parameters: PeriodType) -> bool { parameters == 0 }
	open spec fn new_req(parameters: PeriodType, initial_value: &ValueType) -> bool { true }
	open spec fn fresh(parameters: PeriodType, initial_value: &ValueType, s: &Self) -> bool {
		s.0.view() =~= konst(parameters as nat, *initial_value)
	}
	open spec fn input_ok(&self, x: &ValueType) -> bool { true }
	// documented: (value(t) - value(t - length)) / value(t - length), wherever defined
	open spec fn step(pre: &Self, x: &ValueType, post: &Self, out: &ValueType) -> bool {
		&&& post.0.view() == pre.0.view().drop_first().push(*x)
		&&& (pre.0.view()[0]@ != 0real ==> out@ == (x@ - pre.0.view()[0]@) / pre.0.view()[0]@)
	}
//@extract src/methods/rate_of_change.rs impl[Method for RateOfChange]::new
//@hint result
	proof { if r is Ok { lemma_cloned_konst(r->Ok_0.0.view(), length as nat, value); } }
//@end
//@extract src/methods/rate_of_change.rs impl[Method for RateOfChange]::next
//@end
}

// ------------------------------------------------------------------ Past
pub open spec fn cloned_twice<T: Clone>(a: T, b: T) -> bool { exists|c: T| #[trigger] cloned(a, c) && cloned(c, b) }
//@extract src/methods/past.rs struct:Past
//@end
impl<T> Method for Past<T>
where
	T: Clone + fmt::Debug,
{
	type Params = PeriodType;
	type Input = T;
	type Output = T;
	open spec fn inv(&self) -> bool { self.0.wf() && self.0.cap() >= 1 }
	open spec fn rejects(parameters: PeriodType) -> bool { parameters == 0 }
	open spec fn new_req(parameters: PeriodType, initial_value: &T) -> bool { true }
	open spec fn fresh(parameters: PeriodType, initial_value: &T, s: &Self) -> bool {
		s.0.cap() == parameters as int && forall|i: int| 0 <= i < parameters as int ==> cloned_twice(*initial_value, #[trigger] s.0.view()[i])
	}
	open spec fn input_ok(&self, x: &T) -> bool { true }
	// documented: the value `length` steps ago
	open spec fn step(pre: &Self, x: &T, post: &Self, out: &T) -> bool {
		&&& post.0.view().len() == pre.0.view().len()
		&&& post.0.view().drop_last() =~= pre.0.view().drop_first()
		&&& cloned(*x, post.0.view().last())
		&&& *out == pre.0.view()[0]
	}
//@extract src/methods/past.rs impl[Method for Past<T>]::new
//@replace Ok(Self(Window::new(length, value.clone()))) ==> { let c = value.clone(); proof { assert(cloned(*value, c)); } Ok(Self(Window::new(length, c))) }
//@end
//@extract src/methods/past.rs impl[Method for Past<T>]::next
//@sig fn next(&mut self, value: &Self::Input) -> (r: T)
//@end
}

// ------------------------------------------------------------------ Integral (windowed: C02; length 0, cumulative: C03)
//@extract src/methods/integral.rs struct:Integral
//@end
impl Method for Integral {
	type Params = PeriodType;
	type Input = ValueType;
	type Output = ValueType;
	open spec fn inv(&self) -> bool {
		&&& self.window.wf()
		&&& (self.window.cap() > 0 ==> self.value@ == sum(self.window.view()))
	}
	open spec fn rejects(parameters: PeriodType) -> bool { false }
	open spec fn new_req(parameters: PeriodType, initial_value: &ValueType) -> bool { true }
	open spec fn fresh(parameters: PeriodType, initial_value: &ValueType, s: &Self) -> bool {
		&&& s.window.view() =~= konst(parameters as nat, *initial_value)
		&&& s.value@ == initial_value@ * (parameters as real)
	}
	open spec fn input_ok(&self, x: &ValueType) -> bool { true }
	// documented: sum of the last `length` values; with length 0 the running sum of the whole stream
	open spec fn step(pre: &Self, x: &ValueType, post: &Self, out: &ValueType) -> bool {
		&&& post.window.cap() == pre.window.cap()
		&&& (pre.window.cap() > 0 ==> post.window.view() == pre.window.view().drop_first().push(*x) && out@ == sum(post.window.view()))
		&&& (pre.window.cap() == 0 ==> out@ == pre.value@ + x@)
		&&& out == post.value
	}
//@extract src/methods/integral.rs impl[Method for Integral]::new
//@hint result
	proof {
		if r is Ok {
			lemma_cloned_konst(r->Ok_0.window.view(), length as nat, value);
			lemma_sum_konst(length as nat, value);
			assert(value@ * (length as real) == (length as real) * value@) by(nonlinear_arith);
		}
	}
//@end
//@extract src/methods/integral.rs impl[Method for Integral]::next
//@hint start
	proof { if self.window.cap() > 0 { lemma_sum_slide(self.window.view(), value); } }
//@end
}

// C08 (constant prehistory), one inductive step each
pub proof fn momentum_const_step(pre: Momentum, v: R, post: Momentum, out: R)
	requires pre.inv(), pre.window.view() =~= konst(pre.window.view().len(), v), Momentum::step(&pre, &v, &post, &out)
	ensures post.window.view() =~= konst(pre.window.view().len(), v), out@ == 0real
{}
pub proof fn derivative_const_step(pre: Derivative, v: R, post: Derivative, out: R)
	requires pre.inv(), pre.window.view() =~= konst(pre.window.view().len(), v), Derivative::step(&pre, &v, &post, &out)
	ensures post.window.view() =~= konst(pre.window.view().len(), v), out@ == 0real
{
	let n = pre.window.cap() as real;
	assert(0real / n == 0real) by(nonlinear_arith) requires n >= 1real;
}
pub proof fn roc_const_step(pre: RateOfChange, v: R, post: RateOfChange, out: R)
	requires pre.inv(), pre.0.view() =~= konst(pre.0.view().len(), v), RateOfChange::step(&pre, &v, &post, &out), v@ != 0real
	ensures post.0.view() =~= konst(pre.0.view().len(), v), out@ == 0real
{
	assert(0real / v@ == 0real) by(nonlinear_arith) requires v@ != 0real;
}
pub proof fn integral_const_step(pre: Integral, v: R, post: Integral, out: R)
	requires pre.inv(), pre.window.cap() > 0, pre.window.view() =~= konst(pre.window.view().len(), v), Integral::step(&pre, &v, &post, &out)
	ensures post.window.view() =~= konst(pre.window.view().len(), v), out@ == (pre.window.cap() as real) * v@
{
	assert(post.window.view() =~= konst(pre.window.view().len(), v));
	lemma_sum_konst(pre.window.view().len(), v);
}

//@export-end
} // verus!
fn main() {}
