//@unit smm_serde
//@include head.rs
//@include sorted_lib.rs
use std::cmp::Ordering;
//@import smm.rs.tpl

// <[ValueType]>::sort_unstable_by(|a, b| a.partial_cmp(b).unwrap_or_else(|| { sort_error = true; Ordering::Equal })): ASSUMED std contract - the
// result is ordered and a permutation of the input; the flag reports an incomparable pair (NaN), which does not exist in the real model
#[verifier::external_body]
pub fn sort_values(s: &mut Box<[ValueType]>) -> (sort_error: bool)
	ensures sorted(final(s)@), perm(final(s)@, old(s)@), !sort_error
{ unimplemented!() }
// window.as_slice().to_owned().into_boxed_slice(): a copy of the ring buffer in storage order (ASSUMED std contract)
#[verifier::external_body]
pub fn slice_to_boxed(s: &[ValueType]) -> (r: Box<[ValueType]>)
	ensures r@ == s@
{ unimplemented!() }

// a rotation has the same multiset of values
pub proof fn lemma_perm_rotation(buf: Seq<R>, k: int)
	requires 0 <= k <= buf.len()
	ensures perm(buf, buf.subrange(k, buf.len() as int) + buf.subrange(0, k))
{
	let (a, b) = (buf.subrange(0, k), buf.subrange(k, buf.len() as int));
	assert(buf =~= a + b);
	assert forall|x: real| cnt(buf, x) == cnt(b + a, x) by {
		lemma_cnt_concat(a, b, x);
		lemma_cnt_concat(b, a, x);
	}
}
pub proof fn lemma_perm_trans(a: Seq<R>, b: Seq<R>, c: Seq<R>)
	requires perm(a, b), perm(b, c)
	ensures perm(a, c)
{
}

impl SMM {
	// Serialize for SMM writes the single field `window` (serialize_field("window", &self.window)); the sorted buffer and the two
	// middle positions are rebuilt on the way back:
	// Deserialize for SMM after the derived helper struct produced `window` (serde glue and error text construction dropped, R11)
//@extract src/methods/smm.rs impl[Deserialize<'de> for SMM]::deserialize pub
//@sig pub fn deserialize_parts(window: Window<ValueType>) -> (r: Result<Self, ()>)
	requires window.wf()
	ensures
		// an empty window is rejected with an error, never a panic
		(window.cap() == 0) <==> r is Err,
		// otherwise the instance is exactly what `new` followed by the same pushes would hold: same window, sorted buffer = its multiset, middle positions
		r is Ok ==> r->Ok_0.inv() && r->Ok_0.window == window,
//@replace #[derive(Deserialize)] struct DeserializedSMM { window: Window<ValueType>, } let de = DeserializedSMM::deserialize(deserializer)?; let window = de.window; ==> 
//@replace let mut slice = window.as_slice().to_owned().into_boxed_slice(); ==> let mut slice = slice_to_boxed(window.as_slice());
//@replace slice.sort_unstable_by(|a, b| { a.partial_cmp(b).unwrap_or_else(|| { sort_error = true; Ordering::Equal }) }); ==> sort_error = sort_values(&mut slice);
//@hint before let half
	proof {
		let n = window.size as int;
		lemma_perm_rotation(window.buf@, window.index as int);
		assert forall|i: int| 0 <= i < n implies #[trigger] window.view()[i] == (window.buf@.subrange(window.index as int, n) + window.buf@.subrange(0, window.index as int))[i] by {
			lemma_mod_index(window.index as int, i, n);
		}
		assert(window.view() =~= window.buf@.subrange(window.index as int, n) + window.buf@.subrange(0, window.index as int));
	}
//@end
}
} // verus!
fn main() {}
