//@unit ind_rvi
//@include head.rs
//@import ohlcv.rs.tpl
//@import indicator_base.rs.tpl
//@include indicator_traits.rs
//@import sma.rs.tpl
//@import swma.rs.tpl

// ================================================================== RelativeVigorIndex
//@extract src/indicators/relative_vigor_index.rs struct:RelativeVigorIndex
//@end
//@extract src/indicators/relative_vigor_index.rs struct:RelativeVigorIndexInstance
//@end
impl<M: MovingAverageConstructor> RelativeVigorIndex<M> {
	pub open spec fn valid(&self) -> bool {
		self.period1 >= 2 && self.zone@ >= 0real && self.zone@ < 0.5real && self.period2 > 1 && self.signal.period_s() > 1
	}
//@extract src/indicators/relative_vigor_index.rs impl[IndicatorConfig for RelativeVigorIndex<M>]::validate pub
	ensures r == self.valid(),
//@end
//@extract src/indicators/relative_vigor_index.rs impl[IndicatorConfig for RelativeVigorIndex<M>]::size pub
	ensures r == (2u8, 2u8),
//@end
//@extract src/indicators/relative_vigor_index.rs impl[IndicatorConfig for RelativeVigorIndex<M>]::init pub
//@sig pub fn init<T: OHLCV>(self, candle: &T) -> (r: Result<RelativeVigorIndexInstance<M>, Error>)
	// SWMA computes its weight sums in 32 bits: lengths above 2^32 exist only under period_type_u64
	requires (self.period2 as int) <= 0xffff_ffff
	ensures
		!self.valid() ==> r is Err,
		r is Ok ==> r->Ok_0.inv() && r->Ok_0.cfg == self,
		// documented seeds: previous close = first open; the signal average from 0
		r is Ok ==> r->Ok_0.prev_close == candle.open_s() && self.signal.seeded(0real, &r->Ok_0.ma),
		r is Ok ==> r->Ok_0.cross.up.last_delta@ == 0real && r->Ok_0.cross.down.last_delta@ == 0real,
//@replace Ok(Self::Instance { ==> Ok(RelativeVigorIndexInstance {
//@end
}
pub open spec fn rvi_step<M: MovingAverageConstructor, T: OHLCV>(pre: &RelativeVigorIndexInstance<M>, candle: &T, post: &RelativeVigorIndexInstance<M>, rvi: ValueType, sig: ValueType, s1: Action, s2: Action,
	co: ValueType, hl: ValueType, w1: ValueType, a1: ValueType, w2: ValueType, a2: ValueType, c: Action) -> bool {
	// documented: RVI = SMA(SWMA(close - previous close)) / SMA(SWMA(high - low)), 0 when the denominator is 0; signal line = MA(RVI)
	&&& co@ == candle.close_s()@ - pre.prev_close@ && hl@ == candle.high_s()@ - candle.low_s()@ && post.prev_close == candle.close_s()
	&&& SWMA::step(&pre.swma1, &co, &post.swma1, &w1) && SMA::step(&pre.sma1, &w1, &post.sma1, &a1)
	&&& SWMA::step(&pre.swma2, &hl, &post.swma2, &w2) && SMA::step(&pre.sma2, &w2, &post.sma2, &a2)
	&&& (a2@ == 0real ==> rvi@ == 0real) && (a2@ != 0real ==> rvi@ == a1@ / a2@)
	&&& <M::Instance as Method>::step(&pre.ma, &rvi, &post.ma, &sig)
	// documented signal 1: RVI crossing its signal line (upwards: full buy, downwards: full sell)
	&&& Cross::step(&pre.cross, &(rvi, sig), &post.cross, &c)
	&&& s1 == Action::of_i8(if sv(c) > 0 { 1int } else if sv(c) < 0 { -1int } else { 0int })
	// documented signal 2: the same crossing outside the safe zone: below -zone and upwards: full buy; above +zone and downwards: full sell
	&&& s2 == Action::of_i8((if sv(c) > 0 && rvi@ < -pre.cfg.zone@ && sig@ < -pre.cfg.zone@ { 1int } else { 0int })
		- (if sv(c) < 0 && rvi@ > pre.cfg.zone@ && sig@ > pre.cfg.zone@ { 1int } else { 0int }))
}
impl<M: MovingAverageConstructor> RelativeVigorIndexInstance<M> {
	pub open spec fn inv(&self) -> bool {
		self.swma1.inv() && self.sma1.inv() && self.swma2.inv() && self.sma2.inv() && self.ma.inv() && self.cross.inv()
	}
//@extract src/indicators/relative_vigor_index.rs impl[IndicatorInstance for RelativeVigorIndexInstance<M>]::next pub into=action
	requires old(self).inv()
	ensures final(self).inv(), final(self).cfg == old(self).cfg,
		r.length == (2u8, 2u8),
		exists|co: ValueType, hl: ValueType, w1: ValueType, a1: ValueType, w2: ValueType, a2: ValueType, c: Action|
			#[trigger] rvi_step(old(self), candle, final(self), r.vals()[0], r.vals()[1], r.sigs()[0], r.sigs()[1], co, hl, w1, a1, w2, a2, c),
//@replace let s1 = self.cross.next(&(rvi, sig)).analog(); ==> let c__ = self.cross.next(&(rvi, sig)); let s1 = c__.analog();
//@hint before let sig
	proof { self.ma.input_always_ok(&rvi); }
//@hint result
	proof { assert(rvi_step(old(self), candle, self, r.vals()[0], r.vals()[1], r.sigs()[0], r.sigs()[1], close_open, high_low, swma1, sma1, swma2, sma2, c__)); }
//@end
}
} // verus!
fn main() {}
