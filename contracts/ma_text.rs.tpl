//@unit ma_text
//@include head.rs
//@include strings.rs
//@extract src/helpers/methods.rs enum:MA keepderive
//@end

// `s.split_once('-')`: abstract (ASSUMED std behaviour); the two parts are functions of the text
pub uninterp spec fn split_dash(s: Seq<char>) -> Option<(Seq<char>, Seq<char>)>;
#[verifier::external_body]
pub fn split_once_dash(s: &str) -> (r: Option<(&str, &str)>)
	ensures (r is Some) == (split_dash(s@) is Some),
		r is Some ==> r->Some_0.0@ == split_dash(s@)->Some_0.0 && r->Some_0.1@ == split_dash(s@)->Some_0.1
{ unimplemented!() }
// `period.parse::<PeriodType>()`: abstract parsing (Parsable::parse_spec), the error value dropped
#[verifier::external_body]
pub fn parse_period(s: &str) -> (r: Result<PeriodType, ()>)
	ensures (r is Ok) == (<PeriodType as Parsable>::parse_spec(s@) is Some), r is Ok ==> r->Ok_0 == <PeriodType as Parsable>::parse_spec(s@)->Some_0
{ unimplemented!() }

// the fifteen names (exact, lowercase; no normalisation is applied by from_str) and the kind each one selects
pub open spec fn ma_of_name(name: Seq<char>, n: PeriodType) -> Option<MA> {
	if name == "sma"@ { Some(MA::SMA(n)) } else if name == "wma"@ { Some(MA::WMA(n)) } else if name == "hma"@ { Some(MA::HMA(n)) }
	else if name == "rma"@ { Some(MA::RMA(n)) } else if name == "ema"@ { Some(MA::EMA(n)) } else if name == "dma"@ { Some(MA::DMA(n)) }
	else if name == "tma"@ { Some(MA::TMA(n)) } else if name == "dema"@ { Some(MA::DEMA(n)) } else if name == "tema"@ { Some(MA::TEMA(n)) }
	else if name == "wsma"@ { Some(MA::WSMA(n)) } else if name == "smm"@ { Some(MA::SMM(n)) } else if name == "swma"@ { Some(MA::SWMA(n)) }
	else if name == "trima"@ { Some(MA::TRIMA(n)) } else if name == "linreg"@ { Some(MA::LinReg(n)) } else if name == "vidya"@ { Some(MA::Vidya(n)) }
	else { None }
}
pub open spec fn ma_name(m: MA) -> Seq<char> {
	match m {
		MA::SMA(_) => "sma"@, MA::WMA(_) => "wma"@, MA::HMA(_) => "hma"@, MA::RMA(_) => "rma"@, MA::EMA(_) => "ema"@, MA::DMA(_) => "dma"@,
		MA::TMA(_) => "tma"@, MA::DEMA(_) => "dema"@, MA::TEMA(_) => "tema"@, MA::WSMA(_) => "wsma"@, MA::SMM(_) => "smm"@, MA::SWMA(_) => "swma"@,
		MA::TRIMA(_) => "trima"@, MA::LinReg(_) => "linreg"@, MA::Vidya(_) => "vidya"@,
	}
}
pub open spec fn ma_len(m: MA) -> PeriodType {
	match m {
		MA::SMA(n) => n, MA::WMA(n) => n, MA::HMA(n) => n, MA::RMA(n) => n, MA::EMA(n) => n, MA::DMA(n) => n, MA::TMA(n) => n, MA::DEMA(n) => n,
		MA::TEMA(n) => n, MA::WSMA(n) => n, MA::SMM(n) => n, MA::SWMA(n) => n, MA::TRIMA(n) => n, MA::LinReg(n) => n, MA::Vidya(n) => n,
	}
}
// what from_str accepts: `<name>-<period>` with one of the fifteen names and a period that parses as PeriodType
pub open spec fn ma_of_text(t: Seq<char>) -> Option<MA> {
	match split_dash(t) {
		None => None,
		Some(p) => match <PeriodType as Parsable>::parse_spec(p.1) { None => None, Some(n) => ma_of_name(p.0, n) },
	}
}
impl MA {
//@extract src/helpers/methods.rs impl[FromStr for MA]::from_str pub
//@sig pub fn from_str(s: &str) -> (r: Result<Self, Error>)
	ensures
		// everything that is not `<name>-<period>` is rejected with an error
		(r is Ok) == (ma_of_text(s@) is Some),
		r is Ok ==> r->Ok_0 == ma_of_text(s@)->Some_0,
//@replace let (method, period) = s.split_once('-').ok_or(Error::MovingAverageParse)?; ==> let (method, period) = match split_once_dash(s) { Some(p) => p, None => return Err(Error::MovingAverageParse) };
//@replace let length: PeriodType = period.parse().or(Err(Error::MovingAverageParse))?; ==> let length: PeriodType = match parse_period(period) { Ok(v) => v, Err(_) => return Err(Error::MovingAverageParse) };
//@end
}
// C18: the textual form `<name>-<period>` of every constructor parses back to the same constructor: for every kind and length, a text that
// splits at its dash into the kind's name and a period text parsing to the length is accepted as exactly that value
pub proof fn ma_text_roundtrip(m: MA, t: Seq<char>, digits: Seq<char>)
	requires split_dash(t) == Some((ma_name(m), digits)), <PeriodType as Parsable>::parse_spec(digits) == Some(ma_len(m))
	ensures ma_of_text(t) == Some(m)
{
	reveal_strlit("sma"); reveal_strlit("wma"); reveal_strlit("hma"); reveal_strlit("rma"); reveal_strlit("ema"); reveal_strlit("dma"); reveal_strlit("tma");
	reveal_strlit("dema"); reveal_strlit("tema"); reveal_strlit("wsma"); reveal_strlit("smm"); reveal_strlit("swma"); reveal_strlit("trima");
	reveal_strlit("linreg"); reveal_strlit("vidya");
	// the fifteen names are pairwise different: by length, or by a character where lengths coincide
	assert("sma"@.len() == 3 && "wma"@.len() == 3 && "hma"@.len() == 3 && "rma"@.len() == 3 && "ema"@.len() == 3 && "dma"@.len() == 3 && "tma"@.len() == 3 && "smm"@.len() == 3
		&& "dema"@.len() == 4 && "tema"@.len() == 4 && "wsma"@.len() == 4 && "swma"@.len() == 4 && "trima"@.len() == 5 && "vidya"@.len() == 5 && "linreg"@.len() == 6);
	assert("sma"@[0] == 's' && "wma"@[0] == 'w' && "hma"@[0] == 'h' && "rma"@[0] == 'r' && "ema"@[0] == 'e' && "dma"@[0] == 'd' && "tma"@[0] == 't' && "smm"@[0] == 's');
	assert("sma"@[1] == 'm' && "smm"@[1] == 'm' && "sma"@[2] == 'a' && "smm"@[2] == 'm');
	assert("dema"@[0] == 'd' && "tema"@[0] == 't' && "wsma"@[0] == 'w' && "swma"@[0] == 's' && "trima"@[0] == 't' && "vidya"@[0] == 'v');
}
} // verus!
fn main() {}
