//@unit ind_rev
//@include head.rs
//@import ohlcv.rs.tpl
//@import indicator_base.rs.tpl
//@include indicator_traits.rs
//@import ema.rs.tpl
//@import simple_window.rs.tpl
//@import reversal.rs.tpl

// ================================================================== Trix
//@extract src/indicators/trix.rs struct:Trix
//@end
//@extract src/indicators/trix.rs struct:TRIXInstance
//@end
impl<M: MovingAverageConstructor> Trix<M> {
	pub open spec fn valid(&self) -> bool { self.period1 > 2 && self.signal.period_s() > 1 }
//@extract src/indicators/trix.rs impl[IndicatorConfig for Trix<M>]::validate pub
	ensures r == self.valid(),
//@end
//@extract src/indicators/trix.rs impl[IndicatorConfig for Trix<M>]::size pub
	ensures r == (2u8, 3u8),
//@end
//@extract src/indicators/trix.rs impl[IndicatorConfig for Trix<M>]::init pub
//@sig pub fn init<T: OHLCV>(self, candle: &T) -> (r: Result<TRIXInstance<M>, Error>)
	ensures
		!self.valid() ==> r is Err,
		r is Ok ==> r->Ok_0.inv() && r->Ok_0.cfg == self && r->Ok_0.reverse.high.index == 0 && r->Ok_0.reverse.low.index == 0,
		// documented seeds: the triple EMA and the 1-step change start from the source price; the signal average and the pivot detector from 0 (the main value of a constant stream)
		r is Ok ==> self.signal.seeded(0real, &r->Ok_0.sig),
		r is Ok ==> r->Ok_0.tma.tma.value@ == src_val(candle, self.source) && r->Ok_0.change.window.view().len() == 1
			&& r->Ok_0.change.window.view()[0]@ == src_val(candle, self.source),
		r is Ok ==> r->Ok_0.cross1.up.last_delta@ == 0real && r->Ok_0.cross2.up.last_delta@ == 0real,
		// C08: for an averaging kind that cannot overshoot, the constant state for the candle's source price (trix_const_step)
		r is Ok && self.signal.convex_kind() ==> r->Ok_0.const_state(src_val(candle, self.source)),
//@replace Ok(Self::Instance { ==> Ok(TRIXInstance {
//@replace ReversalSignal::new( ==> ReversalSignal::new3(
//@end
}
pub open spec fn trix_step<M: MovingAverageConstructor>(pre: &TRIXInstance<M>, src: ValueType, post: &TRIXInstance<M>, value: ValueType, sigline: ValueType, s1: Action, s2: Action, s3: Action, tma: ValueType, zero: ValueType) -> bool {
	// documented: value = 1-step change of the triple-smoothed EMA of the source; signal line = MA(value)
	&&& TMA::step(&pre.tma, &src, &post.tma, &tma)
	&&& Momentum::step(&pre.change, &tma, &post.change, &value)
	&&& <M::Instance as Method>::step(&pre.sig, &value, &post.sig, &sigline)
	// signals: pivot of the value (1, 1); value crossing its signal line; value crossing zero
	&&& ReversalSignal::step(&pre.reverse, &value, &post.reverse, &s1)
	&&& Cross::step(&pre.cross1, &(value, sigline), &post.cross1, &s2)
	&&& zero@ == 0real && Cross::step(&pre.cross2, &(value, zero), &post.cross2, &s3)
}
impl<M: MovingAverageConstructor> TRIXInstance<M> {
	pub open spec fn inv(&self) -> bool {
		self.tma.inv() && self.sig.inv() && self.change.inv() && self.cross1.inv() && self.cross2.inv() && self.reverse.inv()
	}
	// KNOWN FINDING (C07/C14): the pivot detector's position counter saturates at PeriodType::MAX; the contract covers the calls before that
	pub open spec fn in_capacity(&self) -> bool { self.reverse.high.index < PeriodType::MAX && self.reverse.low.index < PeriodType::MAX }
//@extract src/indicators/trix.rs impl[IndicatorInstance for TRIXInstance<M>]::next pub
	requires old(self).inv(), old(self).in_capacity()
	ensures final(self).inv(), final(self).cfg == old(self).cfg,
		r.length == (2u8, 3u8),
		exists|tma: ValueType, zero: ValueType, src: ValueType| src@ == src_val(candle, old(self).cfg.source)
			&& #[trigger] trix_step(old(self), src, final(self), r.vals()[0], r.vals()[1], r.sigs()[0], r.sigs()[1], r.sigs()[2], tma, zero),
//@hint before let sigline
	proof { self.sig.input_always_ok(&value); }
//@hint result
	proof { assert(trix_step(old(self), src, self, r.vals()[0], r.vals()[1], r.sigs()[0], r.sigs()[1], r.sigs()[2], tma, mk(0real))); }
//@end
}

// ---- C08 at indicator level (averaging kinds that cannot overshoot): Trix on a repeated candle: value 0, signal line 0, no signals
pub proof fn lemma_ema_fix(pre: &EMA, x: ValueType, post: &EMA, out: ValueType)
	requires pre.value@ == x@, EMA::step(pre, &x, post, &out)
	ensures out@ == x@, post.value@ == x@
{
	assert(pre.alpha@ * (x@ - x@) == 0real) by(nonlinear_arith);
}
impl<M: MovingAverageConstructor> TRIXInstance<M> {
	pub open spec fn const_state(&self, s: real) -> bool {
		&&& self.inv() && self.tma.dma.ema.value@ == s && self.tma.dma.dma.value@ == s && self.tma.tma.value@ == s
		&&& self.change.window.view().len() == 1 && self.change.window.view()[0]@ == s
		&&& self.sig.convex() && self.sig.within(0real, 0real) && reversal_const_state(&self.reverse, 0real)
		&&& self.cross1.up.last_delta@ == 0real && self.cross2.up.last_delta@ == 0real
	}
}
pub proof fn trix_const_step<M: MovingAverageConstructor>(pre: &TRIXInstance<M>, src: ValueType, post: &TRIXInstance<M>, value: ValueType, sigline: ValueType, s1: Action, s2: Action, s3: Action, tma: ValueType, zero: ValueType)
	requires pre.const_state(src@), post.inv(), trix_step(pre, src, post, value, sigline, s1, s2, s3, tma, zero)
	ensures value@ == 0real, sigline@ == 0real, sv(s1) == 0, s2 is None, s3 is None, post.const_state(src@)
{
	let m1 = post.tma.dma.ema.value;
	let m2 = post.tma.dma.dma.value;
	lemma_ema_fix(&pre.tma.dma.ema, src, &post.tma.dma.ema, m1);
	lemma_ema_fix(&pre.tma.dma.dma, m1, &post.tma.dma.dma, m2);
	lemma_ema_fix(&pre.tma.tma, m2, &post.tma.tma, tma);
	assert(value@ == 0real);
	<M::Instance as MovingAverage>::lemma_within_step(&pre.sig, &value, &post.sig, &sigline, 0real, 0real);
	reversal_const_step(&pre.reverse, value, &post.reverse, s1);
}

// ================================================================== CoppockCurve
//@extract src/indicators/coppock_curve.rs struct:CoppockCurve
//@end
//@extract src/indicators/coppock_curve.rs struct:CoppockCurveInstance
//@end
impl<M: MovingAverageConstructor> CoppockCurve<M> {
	pub open spec fn valid(&self) -> bool {
		&&& self.ma1.period_s() > 1 && self.period2 > self.period3 && self.period2 < PeriodType::MAX && self.period3 > 0
		&&& self.s3_ma.period_s() > 1 && self.s2_left > 0 && self.s2_right > 0
		&&& (self.s2_left as int) + (self.s2_right as int) < (PeriodType::MAX as int)
	}
//@extract src/indicators/coppock_curve.rs impl[IndicatorConfig for CoppockCurve<M>]::validate pub
	ensures r == self.valid(),
//@end
//@extract src/indicators/coppock_curve.rs impl[IndicatorConfig for CoppockCurve<M>]::size pub
	ensures r == (2u8, 3u8),
//@end
//@extract src/indicators/coppock_curve.rs impl[IndicatorConfig for CoppockCurve<M>]::init pub
//@sig pub fn init<T: OHLCV>(self, candle: &T) -> (r: Result<CoppockCurveInstance<M>, Error>)
	ensures
		!self.valid() ==> r is Err,
		r is Ok ==> r->Ok_0.inv() && r->Ok_0.cfg == self && r->Ok_0.pivot.high.index == 0 && r->Ok_0.pivot.low.index == 0,
		// documented seeds: two rates of change of the source over period2 and period3; both averages and the pivot detector from 0
		r is Ok ==> r->Ok_0.roc1.0.view().len() == self.period2 && r->Ok_0.roc2.0.view().len() == self.period3,
		r is Ok ==> self.ma1.seeded(0real, &r->Ok_0.ma1) && self.s3_ma.seeded(0real, &r->Ok_0.ma2),
		r is Ok ==> r->Ok_0.pivot.high.left == self.s2_left && r->Ok_0.pivot.high.right == self.s2_right,
		r is Ok ==> r->Ok_0.cross_over1.up.last_delta@ == 0real && r->Ok_0.cross_over2.up.last_delta@ == 0real,
		// C08: for averaging kinds that cannot overshoot and a non-zero source price, the constant state for that price (coppock_const_step)
		r is Ok && self.ma1.convex_kind() && self.s3_ma.convex_kind() && src_val(candle, self.source) != 0real ==> r->Ok_0.const_state(src_val(candle, self.source)),
//@replace Ok(Self::Instance { ==> Ok(CoppockCurveInstance {
//@replace ReversalSignal::new( ==> ReversalSignal::new3(
//@end
}
pub open spec fn coppock_step<M: MovingAverageConstructor>(pre: &CoppockCurveInstance<M>, src: ValueType, post: &CoppockCurveInstance<M>, v1: ValueType, v2: ValueType, s1: Action, s2: Action, s3: Action, r1: ValueType, r2: ValueType, sum: ValueType, zero: ValueType) -> bool {
	// documented: main value = MA1(ROC(period2) + ROC(period3)); signal line = MA2(main value)
	&&& RateOfChange::step(&pre.roc1, &src, &post.roc1, &r1) && RateOfChange::step(&pre.roc2, &src, &post.roc2, &r2)
	&&& sum@ == r1@ + r2@
	&&& <M::Instance as Method>::step(&pre.ma1, &sum, &post.ma1, &v1)
	&&& <M::Instance as Method>::step(&pre.ma2, &v1, &post.ma2, &v2)
	// signals: main value crossing zero; pivot of the main value; main value crossing the signal line
	&&& zero@ == 0real && Cross::step(&pre.cross_over1, &(v1, zero), &post.cross_over1, &s1)
	&&& ReversalSignal::step(&pre.pivot, &v1, &post.pivot, &s2)
	&&& Cross::step(&pre.cross_over2, &(v1, v2), &post.cross_over2, &s3)
}
impl<M: MovingAverageConstructor> CoppockCurveInstance<M> {
	pub open spec fn inv(&self) -> bool {
		&&& self.roc1.inv() && self.roc2.inv() && self.ma1.inv() && self.ma2.inv()
		&&& self.cross_over1.inv() && self.cross_over2.inv() && self.pivot.inv()
	}
	// KNOWN FINDING (C07/C14): the pivot detector's position counter saturates at PeriodType::MAX; the contract covers the calls before that
	pub open spec fn in_capacity(&self) -> bool { self.pivot.high.index < PeriodType::MAX && self.pivot.low.index < PeriodType::MAX }
//@extract src/indicators/coppock_curve.rs impl[IndicatorInstance for CoppockCurveInstance<M>]::next pub
	requires old(self).inv(), old(self).in_capacity()
	ensures final(self).inv(), final(self).cfg == old(self).cfg,
		r.length == (2u8, 3u8),
		exists|r1: ValueType, r2: ValueType, sum: ValueType, zero: ValueType, src: ValueType| src@ == src_val(candle, old(self).cfg.source)
			&& #[trigger] coppock_step(old(self), src, final(self), r.vals()[0], r.vals()[1], r.sigs()[0], r.sigs()[1], r.sigs()[2], r1, r2, sum, zero),
//@replace let value1 = self.ma1.next(&(roc1 + roc2)); ==> let sum__ = roc1 + roc2; proof { self.ma1.input_always_ok(&sum__); } let value1 = self.ma1.next(&sum__);
//@hint before let value2
	proof { self.ma2.input_always_ok(&value1); }
//@hint result
	proof { assert(coppock_step(old(self), *src, self, r.vals()[0], r.vals()[1], r.sigs()[0], r.sigs()[1], r.sigs()[2], roc1, roc2, sum__, mk(0real))); }
//@end
}

// ================================================================== AwesomeOscillator
//@extract src/indicators/awesome_oscillator.rs struct:AwesomeOscillator
//@end
//@extract src/indicators/awesome_oscillator.rs struct:AwesomeOscillatorInstance
//@end
impl<M: MovingAverageConstructor> AwesomeOscillator<M> {
	pub open spec fn valid(&self) -> bool {
		&&& self.ma1.period_s() > 2 && self.ma1.similar_s(&self.ma2) && self.ma1.period_s() < PeriodType::MAX
		&&& self.ma1.period_s() > self.ma2.period_s() && self.ma2.period_s() > 1
		&&& self.left > 0 && self.right > 0 && self.conseq_peaks > 0
		&&& (self.left as int) + (self.right as int) < (PeriodType::MAX as int)
	}
//@extract src/indicators/awesome_oscillator.rs impl[IndicatorConfig for AwesomeOscillator<M>]::validate pub
	ensures r == self.valid(),
//@end
//@extract src/indicators/awesome_oscillator.rs impl[IndicatorConfig for AwesomeOscillator<M>]::size pub
	ensures r == (1u8, 2u8),
//@end
//@extract src/indicators/awesome_oscillator.rs impl[IndicatorConfig for AwesomeOscillator<M>]::init pub
//@sig pub fn init<T: OHLCV>(self, candle: &T) -> (r: Result<AwesomeOscillatorInstance<M>, Error>)
	ensures
		!self.valid() ==> r is Err,
		r is Ok ==> r->Ok_0.inv() && r->Ok_0.cfg == self && r->Ok_0.reverse.high.index == 0 && r->Ok_0.reverse.low.index == 0,
		// documented seeds: both averages from the source price, the pivot detector (left, right) from 0, no peaks counted
		r is Ok ==> self.ma1.seeded(src_val(candle, self.source), &r->Ok_0.ma1) && self.ma2.seeded(src_val(candle, self.source), &r->Ok_0.ma2),
		r is Ok ==> r->Ok_0.reverse.high.left == self.left && r->Ok_0.reverse.high.right == self.right,
		r is Ok ==> r->Ok_0.low_peaks == 0 && r->Ok_0.high_peaks == 0 && r->Ok_0.cross_over.up.last_delta@ == 0real,
		// C08: for averaging kinds that cannot overshoot, the constant state for the candle's source price (awesome_const_step)
		r is Ok && self.ma1.convex_kind() && self.ma2.convex_kind() ==> r->Ok_0.const_state(src_val(candle, self.source)),
//@replace Ok(Self::Instance { ==> Ok(AwesomeOscillatorInstance {
//@replace reverse: Method::new( ==> reverse: <ReversalSignal as Method>::new(
//@end
}
pub open spec fn sat_inc(c: u8, b: bool) -> int { if b && c < 255 { c as int + 1 } else { c as int } }
pub open spec fn awesome_step<M: MovingAverageConstructor>(pre: &AwesomeOscillatorInstance<M>, src: ValueType, post: &AwesomeOscillatorInstance<M>, value: ValueType, s1: Action, s2: Action, m1: ValueType, m2: ValueType, piv: Action, zero: ValueType) -> bool {
	// documented value: fast average (ma2) minus slow average (ma1) of the source
	&&& <M::Instance as Method>::step(&pre.ma2, &src, &post.ma2, &m2)
	&&& <M::Instance as Method>::step(&pre.ma1, &src, &post.ma1, &m1)
	&&& value@ == m2@ - m1@
	// "twin peaks": pivots of the value are counted (saturating) while the value stays on one side of zero; the conseq_peaks-th lower pivot
	// gives +, the conseq_peaks-th higher pivot gives -; the counters are reset when the value changes side
	&&& ReversalSignal::step(&pre.reverse, &value, &post.reverse, &piv)
	&&& ({
		let hp = sat_inc(pre.high_peaks, sv(piv) > 0);
		let lp = sat_inc(pre.low_peaks, sv(piv) < 0);
		&&& s1 == Action::of_i8((if sv(piv) < 0 && lp >= pre.cfg.conseq_peaks { 1int } else { 0int }) - (if sv(piv) > 0 && hp >= pre.cfg.conseq_peaks { 1int } else { 0int }))
		&&& post.high_peaks as int == (if value@ >= 0real { hp } else { 0 })
		&&& post.low_peaks as int == (if value@ <= 0real { lp } else { 0 })
	})
	// signal 2: the value crossing zero
	&&& zero@ == 0real && Cross::step(&pre.cross_over, &(value, zero), &post.cross_over, &s2)
}
impl<M: MovingAverageConstructor> AwesomeOscillatorInstance<M> {
	pub open spec fn inv(&self) -> bool { self.ma1.inv() && self.ma2.inv() && self.cross_over.inv() && self.reverse.inv() }
	// KNOWN FINDING (C07/C14): the pivot detector's position counter saturates at PeriodType::MAX; the contract covers the calls before that
	pub open spec fn in_capacity(&self) -> bool { self.reverse.high.index < PeriodType::MAX && self.reverse.low.index < PeriodType::MAX }
//@extract src/indicators/awesome_oscillator.rs impl[IndicatorInstance for AwesomeOscillatorInstance<M>]::next pub into=action
	requires old(self).inv(), old(self).in_capacity()
	ensures final(self).inv(), final(self).cfg == old(self).cfg,
		r.length == (1u8, 2u8),
		exists|m1: ValueType, m2: ValueType, piv: Action, zero: ValueType, src: ValueType| src@ == src_val(candle, old(self).cfg.source)
			&& #[trigger] awesome_step(old(self), src, final(self), r.vals()[0], r.sigs()[0], r.sigs()[1], m1, m2, piv, zero),
//@replace let ma1 = &mut self.ma1; ==> 
//@replace let ma2 = &mut self.ma2; ==> 
//@replace let value = ma2.next(&src) - ma1.next(&src); ==> proof { self.ma2.input_always_ok(&src); self.ma1.input_always_ok(&src); } let m2__ = self.ma2.next(&src); let m1__ = self.ma1.next(&src); let value = m2__ - m1__;
//@replace let reverse: i8 = self.reverse.next(&value).into(); ==> let piv__ = self.reverse.next(&value); let reverse: i8 = <i8 as FromAction>::from_action(piv__);
//@hint before self.high_peaks *=
	proof {
		let (h, l) = (self.high_peaks as int, self.low_peaks as int);
		let bh = if value@ >= 0real { 1int } else { 0int };
		let bl = if value@ <= 0real { 1int } else { 0int };
		assert(h * bh == (if bh == 1 { h } else { 0 })) by(nonlinear_arith) requires bh == 0 || bh == 1;
		assert(l * bl == (if bl == 1 { l } else { 0 })) by(nonlinear_arith) requires bl == 0 || bl == 1;
	}
//@hint result
	proof { assert(awesome_step(old(self), src, self, r.vals()[0], r.sigs()[0], r.sigs()[1], m1__, m2__, piv__, mk(0real))); }
//@end
}

// ---- C08 at indicator level (averaging kinds that cannot overshoot, non-zero source price): CoppockCurve and AwesomeOscillator on a repeated candle
pub open spec fn all_eq(v: Seq<R>, s: real) -> bool { forall|i: int| 0 <= i < v.len() ==> (#[trigger] v[i])@ == s }
pub proof fn lemma_roc_const(pre: &RateOfChange, x: ValueType, post: &RateOfChange, out: ValueType)
	requires pre.inv(), all_eq(pre.0.view(), x@), x@ != 0real, RateOfChange::step(pre, &x, post, &out)
	ensures out@ == 0real, all_eq(post.0.view(), x@)
{
	let v = post.0.view();
	assert forall|i: int| 0 <= i < v.len() implies (#[trigger] v[i])@ == x@ by { if i < v.len() - 1 { assert(v[i] == pre.0.view()[i + 1]); } }
	assert(pre.0.view()[0]@ == x@);
	assert(0real / x@ == 0real) by(nonlinear_arith) requires x@ != 0real;
}
impl<M: MovingAverageConstructor> CoppockCurveInstance<M> {
	pub open spec fn const_state(&self, s: real) -> bool {
		&&& self.inv() && s != 0real && all_eq(self.roc1.0.view(), s) && all_eq(self.roc2.0.view(), s)
		&&& self.ma1.convex() && self.ma2.convex() && self.ma1.within(0real, 0real) && self.ma2.within(0real, 0real)
		&&& reversal_const_state(&self.pivot, 0real) && self.cross_over1.up.last_delta@ == 0real && self.cross_over2.up.last_delta@ == 0real
	}
}
pub proof fn coppock_const_step<M: MovingAverageConstructor>(pre: &CoppockCurveInstance<M>, src: ValueType, post: &CoppockCurveInstance<M>, v1: ValueType, v2: ValueType, s1: Action, s2: Action, s3: Action, r1: ValueType, r2: ValueType, sum: ValueType, zero: ValueType)
	requires pre.const_state(src@), post.inv(), coppock_step(pre, src, post, v1, v2, s1, s2, s3, r1, r2, sum, zero)
	ensures v1@ == 0real, v2@ == 0real, s1 is None, sv(s2) == 0, s3 is None, post.const_state(src@)
{
	lemma_roc_const(&pre.roc1, src, &post.roc1, r1);
	lemma_roc_const(&pre.roc2, src, &post.roc2, r2);
	<M::Instance as MovingAverage>::lemma_within_step(&pre.ma1, &sum, &post.ma1, &v1, 0real, 0real);
	<M::Instance as MovingAverage>::lemma_within_step(&pre.ma2, &v1, &post.ma2, &v2, 0real, 0real);
	reversal_const_step(&pre.pivot, v1, &post.pivot, s2);
}
impl<M: MovingAverageConstructor> AwesomeOscillatorInstance<M> {
	pub open spec fn const_state(&self, s: real) -> bool {
		&&& self.inv() && self.ma1.convex() && self.ma2.convex() && self.ma1.within(s, s) && self.ma2.within(s, s)
		&&& reversal_const_state(&self.reverse, 0real) && self.cross_over.up.last_delta@ == 0real && self.low_peaks == 0 && self.high_peaks == 0
	}
}
pub proof fn awesome_const_step<M: MovingAverageConstructor>(pre: &AwesomeOscillatorInstance<M>, src: ValueType, post: &AwesomeOscillatorInstance<M>, value: ValueType, s1: Action, s2: Action, m1: ValueType, m2: ValueType, piv: Action, zero: ValueType)
	requires pre.const_state(src@), post.inv(), awesome_step(pre, src, post, value, s1, s2, m1, m2, piv, zero)
	ensures value@ == 0real, s1 is None, s2 is None, post.const_state(src@)
{
	<M::Instance as MovingAverage>::lemma_within_step(&pre.ma2, &src, &post.ma2, &m2, src@, src@);
	<M::Instance as MovingAverage>::lemma_within_step(&pre.ma1, &src, &post.ma1, &m1, src@, src@);
	reversal_const_step(&pre.reverse, value, &post.reverse, piv);
}
} // verus!
fn main() {}
