//@unit ind_trend
//@include head.rs
//@import ohlcv.rs.tpl
//@import indicator_base.rs.tpl
//@include indicator_traits.rs
//@import wma.rs.tpl
//@import reversal.rs.tpl

// ================================================================== TrendStrengthIndex
//@extract src/indicators/trend_strength_index.rs struct:TrendStrengthIndex
//@end
//@extract src/indicators/trend_strength_index.rs struct:TrendStrengthIndexInstance
//@end
impl TrendStrengthIndex {
	pub open spec fn valid(&self) -> bool {
		self.period > 1 && self.period < PeriodType::MAX && self.zone@ >= 0real && self.zone@ < 1real && self.reverse_offset > 0 && self.reverse_offset < self.period
	}
//@extract src/indicators/trend_strength_index.rs impl[IndicatorConfig for TrendStrengthIndex]::validate pub
	ensures r == self.valid(),
//@end
//@extract src/indicators/trend_strength_index.rs impl[IndicatorConfig for TrendStrengthIndex]::size pub
	ensures r == (1u8, 2u8),
//@end
//@extract src/indicators/trend_strength_index.rs impl[IndicatorConfig for TrendStrengthIndex]::init pub
//@sig pub fn init<T: OHLCV>(self, candle: &T) -> (r: Result<TrendStrengthIndexInstance, Error>)
	// the sums of 1..period and of their squares are computed in usize: periods above 2^20 exist only under period_type_u64
	requires (self.period as int) <= 0xf_ffff
	ensures
		!self.valid() ==> r is Err,
		r is Ok ==> r->Ok_0.inv() && r->Ok_0.cfg == self && r->Ok_0.reverse.high.index == 0 && r->Ok_0.reverse.low.index == 0,
		// the constants of the regression over x = 1..period: sx = Σx, k = Σx² - (period + 1) * sx / 2 = Σx² - (Σx)² / period
		r is Ok ==> r->Ok_0.sx@ == (tri(self.period as int) as real)
			&& r->Ok_0.k@ == (tri(self.period as int) * (2 * self.period + 1)) as real / 3real - ((self.period + 1) * tri(self.period as int)) as real * 0.5real,
		r is Ok ==> r->Ok_0.inverted_period@ * (self.period as real) == 1real,
//@replace Ok(Self::Instance { ==> Ok(TrendStrengthIndexInstance {
//@replace ReversalSignal::new( ==> ReversalSignal::new3(
//@hint before let sx =
	proof {
		let p = period as int;
		assert((p + 1) * p <= 0x1_0000_0000_0000) by(nonlinear_arith) requires 0 <= p <= 0xf_ffff;
	}
//@hint before let sx2
	proof {
		let p = period as int;
		lemma_tri_closed(p);
		assert((p + 1) * p <= 0x1_0000_0000_0000 && 2 * p + 1 <= 0x20_0001) by(nonlinear_arith) requires 0 <= p <= 0xf_ffff;
		assert(sx as int == tri(p));
		assert(sx * (2 * p + 1) <= 0xffff_ffff_ffff_ffff && (p + 1) * sx <= 0xffff_ffff_ffff_ffff) by(nonlinear_arith) requires 0 <= p <= 0xf_ffff, sx as int * 2 <= (p + 1) * p;
	}
//@hint before Ok(Self::Instance
	proof {
		let n = cfg.period as real;
		assert(rdiv(1real, n) * n == 1real) by(nonlinear_arith) requires n >= 1real, rdiv(1real, n) == 1real / n;
	}
//@hint result
	proof {
		if r is Ok {
			let v = r->Ok_0.window.view();
			let z = v[0];
			let n = self.period as real;
			assert(v =~= Seq::new(self.period as nat, |i: int| z));
			lemma_sum_all_eq(v, z@);
			lemma_fsum_konst(self.period as nat, z, sq_fn());
			assert(z@ * n == n * z@ && (z@ * z@) * n == n * (z@ * z@)) by(nonlinear_arith);
			assert(sq_fn()(z) == z@ * z@);
		}
	}
//@end
}
pub proof fn lemma_tri_closed(n: int)
	requires n >= 0
	ensures 2 * tri(n) == (n + 1) * n
	decreases n
{
	if n > 0 {
		lemma_tri_closed(n - 1);
		assert(2 * (tri(n - 1) + n) == (n + 1) * n) by(nonlinear_arith) requires 2 * tri(n - 1) == n * (n - 1);
	}
}
pub open spec fn trend_value(pre: &TrendStrengthIndexInstance, src: ValueType, post: &TrendStrengthIndexInstance, value: ValueType, w: ValueType) -> bool {
	let v = post.window.view();
	let sma = pre.inverted_period@ * sum(v);
	// as computed: the regression slope of the last `period` prices against 1..period, normalised to a correlation:
	// (WMA - SMA) * Σx / sqrt(k * (Σy² - SMA * Σy))
	&&& v == pre.window.view().drop_first().push(src)
	&&& WMA::step(&pre.wma, &src, &post.wma, &w)
	&&& value@ == rdiv((w@ - sma) * pre.sx@, rsqrt(pre.k@ * (sma * (-sum(v)) + fsum(v, sq_fn()))))
}
pub open spec fn trend_signals(pre: &TrendStrengthIndexInstance, post: &TrendStrengthIndexInstance, value: ValueType, s1: Action, s2: Action, lo: Action, hi: Action, nz: ValueType, piv: Action) -> bool {
	// documented signal 1: crossing the upper zone downwards: full sell; crossing the lower zone upwards: full buy
	&&& CrossUnder::step(&pre.cross_under, &(value, pre.cfg.zone), &post.cross_under, &lo)
	&&& nz@ == -pre.cfg.zone@ && CrossAbove::step(&pre.cross_above, &(value, nz), &post.cross_above, &hi)
	&&& sv(s1) == clamp255(sv(lo) - sv(hi))
	// signal 2 AS IMPLEMENTED (see the C06 known finding: the documented rule compares the main value with the zone and has the opposite sign):
	// a (1, 2) pivot of the main value, gated by the SOURCE PRICE reverse_offset steps back against the zone
	&&& ReversalSignal::step(&pre.reverse, &value, &post.reverse, &piv)
	&&& ({
		let gate = post.window.view()[post.window.cap() - 1 - pre.cfg.reverse_offset as int]@;
		s2 == Action::of_i8((if sv(piv) < 0 && gate >= pre.cfg.zone@ { 1int } else { 0int }) - (if sv(piv) > 0 && gate <= -pre.cfg.zone@ { 1int } else { 0int }))
	})
}
impl TrendStrengthIndexInstance {
	pub open spec fn inv(&self) -> bool {
		&&& self.cfg.valid() && self.window.wf() && self.window.cap() == self.cfg.period as int
		&&& self.sy@ == sum(self.window.view()) && self.sy2@ == fsum(self.window.view(), sq_fn())
		&&& self.wma.inv() && self.cross_under.inv() && self.cross_above.inv() && self.reverse.inv()
	}
	// KNOWN FINDING (C07/C14): the pivot detector's position counter saturates at PeriodType::MAX; the contract covers the calls before that
	pub open spec fn in_capacity(&self) -> bool { self.reverse.high.index < PeriodType::MAX && self.reverse.low.index < PeriodType::MAX }
//@extract src/indicators/trend_strength_index.rs impl[IndicatorInstance for TrendStrengthIndexInstance]::next pub into=action
	requires old(self).inv(), old(self).in_capacity()
	ensures final(self).inv(), final(self).cfg == old(self).cfg,
		r.length == (1u8, 2u8),
		exists|src: ValueType, w: ValueType| src@ == src_val(candle, old(self).cfg.source) && #[trigger] trend_value(old(self), src, final(self), r.vals()[0], w),
		exists|lo: Action, hi: Action, nz: ValueType, piv: Action| #[trigger] trend_signals(old(self), final(self), r.vals()[0], r.sigs()[0], r.sigs()[1], lo, hi, nz, piv),
//@replace let p = (self.wma.next(&src) - sma) * self.sx; ==> let w__ = self.wma.next(&src); let p = (w__ - sma) * self.sx;
//@replace let cross_signal = self.cross_under.next(&(value, self.cfg.zone)) - self.cross_above.next(&(value, -self.cfg.zone)); ==> let lo__ = self.cross_under.next(&(value, self.cfg.zone)); let nz__ = -self.cfg.zone; let hi__ = self.cross_above.next(&(value, nz__)); let cross_signal = lo__ - hi__;
//@replace let reverse = self.reverse.next(&value).analog(); ==> let piv__ = self.reverse.next(&value); let reverse = piv__.analog();
//@replaceall self.window[self.cfg.reverse_offset] ==> *self.window.index(self.cfg.reverse_offset)
//@hint before self.sy +=
	proof {
		lemma_sum_slide(old(self).window.view(), src);
		lemma_fsum_slide(old(self).window.view(), src, sq_fn());
		let (a, b) = (past_src@, src@);
		assert((-a) * a == -(a * a)) by(nonlinear_arith);
		assert(sq_fn()(past_src) == a * a && sq_fn()(src) == b * b);
	}
//@hint result
	proof {
		assert(trend_value(old(self), src, self, r.vals()[0], w__));
		assert(trend_signals(old(self), self, r.vals()[0], r.sigs()[0], r.sigs()[1], lo__, hi__, nz__, piv__));
	}
//@end
}
} // verus!
fn main() {}
