//@unit ind_tsi
//@include head.rs
//@import ohlcv.rs.tpl
//@import indicator_base.rs.tpl
//@include indicator_traits.rs
//@import ema.rs.tpl
//@import simple_window.rs.tpl

// TSI(short, long) freshly seeded with the value v: previous input v, all four smoothed series 0, alpha = 2 / (period + 1)
pub open spec fn tsi_seeded(short: PeriodType, long: PeriodType, v: real, s: &TSI) -> bool {
	&&& s.last_value@ == v
	&&& s.ema11.value@ == 0real && s.ema12.value@ == 0real && s.ema21.value@ == 0real && s.ema22.value@ == 0real
	&&& s.ema11.alpha@ * ((long as real) + 1real) == 2real && s.ema21.alpha@ * ((long as real) + 1real) == 2real
	&&& s.ema12.alpha@ * ((short as real) + 1real) == 2real && s.ema22.alpha@ * ((short as real) + 1real) == 2real
}
// ================================================================== TrueStrengthIndex
//@extract src/indicators/true_strength_index.rs struct:TrueStrengthIndex
//@end
//@extract src/indicators/true_strength_index.rs struct:TrueStrengthIndexInstance
//@end
impl TrueStrengthIndex {
	pub open spec fn valid(&self) -> bool {
		&&& self.period2 > 1 && self.period2 <= self.period1 && self.period1 < PeriodType::MAX
		&&& self.period3 > 1 && self.period3 < PeriodType::MAX
		&&& self.zone@ >= 0real && self.zone@ <= 1real
	}
//@extract src/indicators/true_strength_index.rs impl[IndicatorConfig for TrueStrengthIndex]::validate pub
	ensures r == self.valid(),
//@end
//@extract src/indicators/true_strength_index.rs impl[IndicatorConfig for TrueStrengthIndex]::size pub
	ensures r == (2u8, 3u8),
//@end
//@extract src/indicators/true_strength_index.rs impl[IndicatorConfig for TrueStrengthIndex]::init pub
//@sig pub fn init<T: OHLCV>(self, candle: &T) -> (r: Result<TrueStrengthIndexInstance, Error>)
	ensures
		!self.valid() ==> r is Err,
		self.valid() ==> r is Ok,
		r is Ok ==> r->Ok_0.inv() && r->Ok_0.cfg == self,
		// documented seeds: TSI(short = period2, long = period1) from the source price, the signal EMA(period3) from 0
		r is Ok ==> tsi_seeded(self.period2, self.period1, src_val(candle, self.source), &r->Ok_0.tsi),
		r is Ok ==> r->Ok_0.ema.value@ == 0real && r->Ok_0.ema.alpha@ * ((self.period3 as real) + 1real) == 2real,
		r is Ok ==> r->Ok_0.cross_under.last_delta@ == 0real && r->Ok_0.cross_above.last_delta@ == 0real
			&& r->Ok_0.cross_over1.up.last_delta@ == 0real && r->Ok_0.cross_over2.up.last_delta@ == 0real,
		// C08: the constant state for the candle's source price (tsi_ind_const_step)
		r is Ok ==> r->Ok_0.const_state(src_val(candle, self.source)),
//@replace Ok(Self::Instance { ==> Ok(TrueStrengthIndexInstance {
//@replace TSI::new( ==> TSI::new3(
//@end
}
pub open spec fn tsi_ind_step(pre: &TrueStrengthIndexInstance, src: ValueType, post: &TrueStrengthIndexInstance, tsi: ValueType, sig: ValueType, s1: Action, s2: Action, s3: Action, lo: Action, hi: Action, nz: ValueType, zero: ValueType) -> bool {
	// documented values: TSI of the source, and its EMA(period3) signal line
	&&& TSI::step(&pre.tsi, &src, &post.tsi, &tsi)
	&&& EMA::step(&pre.ema, &tsi, &post.ema, &sig)
	// signal 1: TSI crossing -zone downwards gives +, crossing +zone upwards gives -
	&&& nz@ == -pre.cfg.zone@ && CrossUnder::step(&pre.cross_under, &(tsi, nz), &post.cross_under, &lo)
	&&& CrossAbove::step(&pre.cross_above, &(tsi, pre.cfg.zone), &post.cross_above, &hi)
	&&& sv(s1) == clamp255(sv(lo) - sv(hi))
	// signal 2: TSI crossing zero; signal 3: TSI crossing its signal line
	&&& zero@ == 0real && Cross::step(&pre.cross_over1, &(tsi, zero), &post.cross_over1, &s2)
	&&& Cross::step(&pre.cross_over2, &(tsi, sig), &post.cross_over2, &s3)
}
impl TrueStrengthIndexInstance {
	pub open spec fn inv(&self) -> bool {
		self.tsi.inv() && self.ema.inv() && self.cross_under.inv() && self.cross_above.inv() && self.cross_over1.inv() && self.cross_over2.inv()
	}
//@extract src/indicators/true_strength_index.rs impl[IndicatorInstance for TrueStrengthIndexInstance]::next pub
	requires old(self).inv()
	ensures final(self).inv(), final(self).cfg == old(self).cfg,
		r.length == (2u8, 3u8),
		exists|src: ValueType, lo: Action, hi: Action, nz: ValueType, zero: ValueType| src@ == src_val(candle, old(self).cfg.source)
			&& #[trigger] tsi_ind_step(old(self), src, final(self), r.vals()[0], r.vals()[1], r.sigs()[0], r.sigs()[1], r.sigs()[2], lo, hi, nz, zero),
		// C12: documented range of the main value
		-1real <= r.vals()[0]@ <= 1real,
//@replace let s1 = self.cross_under.next(&(tsi, -self.cfg.zone)) - self.cross_above.next(&(tsi, self.cfg.zone)); ==> let nz__ = -self.cfg.zone; let lo__ = self.cross_under.next(&(tsi, nz__)); let hi__ = self.cross_above.next(&(tsi, self.cfg.zone)); let s1 = lo__ - hi__;
//@hint result
	proof { assert(tsi_ind_step(old(self), src, self, r.vals()[0], r.vals()[1], r.sigs()[0], r.sigs()[1], r.sigs()[2], lo__, hi__, nz__, mk(0real))); }
//@end
}


// ================================================================== SMIErgodicIndicator
//@extract src/indicators/smi_ergodic_indicator.rs struct:SMIErgodicIndicator
//@end
//@extract src/indicators/smi_ergodic_indicator.rs struct:SMIErgodicIndicatorInstance
//@end
impl<M: MovingAverageConstructor> SMIErgodicIndicator<M> {
	pub open spec fn valid(&self) -> bool {
		&&& self.period2 > 1 && self.period2 <= self.period1 && self.period1 < PeriodType::MAX
		&&& self.signal.period_s() > 1 && self.signal.period_s() < PeriodType::MAX
		&&& self.zone@ >= 0real && self.zone@ <= 1real
	}
//@extract src/indicators/smi_ergodic_indicator.rs impl[IndicatorConfig for SMIErgodicIndicator<M>]::validate pub
	ensures r == self.valid(),
//@end
//@extract src/indicators/smi_ergodic_indicator.rs impl[IndicatorConfig for SMIErgodicIndicator<M>]::size pub
	ensures r == (3u8, 1u8),
//@end
//@extract src/indicators/smi_ergodic_indicator.rs impl[IndicatorConfig for SMIErgodicIndicator<M>]::init pub
//@sig pub fn init<T: OHLCV>(self, candle: &T) -> (r: Result<SMIErgodicIndicatorInstance<M>, Error>)
	ensures
		!self.valid() ==> r is Err,
		r is Ok ==> r->Ok_0.inv() && r->Ok_0.cfg == self,
		// documented seeds: TSI(short = period2, long = period1) from the source price, the signal average from 0
		r is Ok ==> tsi_seeded(self.period2, self.period1, src_val(candle, self.source), &r->Ok_0.tsi) && self.signal.seeded(0real, &r->Ok_0.ma),
		r is Ok ==> r->Ok_0.cross.up.last_delta@ == 0real && r->Ok_0.cross.down.last_delta@ == 0real,
		// C08: for an averaging kind that cannot overshoot, the constant state for the candle's source price (smi_const_step)
		r is Ok && self.signal.convex_kind() ==> r->Ok_0.const_state(src_val(candle, self.source)),
//@replace Ok(Self::Instance { ==> Ok(SMIErgodicIndicatorInstance {
//@replace TSI::new( ==> TSI::new3(
//@end
}
pub open spec fn smi_step<M: MovingAverageConstructor>(pre: &SMIErgodicIndicatorInstance<M>, src: ValueType, post: &SMIErgodicIndicatorInstance<M>, tsi: ValueType, sig: ValueType, osc: real, s1: Action, c: Action) -> bool {
	// documented values: TSI, its signal line, and their difference
	&&& TSI::step(&pre.tsi, &src, &post.tsi, &tsi)
	&&& <M::Instance as Method>::step(&pre.ma, &tsi, &post.ma, &sig)
	&&& osc == tsi@ - sig@
	// signal: TSI crosses its signal line upwards below -zone (+) / downwards above +zone (-)
	&&& Cross::step(&pre.cross, &(tsi, sig), &post.cross, &c)
	&&& s1 == Action::of_i8((if sv(c) > 0 && sig@ < -pre.cfg.zone@ { 1int } else { 0int }) - (if sv(c) < 0 && sig@ > pre.cfg.zone@ { 1int } else { 0int }))
}
impl<M: MovingAverageConstructor> SMIErgodicIndicatorInstance<M> {
	pub open spec fn inv(&self) -> bool { self.tsi.inv() && self.ma.inv() && self.cross.inv() }
//@extract src/indicators/smi_ergodic_indicator.rs impl[IndicatorInstance for SMIErgodicIndicatorInstance<M>]::next pub into=action
	requires old(self).inv()
	ensures final(self).inv(), final(self).cfg == old(self).cfg,
		r.length == (3u8, 1u8),
		exists|src: ValueType, c: Action| src@ == src_val(candle, old(self).cfg.source)
			&& #[trigger] smi_step(old(self), src, final(self), r.vals()[0], r.vals()[1], r.vals()[2]@, r.sigs()[0], c),
		// C12: documented range of the main value
		-1real <= r.vals()[0]@ <= 1real,
//@replace let cross = self.cross.next(&(tsi, sig)).analog(); ==> let c__ = self.cross.next(&(tsi, sig)); let cross = c__.analog();
//@hint before let sig
	proof { self.ma.input_always_ok(&tsi); }
//@hint result
	proof { assert(smi_step(old(self), src, self, r.vals()[0], r.vals()[1], r.vals()[2]@, r.sigs()[0], c__)); }
//@end
}

// ================================================================== MomentumIndex
//@extract src/indicators/momentum_index.rs struct:MomentumIndex
//@end
//@extract src/indicators/momentum_index.rs struct:MomentumIndexInstance
//@end
impl MomentumIndex {
	pub open spec fn valid(&self) -> bool { self.period2 > 0 && self.period1 > self.period2 }
//@extract src/indicators/momentum_index.rs impl[IndicatorConfig for MomentumIndex]::validate pub
	ensures r == self.valid(),
//@end
//@extract src/indicators/momentum_index.rs impl[IndicatorConfig for MomentumIndex]::size pub
	ensures r == (2u8, 1u8),
//@end
//@extract src/indicators/momentum_index.rs impl[IndicatorConfig for MomentumIndex]::init pub
//@sig pub fn init<T: OHLCV>(self, candle: &T) -> (r: Result<MomentumIndexInstance, Error>)
	ensures
		!self.valid() ==> r is Err,
		r is Ok ==> r->Ok_0.inv() && r->Ok_0.cfg == self,
		r is Ok ==> r->Ok_0.momentum1.window.view().len() == self.period1 && r->Ok_0.momentum2.window.view().len() == self.period2,
		// C08: the constant state for the candle's source price (momentum_index_const_step)
		r is Ok ==> r->Ok_0.const_state(src_val(candle, self.source)),
//@replace Ok(Self::Instance { ==> Ok(MomentumIndexInstance {
//@end
}
pub open spec fn momentum_index_step(pre: &MomentumIndexInstance, src: ValueType, post: &MomentumIndexInstance, v: ValueType, s: ValueType, sig: Action) -> bool {
	// documented: slow momentum (period1), fast momentum (period2); the signal fires when both have the same sign
	&&& Momentum::step(&pre.momentum1, &src, &post.momentum1, &v)
	&&& Momentum::step(&pre.momentum2, &src, &post.momentum2, &s)
	&&& sig == Action::of_i8((if v@ > 0real && s@ > 0real { 1int } else { 0int }) - (if v@ < 0real && s@ < 0real { 1int } else { 0int }))
}
impl MomentumIndexInstance {
	pub open spec fn inv(&self) -> bool { self.momentum1.inv() && self.momentum2.inv() }
//@extract src/indicators/momentum_index.rs impl[IndicatorInstance for MomentumIndexInstance]::next pub into=action
	requires old(self).inv()
	ensures final(self).inv(), final(self).cfg == old(self).cfg,
		r.length == (2u8, 1u8),
		exists|src: ValueType| src@ == src_val(candle, old(self).cfg.source)
			&& #[trigger] momentum_index_step(old(self), src, final(self), r.vals()[0], r.vals()[1], r.sigs()[0]),
//@hint result
	proof { assert(momentum_index_step(old(self), *src, self, r.vals()[0], r.vals()[1], r.sigs()[0])); }
//@end
}

// ---- C08 at indicator level: fed the candle it was initialised with, MomentumIndex returns 0, 0 and no signal, forever
pub open spec fn all_eq(v: Seq<R>, s: real) -> bool { forall|i: int| 0 <= i < v.len() ==> (#[trigger] v[i])@ == s }
impl MomentumIndexInstance {
	pub open spec fn const_state(&self, s: real) -> bool { self.inv() && all_eq(self.momentum1.window.view(), s) && all_eq(self.momentum2.window.view(), s) }
}
pub proof fn momentum_index_const_step(pre: &MomentumIndexInstance, src: ValueType, post: &MomentumIndexInstance, v: ValueType, s: ValueType, sig: Action)
	requires pre.const_state(src@), post.inv(), momentum_index_step(pre, src, post, v, s, sig)
	ensures v@ == 0real, s@ == 0real, sig is None, post.const_state(src@)
{
	let (a, b) = (post.momentum1.window.view(), post.momentum2.window.view());
	assert forall|i: int| 0 <= i < a.len() implies (#[trigger] a[i])@ == src@ by { if i < a.len() - 1 { assert(a[i] == pre.momentum1.window.view()[i + 1]); } }
	assert forall|i: int| 0 <= i < b.len() implies (#[trigger] b[i])@ == src@ by { if i < b.len() - 1 { assert(b[i] == pre.momentum2.window.view()[i + 1]); } }
	assert(pre.momentum1.window.view()[0]@ == src@ && pre.momentum2.window.view()[0]@ == src@);
}

// ---- C08 at indicator level: TrueStrengthIndex and SMIErgodicIndicator on a repeated candle: TSI 0, signal line 0, no signals
pub open spec fn tsi_const_state(t: &TSI, s: real) -> bool {
	t.inv() && t.last_value@ == s && t.ema11.value@ == 0real && t.ema12.value@ == 0real && t.ema21.value@ == 0real && t.ema22.value@ == 0real
}
pub proof fn lemma_tsi_const(pre: &TSI, x: ValueType, post: &TSI, out: ValueType)
	requires tsi_const_state(pre, x@), post.inv(), TSI::step(pre, &x, post, &out)
	ensures out@ == 0real, tsi_const_state(post, x@)
{
	let (a, b) = (pre.ema11.alpha@, pre.ema12.alpha@);
	let (c, d) = (pre.ema21.alpha@, pre.ema22.alpha@);
	assert(a * (0real - 0real) == 0real && b * (0real - 0real) == 0real && c * (0real - 0real) == 0real && d * (0real - 0real) == 0real) by(nonlinear_arith);
}
impl TrueStrengthIndexInstance {
	// the detectors' previous differences are 0 right after init and tsi -+ zone afterwards; either way nothing fires while TSI stays 0
	pub open spec fn const_state(&self, s: real) -> bool {
		&&& self.inv() && tsi_const_state(&self.tsi, s) && self.ema.value@ == 0real
		&&& (self.cross_under.last_delta@ == 0real || self.cross_under.last_delta@ == self.cfg.zone@)
		&&& (self.cross_above.last_delta@ == 0real || self.cross_above.last_delta@ == -self.cfg.zone@)
		&&& self.cross_over1.up.last_delta@ == 0real && self.cross_over2.up.last_delta@ == 0real && self.cfg.zone@ >= 0real
	}
}
pub proof fn tsi_ind_const_step(pre: &TrueStrengthIndexInstance, src: ValueType, post: &TrueStrengthIndexInstance, tsi: ValueType, sig: ValueType, s1: Action, s2: Action, s3: Action, lo: Action, hi: Action, nz: ValueType, zero: ValueType)
	requires pre.const_state(src@), post.inv(), post.cfg == pre.cfg, tsi_ind_step(pre, src, post, tsi, sig, s1, s2, s3, lo, hi, nz, zero)
	ensures tsi@ == 0real, sig@ == 0real, sv(s1) == 0, s2 is None, s3 is None, post.const_state(src@)
{
	lemma_tsi_const(&pre.tsi, src, &post.tsi, tsi);
	assert(pre.ema.alpha@ * (0real - 0real) == 0real) by(nonlinear_arith);
}

impl<M: MovingAverageConstructor> SMIErgodicIndicatorInstance<M> {
	pub open spec fn const_state(&self, s: real) -> bool {
		self.inv() && tsi_const_state(&self.tsi, s) && self.ma.convex() && self.ma.within(0real, 0real) && self.cross.up.last_delta@ == 0real
	}
}
pub proof fn smi_const_step<M: MovingAverageConstructor>(pre: &SMIErgodicIndicatorInstance<M>, src: ValueType, post: &SMIErgodicIndicatorInstance<M>, tsi: ValueType, sig: ValueType, osc: real, s1: Action, c: Action)
	requires pre.const_state(src@), post.inv(), post.cfg == pre.cfg, smi_step(pre, src, post, tsi, sig, osc, s1, c)
	ensures tsi@ == 0real, sig@ == 0real, osc == 0real, s1 is None, post.const_state(src@)
{
	lemma_tsi_const(&pre.tsi, src, &post.tsi, tsi);
	<M::Instance as MovingAverage>::lemma_within_step(&pre.ma, &tsi, &post.ma, &sig, 0real, 0real);
}
} // verus!
fn main() {}
