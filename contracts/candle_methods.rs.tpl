//@unit candle_methods
//@include head.rs
//@import ohlcv.rs.tpl

//@export-begin
// ------------------------------------------------------------------ TR (true range)
//@extract src/methods/tr.rs struct:TR keepderive
//@end
impl Method for TR {
	type Params = ();
	type Input = DynOHLCV;
	type Output = ValueType;
	open spec fn inv(&self) -> bool { true }
	open spec fn rejects(parameters: ()) -> bool { false }
	open spec fn new_req(parameters: (), initial_value: &DynOHLCV) -> bool { true }
	open spec fn fresh(parameters: (), initial_value: &DynOHLCV, s: &Self) -> bool { s.prev_close == initial_value.close_s() }
	open spec fn input_ok(&self, x: &DynOHLCV) -> bool { true }
	// documented: max(high, prev close) - min(low, prev close)
	open spec fn step(pre: &Self, x: &DynOHLCV, post: &Self, out: &ValueType) -> bool {
		&&& out@ == rmax(x.high_s()@, pre.prev_close@) - rmin(x.low_s()@, pre.prev_close@)
		&&& post.prev_close == x.close_s()
		&&& (x.high_s()@ >= x.low_s()@ ==> out@ >= 0real)
	}
//@extract src/methods/tr.rs impl[Method for TR]::new
//@end
//@extract src/methods/tr.rs impl[Method for TR]::next
//@end
}

// ------------------------------------------------------------------ HeikinAshi
//@extract src/methods/heikin_ashi.rs struct:HeikinAshi keepderive
//@end
impl Method for HeikinAshi {
	type Params = ();
	type Input = DynOHLCV;
	type Output = Candle;
	open spec fn inv(&self) -> bool { true }
	open spec fn rejects(parameters: ()) -> bool { false }
	open spec fn new_req(parameters: (), initial_value: &DynOHLCV) -> bool { true }
	open spec fn fresh(parameters: (), initial_value: &DynOHLCV, s: &Self) -> bool {
		s.next_open@ == (initial_value.high_s()@ + initial_value.low_s()@ + initial_value.close_s()@ + initial_value.open_s()@) / 4real
	}
	open spec fn input_ok(&self, x: &DynOHLCV) -> bool { true }
	// documented recursion: close = ohlc4(input); open = (previous open + previous close) / 2; high/low extended by the open
	open spec fn step(pre: &Self, x: &DynOHLCV, post: &Self, out: &Candle) -> bool {
		let c = (x.high_s()@ + x.low_s()@ + x.close_s()@ + x.open_s()@) / 4real;
		&&& out.open == pre.next_open
		&&& out.close@ == c
		&&& out.high@ == rmax(x.high_s()@, pre.next_open@)
		&&& out.low@ == rmin(x.low_s()@, pre.next_open@)
		&&& out.volume == x.volume_s()
		&&& post.next_open@ == (pre.next_open@ + c) / 2real
		// C17: a valid input yields a valid output (given a positive running open, which the recursion preserves)
		&&& (x.low_s()@ <= x.open_s()@ <= x.high_s()@ && x.low_s()@ <= x.close_s()@ <= x.high_s()@ ==>
				out.low@ <= out.open@ <= out.high@ && out.low@ <= out.close@ <= out.high@)
		&&& (x.low_s()@ > 0real && pre.next_open@ > 0real && x.low_s()@ <= x.open_s()@ && x.low_s()@ <= x.close_s()@ && x.low_s()@ <= x.high_s()@ ==> out.low@ > 0real && post.next_open@ > 0real)
	}
//@extract src/methods/heikin_ashi.rs impl[Method for HeikinAshi]::new
//@end
//@extract src/methods/heikin_ashi.rs impl[Method for HeikinAshi]::next
//@end
}

// ------------------------------------------------------------------ ADI (windowed: C02; length 0, cumulative: C03)
//@extract src/methods/adi.rs struct:ADI
//@end
pub open spec fn clv_spec<T: OHLCV>(c: &T) -> real {
	if c.high_s()@ == c.low_s()@ { 0real } else { ((c.close_s()@ - c.low_s()@) - (c.high_s()@ - c.close_s()@)) / (c.high_s()@ - c.low_s()@) }
}
impl ADI {
//@extract src/methods/adi.rs impl[Peekable<<Self as Method>::Output> for ADI]::peek pub
//@sig pub fn peek(&self) -> (r: ValueType)
	ensures r == self.cmf_sum,
//@end
}
impl Method for ADI {
	type Params = PeriodType;
	type Input = DynOHLCV;
	type Output = ValueType;
	open spec fn inv(&self) -> bool {
		&&& self.window.wf()
		&&& (self.window.cap() > 0 ==> self.cmf_sum@ == sum(self.window.view()))
	}
	open spec fn rejects(parameters: PeriodType) -> bool { false }
	open spec fn new_req(parameters: PeriodType, initial_value: &DynOHLCV) -> bool { true }
	open spec fn fresh(parameters: PeriodType, initial_value: &DynOHLCV, s: &Self) -> bool {
		&&& s.window.cap() == parameters as int
		&&& (forall|i: int| 0 <= i < parameters as int ==> (#[trigger] s.window.view()[i])@ == clv_spec(initial_value) * initial_value.volume_s()@)
		&&& (parameters == 0 ==> s.cmf_sum@ == 0real)
	}
	open spec fn input_ok(&self, x: &DynOHLCV) -> bool { true }
	// documented: Σ CLV*volume over the last `length` candles; with length 0 the running sum over the whole stream
	open spec fn step(pre: &Self, x: &DynOHLCV, post: &Self, out: &ValueType) -> bool {
		&&& post.window.cap() == pre.window.cap()
		&&& (pre.window.cap() > 0 ==> out@ == sum(post.window.view())
				&& post.window.view().drop_last() =~= pre.window.view().drop_first()
				&& post.window.view().last()@ == clv_spec(x) * x.volume_s()@)
		&&& (pre.window.cap() == 0 ==> out@ == pre.cmf_sum@ + clv_spec(x) * x.volume_s()@)
		&&& out == post.cmf_sum
	}
//@extract src/methods/adi.rs impl[Method for ADI]::new
//@hint before Ok(Self { cmf_sum, window })
	proof {
		if length > 0 {
			let x = clv_spec(candle) * candle.volume_s()@;
			lemma_sum_all_eq(window.view(), x);
			assert(x * (length as real) == (length as real) * x) by(nonlinear_arith);
		}
	}
//@end
//@extract src/methods/adi.rs impl[Method for ADI]::next
//@hint before self.cmf_sum += clvv
	proof { if self.window.cap() > 0 { lemma_sum_slide(self.window.view(), clvv); } }
//@end
}
//@export-end
} // verus!
fn main() {}
