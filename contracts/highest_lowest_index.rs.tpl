//@unit highest_lowest_index
//@include head.rs
//@include select_lib.rs

//@export-begin
// age `a` (0 = newest) of the newest maximal element: it is maximal and everything newer is strictly smaller
pub open spec fn newest_max_at(s: Seq<R>, a: int, m: R) -> bool {
	&&& 0 <= a < s.len() && s[s.len() - 1 - a] == m
	&&& forall|j: int| 0 <= j < s.len() ==> (#[trigger] s[j])@ <= m@
	&&& forall|j: int| s.len() - 1 - a < j < s.len() ==> (#[trigger] s[j])@ < m@
}
pub open spec fn newest_min_at(s: Seq<R>, a: int, m: R) -> bool {
	&&& 0 <= a < s.len() && s[s.len() - 1 - a] == m
	&&& forall|j: int| 0 <= j < s.len() ==> (#[trigger] s[j])@ >= m@
	&&& forall|j: int| s.len() - 1 - a < j < s.len() ==> (#[trigger] s[j])@ > m@
}

// ------------------------------------------------------------------ HighestIndex
//@extract src/methods/highest_lowest_index.rs struct:HighestIndex
//@end
impl HighestIndex {
//@extract src/methods/highest_lowest_index.rs impl[Peekable<<Self as Method>::Output> for HighestIndex]::peek pub
//@sig pub fn peek(&self) -> (r: PeriodType)
	ensures r == self.index,
//@end
}
impl Method for HighestIndex {
	type Params = PeriodType;
	type Input = ValueType;
	type Output = PeriodType;
	open spec fn inv(&self) -> bool {
		self.window.wf() && self.window.cap() >= 1 && newest_max_at(self.window.view(), self.index as int, self.value)
	}
	open spec fn rejects(parameters: PeriodType) -> bool { parameters == 0 }
	open spec fn new_req(parameters: PeriodType, initial_value: &ValueType) -> bool { true }
	open spec fn fresh(parameters: PeriodType, initial_value: &ValueType, s: &Self) -> bool {
		s.window.view() =~= konst(parameters as nat, *initial_value) && s.value == *initial_value && s.index == 0
	}
	open spec fn input_ok(&self, x: &ValueType) -> bool { true }
	// exact selection: the age (0 = newest) of the newest maximal element of the last `length` inputs
	open spec fn step(pre: &Self, x: &ValueType, post: &Self, out: &PeriodType) -> bool {
		&&& post.window.view() == pre.window.view().drop_first().push(*x)
		&&& newest_max_at(post.window.view(), *out as int, post.value)
		&&& *out == post.index
	}
//@extract src/methods/highest_lowest_index.rs impl[Method for HighestIndex]::new
	ensures (r is Ok) == (length != 0 && length != PeriodType::MAX),
//@hint result
	proof { if r is Ok { let s = r->Ok_0.window.view(); lemma_cloned_konst(s, length as nat, value); assert(s[s.len() - 1] == value); } }
//@end
//@extract src/methods/highest_lowest_index.rs impl[Method for HighestIndex]::next
//@hint before self.index += 1
	let ghost vw = self.window.view();
	let ghost n = vw.len() as int;
	proof {
		assert(vw[n - 1] == value);
		let ov = old(self).window.view();
		let p = n - 1 - old(self).index as int;
		// the cached maximum sat at view position p; after the slide it sits at p - 1 (if it is still inside)
		if p >= 1 { assert(vw[p - 1] == old(self).value); }
		assert forall|j: int| 0 <= j < n - 1 implies (#[trigger] vw[j])@ <= old(self).value@ by { assert(vw[j] == ov[j + 1]); }
		assert forall|j: int| p - 1 < j < n - 1 implies (#[trigger] vw[j])@ < old(self).value@ by { assert(vw[j] == ov[j + 1]); }
	}
//@hint chain 0
		invariant_except_break
			iter_at(it0__, &self.window, vw), n == vw.len(), n > 0, vw[n - 1] == value,
			idx0__ as int == n - it0__.remaining().len(),
			0 <= acc0__.0 < n || (acc0__.0 == 0),
			acc0__.0 as int <= idx0__ as int,
			vw[n - 1 - acc0__.0 as int] == acc0__.1,
			(forall|j: int| it0__.remaining().len() <= j < n ==> (#[trigger] vw[j])@ <= acc0__.1@),
			(forall|j: int| n - 1 - (acc0__.0 as int) < j < n ==> (#[trigger] vw[j])@ < acc0__.1@),
		ensures
			newest_max_at(vw, acc0__.0 as int, acc0__.1),
		decreases it0__.remaining().len()
//@hint chain-start 0
		let ghost pre_it = it0__;
//@hint chain-item 0
		proof { lemma_iter_next(pre_it, it0__, &self.window, vw); }
//@end
}
// ------------------------------------------------------------------ LowestIndex
//@extract src/methods/highest_lowest_index.rs struct:LowestIndex
//@end
impl LowestIndex {
//@extract src/methods/highest_lowest_index.rs impl[Peekable<<Self as Method>::Output> for LowestIndex]::peek pub
//@sig pub fn peek(&self) -> (r: PeriodType)
	ensures r == self.index,
//@end
}
impl Method for LowestIndex {
	type Params = PeriodType;
	type Input = ValueType;
	type Output = PeriodType;
	open spec fn inv(&self) -> bool {
		self.window.wf() && self.window.cap() >= 1 && newest_min_at(self.window.view(), self.index as int, self.value)
	}
	open spec fn rejects(parameters: PeriodType) -> bool { parameters == 0 }
	open spec fn new_req(parameters: PeriodType, initial_value: &ValueType) -> bool { true }
	open spec fn fresh(parameters: PeriodType, initial_value: &ValueType, s: &Self) -> bool {
		s.window.view() =~= konst(parameters as nat, *initial_value) && s.value == *initial_value && s.index == 0
	}
	open spec fn input_ok(&self, x: &ValueType) -> bool { true }
	// exact selection: the age (0 = newest) of the newest minimal element of the last `length` inputs
	open spec fn step(pre: &Self, x: &ValueType, post: &Self, out: &PeriodType) -> bool {
		&&& post.window.view() == pre.window.view().drop_first().push(*x)
		&&& newest_min_at(post.window.view(), *out as int, post.value)
		&&& *out == post.index
	}
//@extract src/methods/highest_lowest_index.rs impl[Method for LowestIndex]::new
	ensures (r is Ok) == (length != 0 && length != PeriodType::MAX),
//@hint result
	proof { if r is Ok { let s = r->Ok_0.window.view(); lemma_cloned_konst(s, length as nat, value); assert(s[s.len() - 1] == value); } }
//@end
//@extract src/methods/highest_lowest_index.rs impl[Method for LowestIndex]::next
//@hint before self.index += 1
	let ghost vw = self.window.view();
	let ghost n = vw.len() as int;
	proof {
		assert(vw[n - 1] == value);
		let ov = old(self).window.view();
		let p = n - 1 - old(self).index as int;
		// the cached minimum sat at view position p; after the slide it sits at p - 1 (if it is still inside)
		if p >= 1 { assert(vw[p - 1] == old(self).value); }
		assert forall|j: int| 0 <= j < n - 1 implies (#[trigger] vw[j])@ >= old(self).value@ by { assert(vw[j] == ov[j + 1]); }
		assert forall|j: int| p - 1 < j < n - 1 implies (#[trigger] vw[j])@ > old(self).value@ by { assert(vw[j] == ov[j + 1]); }
	}
//@hint chain 0
		invariant_except_break
			iter_at(it0__, &self.window, vw), n == vw.len(), n > 0, vw[n - 1] == value,
			idx0__ as int == n - it0__.remaining().len(),
			0 <= acc0__.0 < n || (acc0__.0 == 0),
			acc0__.0 as int <= idx0__ as int,
			vw[n - 1 - acc0__.0 as int] == acc0__.1,
			(forall|j: int| it0__.remaining().len() <= j < n ==> (#[trigger] vw[j])@ >= acc0__.1@),
			(forall|j: int| n - 1 - (acc0__.0 as int) < j < n ==> (#[trigger] vw[j])@ > acc0__.1@),
		ensures
			newest_min_at(vw, acc0__.0 as int, acc0__.1),
		decreases it0__.remaining().len()
//@hint chain-start 0
		let ghost pre_it = it0__;
//@hint chain-item 0
		proof { lemma_iter_next(pre_it, it0__, &self.window, vw); }
//@end
}

// C08: on a constant stream the newest element is always the newest extremum: the index is exactly 0
pub proof fn highest_index_const_step(pre: HighestIndex, v: R, post: HighestIndex, out: PeriodType)
	requires pre.inv(), pre.window.view() =~= konst(pre.window.view().len(), v), HighestIndex::step(&pre, &v, &post, &out)
	ensures post.window.view() =~= konst(pre.window.view().len(), v), out == 0
{
	let s = post.window.view();
	assert(s =~= konst(pre.window.view().len(), v));
	if out > 0 { assert(s[s.len() - 1]@ < post.value@); }
}
pub proof fn lowest_index_const_step(pre: LowestIndex, v: R, post: LowestIndex, out: PeriodType)
	requires pre.inv(), pre.window.view() =~= konst(pre.window.view().len(), v), LowestIndex::step(&pre, &v, &post, &out)
	ensures post.window.view() =~= konst(pre.window.view().len(), v), out == 0
{
	let s = post.window.view();
	assert(s =~= konst(pre.window.view().len(), v));
	if out > 0 { assert(s[s.len() - 1]@ > post.value@); }
}
//@export-end
} // verus!
fn main() {}
