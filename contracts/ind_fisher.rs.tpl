//@unit ind_fisher
//@include head.rs
//@import ohlcv.rs.tpl
//@import indicator_base.rs.tpl
//@include indicator_traits.rs
//@include select_lib.rs
//@import highest_lowest.rs.tpl

// ================================================================== FisherTransform
//@extract src/indicators/fisher_transform.rs const:BOUND rename=FISHER_BOUND
	ensures r@ == 0.999real,
//@end
//@extract src/indicators/fisher_transform.rs fn:bound_value pub
	ensures r@ == rmax(-0.999real, rmin(0.999real, value@)),
//@end
//@extract src/indicators/fisher_transform.rs struct:FisherTransform
//@end
//@extract src/indicators/fisher_transform.rs struct:FisherTransformInstance
//@end
impl<M: MovingAverageConstructor> FisherTransform<M> {
	pub open spec fn valid(&self) -> bool { self.period1 > 1 && self.signal.period_s() > 1 && self.zone@ > 0real }
//@extract src/indicators/fisher_transform.rs impl[IndicatorConfig for FisherTransform<M>]::validate pub
	ensures r == self.valid(),
//@end
//@extract src/indicators/fisher_transform.rs impl[IndicatorConfig for FisherTransform<M>]::size pub
	ensures r == (2u8, 2u8),
//@end
//@extract src/indicators/fisher_transform.rs impl[IndicatorConfig for FisherTransform<M>]::init pub
//@sig pub fn init<T: OHLCV>(self, candle: &T) -> (r: Result<FisherTransformInstance<M>, Error>)
	ensures
		!self.valid() ==> r is Err,
		r is Ok ==> r->Ok_0.inv() && r->Ok_0.cfg == self,
		r is Ok ==> self.signal.seeded(0real, &r->Ok_0.ma1) && r->Ok_0.prev_value@ == 0real && r->Ok_0.last_reverse == 0
			&& r->Ok_0.highest.window.view().len() == self.period1 && r->Ok_0.lowest.window.view().len() == self.period1,
//@replace Ok(Self::Instance { ==> Ok(FisherTransformInstance {
//@end
}
pub open spec fn fisher_values<M: MovingAverageConstructor>(pre: &FisherTransformInstance<M>, src: ValueType, post: &FisherTransformInstance<M>, main: ValueType, sigl: ValueType, hi: ValueType, lo: ValueType) -> bool {
	// documented (Investopedia): x = 2 * (price - lowest) / (highest - lowest) - 1 over period1, clamped to +-0.999;
	// fisher = atanh(x) + 0.5 * previous value (0 for a flat window); signal line = MA(fisher)
	&&& Highest::step(&pre.highest, &src, &post.highest, &hi) && Lowest::step(&pre.lowest, &src, &post.lowest, &lo)
	&&& (hi@ != lo@ ==> main@ == pre.prev_value@ * 0.5real + ratanh(rmax(-0.999real, rmin(0.999real, ((src@ - lo@) / (hi@ - lo@)) * 2real + -1real))))
	&&& (hi.bits() == lo.bits() ==> main@ == pre.prev_value@ * 0.5real + 0real)
	&&& post.prev_value == main
	&&& <M::Instance as Method>::step(&pre.ma1, &main, &post.ma1, &sigl)
}
impl<M: MovingAverageConstructor> FisherTransformInstance<M> {
	pub open spec fn inv(&self) -> bool {
		self.ma1.inv() && self.highest.inv() && self.lowest.inv() && self.cross.inv() && self.cross_ma.inv() && -1 <= self.last_reverse <= 1 && self.cfg.zone@ > 0real
	}
//@extract src/indicators/fisher_transform.rs impl[IndicatorInstance for FisherTransformInstance<M>]::next pub into=action
	requires old(self).inv()
	ensures final(self).inv(), final(self).cfg == old(self).cfg,
		r.length == (2u8, 2u8),
		exists|src: ValueType, hi: ValueType, lo: ValueType| src@ == src_val(candle, old(self).cfg.source)
			&& #[trigger] fisher_values(old(self), src, final(self), r.vals()[0], r.vals()[1], hi, lo),
//@hint start
	broadcast use bits_axiom;
//@hint before let signal_line
	proof { self.ma1.input_always_ok(&cumulative); }
//@hint before self.last_reverse =
	proof {
		let (b, l, v) = (is_reversed as int, self.last_reverse as int, reverse as int);
		assert((1 - b) * l + b * v == (if b == 1 { v } else { l })) by(nonlinear_arith) requires b == 0 || b == 1;
		assert((1 - b) * l == (if b == 1 { 0int } else { l }) && b * v == (if b == 1 { v } else { 0int })) by(nonlinear_arith) requires b == 0 || b == 1;
	}
//@hint result
	proof { assert(fisher_values(old(self), *src, self, r.vals()[0], r.vals()[1], highest, lowest)); }
//@end
}

// ---- C08 at indicator level (values; averaging kinds that cannot overshoot; non-zero source price): FisherTransform on a repeated candle: both lines stay 0
pub open spec fn all_eq(v: Seq<R>, s: real) -> bool { forall|i: int| 0 <= i < v.len() ==> (#[trigger] v[i])@ == s }
impl<M: MovingAverageConstructor> FisherTransformInstance<M> {
	pub open spec fn const_state(&self, s: real) -> bool {
		&&& self.inv() && s != 0real && all_eq(self.highest.window.view(), s) && all_eq(self.lowest.window.view(), s)
		&&& self.prev_value@ == 0real && self.ma1.convex() && self.ma1.within(0real, 0real)
	}
}
pub proof fn fisher_const_step<M: MovingAverageConstructor>(pre: &FisherTransformInstance<M>, src: ValueType, post: &FisherTransformInstance<M>, main: ValueType, sigl: ValueType, hi: ValueType, lo: ValueType)
	requires pre.const_state(src@), post.inv(), post.cfg == pre.cfg, fisher_values(pre, src, post, main, sigl, hi, lo)
	ensures main@ == 0real, sigl@ == 0real, post.const_state(src@)
{
	broadcast use bits_axiom;
	let (a, b) = (post.highest.window.view(), post.lowest.window.view());
	assert forall|i: int| 0 <= i < a.len() implies (#[trigger] a[i])@ == src@ by { if i < a.len() - 1 { assert(a[i] == pre.highest.window.view()[i + 1]); } }
	assert forall|i: int| 0 <= i < b.len() implies (#[trigger] b[i])@ == src@ by { if i < b.len() - 1 { assert(b[i] == pre.lowest.window.view()[i + 1]); } }
	assert(hi@ == src@ && lo@ == src@);
	assert(hi.bits() == lo.bits());
	<M::Instance as MovingAverage>::lemma_within_step(&pre.ma1, &main, &post.ma1, &sigl, 0real, 0real);
}
} // verus!
fn main() {}
