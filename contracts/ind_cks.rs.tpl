//@unit ind_cks
//@include head.rs
//@import ohlcv.rs.tpl
//@import indicator_base.rs.tpl
//@include indicator_traits.rs
//@include select_lib.rs
//@import highest_lowest.rs.tpl

// ---- helpers::signi
//@extract src/helpers/mod.rs fn:signi pub
	ensures r as int == (if value@ > 0real { 1int } else if value@ < 0real { -1int } else { 0int }),
//@end

// ================================================================== ChandeKrollStop
//@extract src/indicators/chande_kroll_stop.rs struct:ChandeKrollStop
//@end
//@extract src/indicators/chande_kroll_stop.rs struct:ChandeKrollStopInstance
//@end
impl<M: MovingAverageConstructor> ChandeKrollStop<M> {
	pub open spec fn valid(&self) -> bool { self.x@ >= 0real && self.ma.period_s() > 0 && self.q > 0 }
//@extract src/indicators/chande_kroll_stop.rs impl[IndicatorConfig for ChandeKrollStop<M>]::validate pub
	ensures r == self.valid(),
//@end
//@extract src/indicators/chande_kroll_stop.rs impl[IndicatorConfig for ChandeKrollStop<M>]::size pub
	ensures r == (3u8, 2u8),
//@end
//@extract src/indicators/chande_kroll_stop.rs impl[IndicatorConfig for ChandeKrollStop<M>]::init pub
//@sig pub fn init<T: OHLCV>(self, candle: &T) -> (r: Result<ChandeKrollStopInstance<M>, Error>)
	ensures
		!self.valid() ==> r is Err,
		r is Ok ==> r->Ok_0.inv() && r->Ok_0.cfg == self,
		// documented seeds: ATR from the first candle's range; extremes over p candles from its high / low; the stops from high - x*range and low + x*range
		r is Ok ==> r->Ok_0.prev_close == candle.close_s()
			&& r->Ok_0.prev_stop_short@ == self.x@ * (-(candle.high_s()@ - candle.low_s()@)) + candle.high_s()@
			&& r->Ok_0.prev_stop_long@ == self.x@ * (candle.high_s()@ - candle.low_s()@) + candle.low_s()@,
		r is Ok ==> r->Ok_0.highest1.window.view().len() == self.ma.period_s() && r->Ok_0.lowest1.window.view().len() == self.ma.period_s()
			&& r->Ok_0.highest2.window.view().len() == self.q && r->Ok_0.lowest2.window.view().len() == self.q,
		// C08: for an averaging kind that cannot overshoot and an ordered candle this is the constant state for that candle (cks_const_step)
		r is Ok && self.ma.convex_kind() && candle.low_s()@ <= candle.close_s()@ <= candle.high_s()@ ==> r->Ok_0.const_state(candle),
//@replace Ok(Self::Instance { ==> Ok(ChandeKrollStopInstance {
//@hint result
	proof {
		if r is Ok && self.ma.convex_kind() && candle.low_s()@ <= candle.close_s()@ <= candle.high_s()@ {
			let i = r->Ok_0;
			let d = candle.high_s()@ - candle.low_s()@;
			assert(self.x@ * (-d) == -(self.x@ * d)) by(nonlinear_arith);
			assert(i.ma.convex() && i.ma.within(d, d));
			assert(all_eq_v(i.highest2.window.view(), candle.high_s()@ - self.x@ * d));
			assert(all_eq_v(i.lowest2.window.view(), candle.low_s()@ + self.x@ * d));
			assert(i.cross_above.last_delta@ == (candle.low_s()@ + self.x@ * d) - (candle.high_s()@ - self.x@ * d));
		}
	}
//@end
}
pub open spec fn cks_values<M: MovingAverageConstructor, T: OHLCV>(pre: &ChandeKrollStopInstance<M>, candle: &T, post: &ChandeKrollStopInstance<M>, stop_long: ValueType, stop_short: ValueType,
	tr: ValueType, atr: ValueType, hh: ValueType, ll: ValueType, phs: ValueType, pls: ValueType) -> bool {
	// documented (TradingView): preliminary stops = highest high(p) - x * ATR(p) and lowest low(p) + x * ATR(p);
	// stop short = highest(q) of the preliminary high stop, stop long = lowest(q) of the preliminary low stop
	&&& tr@ == rmax(candle.high_s()@, pre.prev_close@) - rmin(candle.low_s()@, pre.prev_close@) && post.prev_close == candle.close_s()
	&&& <M::Instance as Method>::step(&pre.ma, &tr, &post.ma, &atr)
	&&& Highest::step(&pre.highest1, &candle.high_s(), &post.highest1, &hh) && Lowest::step(&pre.lowest1, &candle.low_s(), &post.lowest1, &ll)
	&&& phs@ == atr@ * (-pre.cfg.x@) + hh@ && pls@ == atr@ * pre.cfg.x@ + ll@
	&&& Highest::step(&pre.highest2, &phs, &post.highest2, &stop_short) && Lowest::step(&pre.lowest2, &pls, &post.lowest2, &stop_long)
	&&& post.prev_stop_short == stop_short && post.prev_stop_long == stop_long
}
pub open spec fn cks_signals<M: MovingAverageConstructor>(pre: &ChandeKrollStopInstance<M>, src: real, post: &ChandeKrollStopInstance<M>, stop_long: ValueType, stop_short: ValueType, s1: Action, s2: Action, c: Action) -> bool {
	let mid = (stop_short@ + stop_long@) * 0.5real;
	let size = mid - stop_long@;
	// documented signal 1: the position of the source between the stops (+1 at stop short, -1 at stop long), as a proportional action
	&&& s1 == action_of_real(if size == 0real { 0real } else { (src - mid) / size })
	// documented signal 2: only when stop long crosses stop short upwards (and is above it): the sign of the cumulative move of both stops
	&&& CrossAbove::step(&pre.cross_above, &(stop_long, stop_short), &post.cross_above, &c)
	&&& ({
		let diff = (stop_short@ - pre.prev_stop_short@) + (stop_long@ - pre.prev_stop_long@);
		let fire = sv(c) > 0 && stop_short@ < stop_long@;
		s2 == Action::of_i8(if fire { if diff > 0real { 1int } else if diff < 0real { -1int } else { 0int } } else { 0int })
	})
}
impl<M: MovingAverageConstructor> ChandeKrollStopInstance<M> {
	pub open spec fn inv(&self) -> bool {
		self.ma.inv() && self.highest1.inv() && self.lowest1.inv() && self.highest2.inv() && self.lowest2.inv() && self.cross_above.inv()
	}
//@extract src/indicators/chande_kroll_stop.rs impl[IndicatorInstance for ChandeKrollStopInstance<M>]::next pub into=action
	requires old(self).inv()
	ensures final(self).inv(), final(self).cfg == old(self).cfg,
		r.length == (3u8, 2u8),
		r.vals()[1]@ == src_val(candle, old(self).cfg.source),
		exists|tr: ValueType, atr: ValueType, hh: ValueType, ll: ValueType, phs: ValueType, pls: ValueType|
			#[trigger] cks_values(old(self), candle, final(self), r.vals()[0], r.vals()[2], tr, atr, hh, ll, phs, pls),
		exists|c: Action| #[trigger] cks_signals(old(self), r.vals()[1]@, final(self), r.vals()[0], r.vals()[2], r.sigs()[0], r.sigs()[1], c),
//@replace let phs = atr.mul_add(-self.cfg.x, self.highest1.next(&candle.high())); ==> let hh__ = self.highest1.next(&candle.high()); let phs = atr.mul_add(-self.cfg.x, hh__);
//@replace let pls = atr.mul_add(self.cfg.x, self.lowest1.next(&candle.low())); ==> let ll__ = self.lowest1.next(&candle.low()); let pls = atr.mul_add(self.cfg.x, ll__);
//@replace let cross: i8 = self.cross_above.next(&(stop_long, stop_short)).into(); ==> let c__ = self.cross_above.next(&(stop_long, stop_short)); let cross: i8 = <i8 as FromAction>::from_action(c__);
//@hint before let atr
	proof { self.ma.input_always_ok(&tr); }
//@hint before let s2 =
	proof {
		let (a, b) = (cross as int, is_s2 as int);
		let g = if s2_diff@ > 0real { 1int } else if s2_diff@ < 0real { -1int } else { 0int };
		assert(a * b * g == (if a == 1 && b == 1 { g } else { 0int })) by(nonlinear_arith) requires (a == 0 || a == 1), (b == 0 || b == 1), -1 <= g <= 1;
		assert(-1 <= a * b <= 1) by(nonlinear_arith) requires (a == 0 || a == 1), (b == 0 || b == 1);
	}
//@hint result
	proof {
		assert(cks_values(old(self), candle, self, r.vals()[0], r.vals()[2], tr, atr, hh__, ll__, phs, pls));
		assert(cks_signals(old(self), r.vals()[1]@, self, r.vals()[0], r.vals()[2], r.sigs()[0], r.sigs()[1], c__));
	}
//@end
}

// ---- C08 at indicator level (averaging kinds that cannot overshoot, ordered candle): ChandeKrollStop fed the candle it was initialised with
// keeps both stops at high - x*(high-low) and low + x*(high-low), the position signal constant and never gives signal 2
pub open spec fn all_eq_v(v: Seq<R>, s: real) -> bool { forall|i: int| 0 <= i < v.len() ==> (#[trigger] v[i])@ == s }
pub proof fn lemma_highest_all_eq(pre: &Highest, x: ValueType, post: &Highest, out: ValueType)
	requires pre.inv(), all_eq_v(pre.window.view(), x@), Highest::step(pre, &x, post, &out)
	ensures all_eq_v(post.window.view(), x@), out@ == x@
{
	let v = post.window.view();
	assert forall|i: int| 0 <= i < v.len() implies (#[trigger] v[i])@ == x@ by { if i < v.len() - 1 { assert(v[i] == pre.window.view()[i + 1]); } }
}
pub proof fn lemma_lowest_all_eq(pre: &Lowest, x: ValueType, post: &Lowest, out: ValueType)
	requires pre.inv(), all_eq_v(pre.window.view(), x@), Lowest::step(pre, &x, post, &out)
	ensures all_eq_v(post.window.view(), x@), out@ == x@
{
	let v = post.window.view();
	assert forall|i: int| 0 <= i < v.len() implies (#[trigger] v[i])@ == x@ by { if i < v.len() - 1 { assert(v[i] == pre.window.view()[i + 1]); } }
}
impl<M: MovingAverageConstructor> ChandeKrollStopInstance<M> {
	pub open spec fn const_state<T: OHLCV>(&self, c: &T) -> bool {
		let d = c.high_s()@ - c.low_s()@;
		let (short, long) = (c.high_s()@ - self.cfg.x@ * d, c.low_s()@ + self.cfg.x@ * d);
		&&& self.inv() && self.ma.convex() && self.ma.within(d, d)
		&&& self.prev_close == c.close_s() && c.low_s()@ <= c.close_s()@ <= c.high_s()@
		&&& self.highest1.window.view() =~= konst(self.highest1.window.view().len(), c.high_s()) && self.lowest1.window.view() =~= konst(self.lowest1.window.view().len(), c.low_s())
		&&& all_eq_v(self.highest2.window.view(), short) && all_eq_v(self.lowest2.window.view(), long)
		&&& self.prev_stop_short@ == short && self.prev_stop_long@ == long && self.cross_above.last_delta@ == long - short
	}
}
pub proof fn cks_const_step<M: MovingAverageConstructor, T: OHLCV>(pre: &ChandeKrollStopInstance<M>, c: &T, post: &ChandeKrollStopInstance<M>, stop_long: ValueType, stop_short: ValueType,
	tr: ValueType, atr: ValueType, hh: ValueType, ll: ValueType, phs: ValueType, pls: ValueType, src: real, s1: Action, s2: Action, ca: Action)
	requires pre.const_state(c), post.inv(), post.cfg == pre.cfg,
		cks_values(pre, c, post, stop_long, stop_short, tr, atr, hh, ll, phs, pls), cks_signals(pre, src, post, stop_long, stop_short, s1, s2, ca)
	ensures
		stop_short@ == c.high_s()@ - pre.cfg.x@ * (c.high_s()@ - c.low_s()@), stop_long@ == c.low_s()@ + pre.cfg.x@ * (c.high_s()@ - c.low_s()@),
		s2 is None, post.const_state(c)
{
	let d = c.high_s()@ - c.low_s()@;
	assert(tr@ == d);
	<M::Instance as MovingAverage>::lemma_within_step(&pre.ma, &tr, &post.ma, &atr, d, d);
	highest_const_step(pre.highest1, c.high_s(), post.highest1, hh);
	lowest_const_step(pre.lowest1, c.low_s(), post.lowest1, ll);
	assert(atr@ * (-pre.cfg.x@) == -(pre.cfg.x@ * d)) by(nonlinear_arith) requires atr@ == d;
	assert(atr@ * pre.cfg.x@ == pre.cfg.x@ * d) by(nonlinear_arith) requires atr@ == d;
	lemma_highest_all_eq(&pre.highest2, phs, &post.highest2, stop_short);
	lemma_lowest_all_eq(&pre.lowest2, pls, &post.lowest2, stop_long);
}
} // verus!
fn main() {}
