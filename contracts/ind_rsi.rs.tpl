//@unit ind_rsi
//@include head.rs
//@import ohlcv.rs.tpl
//@import indicator_base.rs.tpl
//@include indicator_traits.rs

// ================================================================== RelativeStrengthIndex (generic in the averaging kind)
//@extract src/indicators/relative_strength_index.rs struct:RelativeStrengthIndex
//@end
//@extract src/indicators/relative_strength_index.rs struct:RelativeStrengthIndexInstance
//@end
impl<M: MovingAverageConstructor> RelativeStrengthIndex<M> {
	pub open spec fn valid(&self) -> bool { self.ma.period_s() > 2 && self.zone@ > 0real && self.zone@ <= 0.5real }
//@extract src/indicators/relative_strength_index.rs impl[IndicatorConfig for RelativeStrengthIndex<M>]::validate pub
	ensures r == self.valid(),
//@end
//@extract src/indicators/relative_strength_index.rs impl[IndicatorConfig for RelativeStrengthIndex<M>]::size pub
	ensures r == (1u8, 2u8),
//@end
//@extract src/indicators/relative_strength_index.rs impl[IndicatorConfig for RelativeStrengthIndex<M>]::init pub
//@sig pub fn init<T: OHLCV>(self, candle: &T) -> (r: Result<RelativeStrengthIndexInstance<M>, Error>)
	ensures
		!self.valid() ==> r is Err,
		r is Ok ==> r->Ok_0.inv() && r->Ok_0.cfg == self && r->Ok_0.nonneg(),
		// documented seeds: both smoothed series start at 0, the previous input at the source price
		r is Ok ==> r->Ok_0.previous_input@ == src_val(candle, self.source)
			&& self.ma.seeded(0real, &r->Ok_0.posma) && self.ma.seeded(0real, &r->Ok_0.negma),
		r is Ok ==> r->Ok_0.posma.convex() == self.ma.convex_kind() && r->Ok_0.negma.convex() == self.ma.convex_kind(),
		// C08: for an averaging kind that cannot overshoot, the constant state for the candle's source price (rsi_const_step)
		r is Ok && self.ma.convex_kind() ==> r->Ok_0.const_state(src_val(candle, self.source)),
//@replace Ok(Self::Instance { ==> Ok(RelativeStrengthIndexInstance {
//@end
}
pub open spec fn rsi_step<M: MovingAverageConstructor>(pre: &RelativeStrengthIndexInstance<M>, src: real, post: &RelativeStrengthIndexInstance<M>, value: real, up: ValueType, dn: ValueType, p: ValueType, n: ValueType) -> bool {
	// documented: RSI = avg gain / (avg gain + avg loss), gains and losses of the source smoothed by the configured average; 0.5 when both are 0
	&&& up@ == rmax(src - pre.previous_input@, 0real) && dn@ == rmin(src - pre.previous_input@, 0real)
	&&& post.previous_input@ == src
	&&& <M::Instance as Method>::step(&pre.posma, &up, &post.posma, &p)
	&&& <M::Instance as Method>::step(&pre.negma, &dn, &post.negma, &n)
	&&& (p@ != 0real || n@ != 0real ==> (p@ - n@ != 0real ==> value == p@ / (p@ - n@)))
	&&& (p@ == 0real && n@ == 0real ==> value == 0.5real)
}
// signals (C06): signal 1 fires when the value enters the oversold (+) / overbought (-) zone, signal 2 when it leaves it
pub open spec fn rsi_signals<M: MovingAverageConstructor>(pre: &RelativeStrengthIndexInstance<M>, value: ValueType, post: &RelativeStrengthIndexInstance<M>, s1: Action, s2: Action, lo: Action, hi: Action) -> bool {
	&&& Cross::step(&pre.cross_lower, &(value, pre.cfg.zone), &post.cross_lower, &lo)
	&&& Cross::step(&pre.cross_upper, &(value, mk(1real - pre.cfg.zone@)), &post.cross_upper, &hi)
	&&& s1 == Action::of_i8((if sv(lo) < 0 { 1int } else { 0int }) - (if sv(hi) > 0 { 1int } else { 0int }))
	&&& s2 == Action::of_i8((if sv(lo) > 0 { 1int } else { 0int }) - (if sv(hi) < 0 { 1int } else { 0int }))
}
impl<M: MovingAverageConstructor> RelativeStrengthIndexInstance<M> {
	pub open spec fn inv(&self) -> bool { self.posma.inv() && self.negma.inv() && self.cross_upper.inv() && self.cross_lower.inv() }
	// the smoothed gains are >= 0 and the smoothed losses <= 0 (kept by every averaging kind that cannot overshoot)
	pub open spec fn nonneg(&self) -> bool {
		exists|b: real| b >= 0real && #[trigger] self.posma.within(0real, b) && self.negma.within(-b, 0real)
	}
//@extract src/indicators/relative_strength_index.rs impl[IndicatorInstance for RelativeStrengthIndexInstance<M>]::next pub into=action
	// the debug assertion `pos + neg != 0` is discharged for averaging kinds that cannot overshoot
	requires old(self).inv(), old(self).posma.convex() && old(self).negma.convex(), old(self).nonneg()
	ensures final(self).inv(), final(self).cfg == old(self).cfg, final(self).nonneg(), final(self).posma.convex() && final(self).negma.convex(),
		r.length == (1u8, 2u8),
		exists|up: ValueType, dn: ValueType, p: ValueType, n: ValueType|
			#[trigger] rsi_step(old(self), src_val(candle, old(self).cfg.source), final(self), r.vals()[0]@, up, dn, p, n) && p@ >= 0real && n@ <= 0real,
		exists|lo: Action, hi: Action| #[trigger] rsi_signals(old(self), r.vals()[0], final(self), r.sigs()[0], r.sigs()[1], lo, hi),
		// C12: the value stays in [0, 1]
		0real <= r.vals()[0]@ <= 1real,
//@hint before let pos
	let ghost b0 = choose|b: real| b >= 0real && #[trigger] self.posma.within(0real, b) && self.negma.within(-b, 0real);
	let ghost b1 = rmax(b0, rabs(change@));
	proof {
		self.posma.lemma_within_weaken(0real, b0, 0real, b1);
		self.negma.lemma_within_weaken(-b0, 0real, -b1, 0real);
		self.posma.input_always_ok(&tmp0__);
	}
	let ghost pre_pos = self.posma;
	let ghost pre_neg = self.negma;
//@hint before let neg
	proof {
		<M::Instance as MovingAverage>::lemma_within_step(&pre_pos, &tmp0__, &self.posma, &pos, 0real, b1);
	}
//@hint before let value
	proof {
		<M::Instance as MovingAverage>::lemma_within_step(&pre_neg, &tmp1__, &self.negma, &tmp2__, -b1, 0real);
		assert(self.posma.within(0real, b1) && self.negma.within(-b1, 0real));
		assert(neg@ == -tmp2__@) by { assert(tmp2__@ * (-1real) == -tmp2__@) by(nonlinear_arith); }
	}
//@hint result
	proof {
		let (p, n) = (pos@, tmp2__@);
		if p != 0real || n != 0real {
			assert(0real <= p / (p - n) <= 1real) by(nonlinear_arith) requires p >= 0real, n <= 0real, p - n != 0real;
		}
		assert(rsi_step(old(self), src_val(candle, old(self).cfg.source), self, r.vals()[0]@, tmp0__, tmp1__, pos, tmp2__));
		assert(rsi_signals(old(self), r.vals()[0], self, r.sigs()[0], r.sigs()[1], lo_act__, hi_act__));
	}
//@replace let oversold = self.cross_lower.next(&(value, self.cfg.zone)).analog(); ==> let lo_act__ = self.cross_lower.next(&(value, self.cfg.zone)); let oversold = lo_act__.analog();
//@replace let overbought = self.cross_upper.next(&(value, 1. - self.cfg.zone)).analog(); ==> let hi_act__ = self.cross_upper.next(&(value, R::lit(1, 1) - self.cfg.zone)); let overbought = hi_act__.analog();
//@replace let neg: ValueType = self.negma.next(&change.min(0.)) * -1.; ==> let tmp1__ = change.min(R::lit(0, 1)); proof { self.negma.input_always_ok(&tmp1__); } let tmp2__ = self.negma.next(&tmp1__); let neg: ValueType = tmp2__ * -R::lit(1, 1);
//@end
}

// ---- C08 at indicator level (averaging kinds that cannot overshoot): RSI on a repeated candle: no gain, no loss, value 0.5, no signals
impl<M: MovingAverageConstructor> RelativeStrengthIndexInstance<M> {
	pub open spec fn const_state(&self, s: real) -> bool {
		&&& self.inv() && self.previous_input@ == s && self.posma.convex() && self.negma.convex()
		&&& self.posma.within(0real, 0real) && self.negma.within(0real, 0real)
		&&& 0real < self.cfg.zone@ <= 0.5real
		&&& (self.cross_lower.up.last_delta@ == 0real || self.cross_lower.up.last_delta@ == 0.5real - self.cfg.zone@)
		&&& (self.cross_upper.up.last_delta@ == 0real || self.cross_upper.up.last_delta@ == self.cfg.zone@ - 0.5real)
	}
}
pub proof fn rsi_const_step<M: MovingAverageConstructor>(pre: &RelativeStrengthIndexInstance<M>, src: real, post: &RelativeStrengthIndexInstance<M>, value: ValueType, up: ValueType, dn: ValueType, p: ValueType, n: ValueType,
	s1: Action, s2: Action, lo: Action, hi: Action)
	requires pre.const_state(src), post.inv(), post.cfg == pre.cfg, rsi_step(pre, src, post, value@, up, dn, p, n), rsi_signals(pre, value, post, s1, s2, lo, hi)
	ensures value@ == 0.5real, s1 is None, s2 is None, post.const_state(src)
{
	<M::Instance as MovingAverage>::lemma_within_step(&pre.posma, &up, &post.posma, &p, 0real, 0real);
	<M::Instance as MovingAverage>::lemma_within_step(&pre.negma, &dn, &post.negma, &n, 0real, 0real);
}
} // verus!
fn main() {}
