//@unit ma_laws
//@include head.rs
//@import ohlcv.rs.tpl
//@import indicator_base.rs.tpl
//@include indicator_traits.rs
//@import sma.rs.tpl
//@import wma.rs.tpl
//@import ema.rs.tpl

//@export-begin
// ---- C15: moving averages are averages. The code is tied to the definitions below by the contracts of C02/C03
// (next returns def(view) / follows the recurrence); the laws are lemmas over those definitions.
pub open spec fn affine(s: Seq<R>, a: real, b: real) -> Seq<R> { Seq::new(s.len(), |i: int| mk(a * s[i]@ + b)) }
pub open spec fn plus(s: Seq<R>, t: Seq<R>) -> Seq<R> { Seq::new(s.len(), |i: int| mk(s[i]@ + t[i]@)) }
pub open spec fn all_within(s: Seq<R>, lo: real, hi: real) -> bool { forall|i: int| 0 <= i < s.len() ==> lo <= (#[trigger] s[i])@ <= hi }

pub proof fn lemma_sum_affine(s: Seq<R>, a: real, b: real)
	ensures sum(affine(s, a, b)) == a * sum(s) + (s.len() as real) * b
	decreases s.len()
{
	if s.len() == 0 {
		assert(a * 0real + 0real * b == 0real) by(nonlinear_arith);
	} else {
		lemma_sum_affine(s.drop_last(), a, b);
		assert(affine(s, a, b).drop_last() =~= affine(s.drop_last(), a, b));
		let (n1, n, x, t) = (s.drop_last().len() as real, s.len() as real, s.last()@, sum(s.drop_last()));
		assert(n1 == n - 1real);
		assert(a * t + n1 * b + (a * x + b) == a * (t + x) + n * b) by(nonlinear_arith) requires n1 == n - 1real;
	}
}
pub proof fn lemma_wsum_affine(s: Seq<R>, a: real, b: real)
	ensures wsum(affine(s, a, b)) == a * wsum(s) + (tri(s.len() as int) as real) * b
	decreases s.len()
{
	if s.len() == 0 {
		assert(a * 0real + 0real * b == 0real) by(nonlinear_arith);
	} else {
		lemma_wsum_affine(s.drop_last(), a, b);
		assert(affine(s, a, b).drop_last() =~= affine(s.drop_last(), a, b));
		let n = s.len() as int;
		let (t1, t, nr, x, w) = (tri(n - 1) as real, tri(n) as real, n as real, s.last()@, wsum(s.drop_last()));
		assert(t == t1 + nr);
		// split into single distributions (one large nonlinear query was unstable)
		let ax = a * x;
		let nx = nr * x;
		assert(nr * (ax + b) == nr * ax + nr * b) by(nonlinear_arith);
		assert(a * (w + nx) == a * w + a * nx) by(nonlinear_arith);
		assert(a * nx == nr * ax) by(nonlinear_arith) requires nx == nr * x, ax == a * x;
		assert(t * b == t1 * b + nr * b) by(nonlinear_arith) requires t == t1 + nr;
		assert(a * w + t1 * b + nr * (a * x + b) == a * (w + nr * x) + t * b);
	}
}
pub proof fn lemma_sum_plus(s: Seq<R>, t: Seq<R>)
	requires s.len() == t.len()
	ensures sum(plus(s, t)) == sum(s) + sum(t)
	decreases s.len()
{
	if s.len() > 0 {
		lemma_sum_plus(s.drop_last(), t.drop_last());
		assert(plus(s, t).drop_last() =~= plus(s.drop_last(), t.drop_last()));
	}
}
pub proof fn lemma_wsum_plus(s: Seq<R>, t: Seq<R>)
	requires s.len() == t.len()
	ensures wsum(plus(s, t)) == wsum(s) + wsum(t)
	decreases s.len()
{
	if s.len() > 0 {
		lemma_wsum_plus(s.drop_last(), t.drop_last());
		assert(plus(s, t).drop_last() =~= plus(s.drop_last(), t.drop_last()));
		let (n, x, y) = (s.len() as real, s.last()@, t.last()@);
		assert(n * (x + y) == n * x + n * y) by(nonlinear_arith);
	}
}
pub proof fn lemma_sum_bounds(s: Seq<R>, lo: real, hi: real)
	requires all_within(s, lo, hi)
	ensures (s.len() as real) * lo <= sum(s) <= (s.len() as real) * hi
	decreases s.len()
{
	if s.len() == 0 {
		assert(0real * lo == 0real && 0real * hi == 0real) by(nonlinear_arith);
	} else {
		lemma_sum_bounds(s.drop_last(), lo, hi);
		let (n1, n) = (s.drop_last().len() as real, s.len() as real);
		assert(n1 == n - 1real);
		assert(n1 * lo + lo == n * lo && n1 * hi + hi == n * hi) by(nonlinear_arith) requires n1 == n - 1real;
	}
}
pub proof fn lemma_wsum_bounds(s: Seq<R>, lo: real, hi: real)
	requires all_within(s, lo, hi)
	ensures (tri(s.len() as int) as real) * lo <= wsum(s) <= (tri(s.len() as int) as real) * hi
	decreases s.len()
{
	if s.len() == 0 {
		assert(0real * lo == 0real && 0real * hi == 0real) by(nonlinear_arith);
	} else {
		lemma_wsum_bounds(s.drop_last(), lo, hi);
		let n = s.len() as int;
		let (t1, t, nr, x) = (tri(n - 1) as real, tri(n) as real, n as real, s.last()@);
		assert(t == t1 + nr);
		assert(t1 * lo + nr * lo == t * lo && t1 * hi + nr * hi == t * hi) by(nonlinear_arith) requires t == t1 + nr;
		assert(nr * lo <= nr * x && nr * x <= nr * hi) by(nonlinear_arith) requires nr >= 1real, lo <= x, x <= hi;
	}
}

// ---------------------------------------------------------------- SMA: affine-equivariant, range-preserving, linear
pub proof fn sma_affine(v: Seq<R>, a: real, b: real)
	requires v.len() >= 1
	ensures SMA::def(affine(v, a, b)) == a * SMA::def(v) + b
{
	lemma_sum_affine(v, a, b);
	let (n, s) = (v.len() as real, sum(v));
	assert((a * s + n * b) / n == a * (s / n) + b) by(nonlinear_arith) requires n >= 1real;
}
pub proof fn sma_range(v: Seq<R>, lo: real, hi: real)
	requires v.len() >= 1, all_within(v, lo, hi)
	ensures lo <= SMA::def(v) <= hi
{
	lemma_sum_bounds(v, lo, hi);
	let (n, s) = (v.len() as real, sum(v));
	assert(lo <= s / n && s / n <= hi) by(nonlinear_arith) requires n >= 1real, n * lo <= s, s <= n * hi;
}
pub proof fn sma_superposition(v: Seq<R>, w: Seq<R>)
	requires v.len() >= 1, v.len() == w.len()
	ensures SMA::def(plus(v, w)) == SMA::def(v) + SMA::def(w)
{
	lemma_sum_plus(v, w);
	let (n, s, t) = (v.len() as real, sum(v), sum(w));
	assert((s + t) / n == s / n + t / n) by(nonlinear_arith) requires n >= 1real;
}
// ---------------------------------------------------------------- WMA: weights (i+1)/tri(n), non-negative, summing to 1
pub proof fn wma_affine(v: Seq<R>, a: real, b: real)
	requires v.len() >= 1
	ensures WMA::def(affine(v, a, b)) == a * WMA::def(v) + b
{
	lemma_wsum_affine(v, a, b);
	lemma_tri(v.len() as int);
	let (t, s) = (tri(v.len() as int) as real, wsum(v));
	assert((a * s + t * b) / t == a * (s / t) + b) by(nonlinear_arith) requires t >= 1real;
}
pub proof fn wma_range(v: Seq<R>, lo: real, hi: real)
	requires v.len() >= 1, all_within(v, lo, hi)
	ensures lo <= WMA::def(v) <= hi
{
	lemma_wsum_bounds(v, lo, hi);
	lemma_tri(v.len() as int);
	let (t, s) = (tri(v.len() as int) as real, wsum(v));
	assert(lo <= s / t && s / t <= hi) by(nonlinear_arith) requires t >= 1real, t * lo <= s, s <= t * hi;
}
pub proof fn wma_superposition(v: Seq<R>, w: Seq<R>)
	requires v.len() >= 1, v.len() == w.len()
	ensures WMA::def(plus(v, w)) == WMA::def(v) + WMA::def(w)
{
	lemma_wsum_plus(v, w);
	lemma_tri(v.len() as int);
	let (t, s, u) = (tri(v.len() as int) as real, wsum(v), wsum(w));
	assert((s + u) / t == s / t + u / t) by(nonlinear_arith) requires t >= 1real;
}
// ---------------------------------------------------------------- EMA family / RMA: one-step laws of the recurrence (0 < alpha <= 1)
pub proof fn ema_affine_step(pre: EMA, x: R, post: EMA, out: R, a: real, b: real)
	requires EMA::step(&pre, &x, &post, &out)
	ensures ({
		let pre2 = EMA { alpha: pre.alpha, value: mk(a * pre.value@ + b) };
		let out2 = mk(a * out@ + b);
		let post2 = EMA { alpha: post.alpha, value: out2 };
		EMA::step(&pre2, &mk(a * x@ + b), &post2, &out2)
	})
{
	let (al, v, xx) = (pre.alpha@, pre.value@, x@);
	assert(a * (v + al * (xx - v)) + b == (a * v + b) + al * ((a * xx + b) - (a * v + b))) by(nonlinear_arith);
}
pub proof fn ema_range_step(pre: EMA, x: R, post: EMA, out: R, lo: real, hi: real)
	requires pre.inv(), EMA::step(&pre, &x, &post, &out), lo <= pre.value@ <= hi, lo <= x@ <= hi
	ensures lo <= out@ <= hi, lo <= post.value@ <= hi
{
	let (al, v, xx) = (pre.alpha@, pre.value@, x@);
	assert(lo <= v + al * (xx - v) && v + al * (xx - v) <= hi) by(nonlinear_arith)
		requires 0real < al <= 1real, lo <= v, v <= hi, lo <= xx, xx <= hi;
}
pub proof fn ema_superposition_step(p1: EMA, x1: R, q1: EMA, o1: R, p2: EMA, x2: R, q2: EMA, o2: R)
	requires EMA::step(&p1, &x1, &q1, &o1), EMA::step(&p2, &x2, &q2, &o2), p1.alpha == p2.alpha
	ensures ({
		let p = EMA { alpha: p1.alpha, value: mk(p1.value@ + p2.value@) };
		let o = mk(o1@ + o2@);
		EMA::step(&p, &mk(x1@ + x2@), &EMA { alpha: p1.alpha, value: o }, &o)
	})
{
	let (al, v1, v2, a, b) = (p1.alpha@, p1.value@, p2.value@, x1@, x2@);
	assert((v1 + al * (a - v1)) + (v2 + al * (b - v2)) == (v1 + v2) + al * ((a + b) - (v1 + v2))) by(nonlinear_arith);
}

// ---------------------------------------------------------------- the trait-level convexity facts used by generic indicators (RSI), for concrete kinds
//@export-end
} // verus!
fn main() {}
