//@unit converters
//@include head.rs
//@import ohlcv.rs.tpl

// ================================================================== CollapseTimeframe (instantiated at T = Candle, the default type parameter)
#[verifier::reject_recursive_types(T)]
//@extract src/methods/collapse_timeframe.rs struct:CollapseTimeframe
//@end

// what the collapsed candle of a non-empty run of inputs is: first open, highest high, lowest low, last close, summed volume
pub open spec fn collapsed(s: Seq<Candle>, r: Candle) -> bool
	decreases s.len()
{
	if s.len() == 0 { false }
	else if s.len() == 1 { r == s[0] }
	else { exists|p: Candle| #[trigger] collapsed(s.drop_last(), p) && candle_add_spec(p, &s.last(), r) }
}
impl Method for CollapseTimeframe<Candle> {
	type Params = usize;
	type Input = Candle;
	type Output = Option<Candle>;
	open spec fn inv(&self) -> bool {
		self.period >= 1 && self.index < self.period && ((self.index == 0) == (self.current is None))
	}
	open spec fn rejects(parameters: usize) -> bool { parameters == 0 }
	open spec fn new_req(parameters: usize, initial_value: &Candle) -> bool { true }
	open spec fn fresh(parameters: usize, initial_value: &Candle, s: &Self) -> bool { s.period == parameters && s.index == 0 && s.current is None }
	open spec fn input_ok(&self, x: &Candle) -> bool { true }
	// exactly one candle on every period-th input; between emissions the running aggregate grows by `+`
	open spec fn step(pre: &Self, x: &Candle, post: &Self, out: &Option<Candle>) -> bool {
		let agg = if pre.current is None { Some(*x) } else { None::<Candle> };
		&&& post.period == pre.period
		&&& (*out is Some) == (pre.index + 1 == pre.period)
		&&& post.index == (if pre.index + 1 == pre.period { 0 } else { pre.index + 1 })
		&&& (pre.current is None ==> (if *out is Some { *out == Some(*x) } else { post.current == Some(*x) }))
		&&& (pre.current is Some ==> exists|a: Candle| #[trigger] candle_add_spec(pre.current->Some_0, x, a)
				&& (if *out is Some { *out == Some(a) } else { post.current == Some(a) }))
	}
//@extract src/methods/collapse_timeframe.rs impl[Method for CollapseTimeframe<T>]::new
//@end
//@extract src/methods/collapse_timeframe.rs impl[Method for CollapseTimeframe<T>]::next
//@replace self.current = self .current .take() .map(|current| current + candle.clone()) .or_else(|| Some(candle.clone())); ==> let taken__ = self.current.take(); self.current = match taken__ { Some(current) => { let a__ = current + candle.clone(); proof { assert(candle_add_spec(current, candle, a__)); } Some(a__) }, None => Some(candle.clone()) };
//@end
}

// ================================================================== Renko
//@extract src/methods/renko.rs struct:RenkoBlock keepderive
//@end
//@extract src/methods/renko.rs struct:RenkoOutput
//@end
//@extract src/methods/renko.rs struct:Renko keepderive
//@end

impl RenkoOutput {
	pub open spec fn wf(&self) -> bool { self.pos <= self.len }
	// the k-th brick of this emission: contiguous, equally sized relative to the base line, one direction
	pub open spec fn brick(&self, k: int) -> (real, real) {
		((1real + self.brick_size@ * (k as real)) * self.base_line@, (1real + self.brick_size@ * ((k + 1) as real)) * self.base_line@)
	}
//@extract src/methods/renko.rs impl[Iterator for RenkoOutput]::next pub
//@sig pub fn next(&mut self) -> (r: Option<RenkoBlock>)
	requires old(self).wf()
	ensures final(self).wf(), final(self).len == old(self).len, final(self).brick_size == old(self).brick_size, final(self).base_line == old(self).base_line,
		final(self).block_volume == old(self).block_volume,
		old(self).pos == old(self).len ==> r is None && final(self).pos == old(self).pos,
		old(self).pos < old(self).len ==> r is Some && final(self).pos == old(self).pos + 1
			&& (r->Some_0.open@, r->Some_0.close@) == old(self).brick(old(self).pos as int)
			&& r->Some_0.volume == old(self).block_volume,
//@hint start
	proof {
		let (b, p, l) = (self.brick_size@, self.pos as real, self.base_line@);
		assert(b * p + 1real == 1real + b * p);
		assert((self.pos + 1) as real == p + 1real);
	}
//@end
//@extract src/methods/renko.rs impl[Iterator for RenkoOutput]::size_hint pub
	requires self.wf()
	ensures r.0 == self.len - self.pos, r.1 == Some((self.len - self.pos) as usize),
//@end
//@extract src/methods/renko.rs impl[Iterator for RenkoOutput]::count pub
	requires self.wf()
	ensures r == self.len - self.pos,
//@end
//@extract src/methods/renko.rs impl[Iterator for RenkoOutput]::nth pub
//@sig pub fn nth(&mut self, n: usize) -> (r: Option<RenkoBlock>)
	requires old(self).wf()
	ensures final(self).wf(), final(self).len == old(self).len, final(self).brick_size == old(self).brick_size, final(self).base_line == old(self).base_line,
		final(self).block_volume == old(self).block_volume,
		// skipping n bricks yields brick pos + n of the SAME emission when it exists, and exhausts the iterator otherwise: never a brick beyond len
		old(self).pos + n >= old(self).len ==> r is None && final(self).pos == old(self).len,
		old(self).pos + n < old(self).len ==> r is Some && final(self).pos == old(self).pos + n + 1
			&& (r->Some_0.open@, r->Some_0.close@) == old(self).brick(old(self).pos + n)
			&& r->Some_0.volume == old(self).block_volume,
//@end
	// RenkoOutput::last takes `mut self`, which Verus does not support: not under contract
}
// consecutive bricks are contiguous: brick k closes where brick k+1 opens
pub proof fn renko_bricks_contiguous(o: RenkoOutput, k: int)
	ensures o.brick(k).1 == o.brick(k + 1).0
{
}

pub open spec fn renko_inv(s: &Renko) -> bool {
	&&& epsilon_value() <= s.brick_size@ < 1real
	&&& s.last_block_upper@ > 0real && s.last_block_lower@ > 0real
	&&& s.next_block_upper@ == s.last_block_upper@ * (1real + s.brick_size@)
	&&& s.next_block_lower@ == s.last_block_lower@ * (1real - s.brick_size@)
}
impl Method for Renko {
	type Params = (ValueType, Source);
	type Input = DynOHLCV;
	type Output = RenkoOutput;
	open spec fn inv(&self) -> bool { renko_inv(self) }
	open spec fn rejects(parameters: (ValueType, Source)) -> bool { parameters.0@ >= 1real || parameters.0@ < epsilon_value() }
	open spec fn new_req(parameters: (ValueType, Source), initial_value: &DynOHLCV) -> bool { src_val(initial_value, parameters.1) > 0real }
	open spec fn fresh(parameters: (ValueType, Source), initial_value: &DynOHLCV, s: &Self) -> bool {
		s.brick_size == parameters.0 && s.src == parameters.1 && s.volume@ == 0real
	}
	// positive prices, as the valid-candle streams of the property provide
	open spec fn input_ok(&self, x: &DynOHLCV) -> bool { src_val(x, self.src) > 0real }
	open spec fn step(pre: &Self, x: &DynOHLCV, post: &Self, out: &RenkoOutput) -> bool {
		let v = src_val(x, pre.src);
		let up = v >= pre.next_block_upper@;
		let dn = !up && v <= pre.next_block_lower@;
		&&& out.wf() && out.pos == 0 && post.src == pre.src && post.brick_size == pre.brick_size
		// at least one brick exactly when the price has reached the next boundary (either side)
		&&& (out.len >= 1) == (up || dn)
		// the bricks start at the bound that was crossed, all point one way and together carry the volume consumed since the previous emission
		&&& (up ==> out.base_line == pre.last_block_upper && out.brick_size == pre.brick_size)
		&&& (dn ==> out.base_line == pre.last_block_lower && out.brick_size@ == -pre.brick_size@)
		&&& (up || dn ==> out.block_volume@ * (out.len as real) == pre.volume@ + x.volume_s()@ && post.volume@ == 0real)
		// the new bounds are the last emitted brick (contiguity across emissions)
		&&& (up ==> post.last_block_upper@ == out.brick(out.len as int - 1).1 && post.last_block_lower@ == out.brick(out.len as int - 1).0)
		&&& (dn ==> post.last_block_lower@ == out.brick(out.len as int - 1).1 && post.last_block_upper@ == out.brick(out.len as int - 1).0)
		// the count is the number of whole bricks between the crossed bound and the price (for counts that fit an integer)
		&&& (up && (v - pre.last_block_upper@) / pre.last_block_upper@ / pre.brick_size@ < 9223372036854775808real ==>
				out.brick(out.len as int - 1).1 <= v && v < out.brick(out.len as int).1)
		&&& (!up && !dn ==> post.volume@ == pre.volume@ + x.volume_s()@ && post.last_block_upper == pre.last_block_upper && post.last_block_lower == pre.last_block_lower
				&& post.next_block_upper == pre.next_block_upper && post.next_block_lower == pre.next_block_lower)
	}
//@extract src/methods/renko.rs impl[Method for Renko]::new
//@replace (ValueType::EPSILON..1.0).contains(&brick_size) ==> (brick_size >= R::EPSILON() && brick_size < R::lit(1, 1))
//@hint result
	proof {
		if r is Ok {
			let (v, b) = (value@, brick_size@);
			let h = v * b * 0.5real;
			assert(0real < h && h < v) by(nonlinear_arith) requires v > 0real, 0real < b < 1real, h == v * b * 0.5real;
		}
	}
//@end
//@extract src/methods/renko.rs impl[Method for Renko]::next
//@hint before#1 let volume = self.volume;
	proof {
		let (u, b, v, n) = (old(self).last_block_upper@, self.brick_size@, value@, len as real);
		let q = (v - u) / u / b;
		assert(n >= 1real && b > 0real && u > 0real);
		assert(u * (1real + b * n) > 0real && u * (1real + b * (n - 1real)) > 0real) by(nonlinear_arith) requires u > 0real, b > 0real, n >= 1real;
		assert((len - 1) as real == n - 1real);
		assert(u * (1real + b * n) == (1real + b * n) * u && u * (1real + b * (n - 1real)) == (1real + b * (n - 1real)) * u) by(nonlinear_arith);
		if q < 9223372036854775808real {
			assert((1real + b * n) * u <= v && v < (1real + b * (n + 1real)) * u) by(nonlinear_arith)
				requires u > 0real, b > 0real, n <= q, q < n + 1real, q == (v - u) / u / b;
		}
	}
//@hint before#2 let volume = self.volume;
	proof {
		let (l, b, v, n) = (old(self).last_block_lower@, self.brick_size@, value@, len as real);
		let q = (l - v) / l / b;
		assert(n >= 1real && b >= epsilon_value() && l > 0real && v > 0real);
		// q < 1/b <= 2^52, so the truncation is exact: n <= q < n + 1
		assert(q < 4503599627370496real) by(nonlinear_arith) requires l > 0real, v > 0real, b >= 1real / 4503599627370496real, q == (l - v) / l / b;
		assert(l * (1real - b * n) > 0real && l * (1real - b * (n - 1real)) > 0real) by(nonlinear_arith)
			requires l > 0real, b > 0real, n >= 1real, v > 0real, n <= q, q == (l - v) / l / b;
		assert((len - 1) as real == n - 1real);
		assert(l * (1real - b * n) == (1real + (-b) * n) * l && l * (1real - b * (n - 1real)) == (1real + (-b) * (n - 1real)) * l) by(nonlinear_arith);
	}
//@hint result
	proof {
		let n = r.len as real;
		if r.len >= 1 {
			let vol = old(self).volume@ + candle.volume_s()@;
			assert(rdiv(vol, n) * n == vol) by(nonlinear_arith) requires n >= 1real, rdiv(vol, n) == vol / n;
		}
	}
//@replace let len = (((value - self.last_block_upper) / self.last_block_upper / self.brick_size) as usize) .max(1); ==> let q__ = (value - self.last_block_upper) / self.last_block_upper / self.brick_size; proof { renko_quot(value@, self.last_block_upper@, self.brick_size@); } let len = usize_max(q__.to_usize(), 1);
//@replace let len = (((self.last_block_lower - value) / self.last_block_lower / self.brick_size) as usize) .max(1); ==> let q__ = (self.last_block_lower - value) / self.last_block_lower / self.brick_size; proof { renko_quot_down(value@, self.last_block_lower@, self.brick_size@); } let len = usize_max(q__.to_usize(), 1);
//@end
}
// Ord::max on usize
pub fn usize_max(a: usize, b: usize) -> (r: usize) ensures r == (if a >= b { a } else { b }) { if a >= b { a } else { b } }
// the brick count of a rising emission: with q = (v - U)/U/b, v >= U(1+b) gives q >= 1, and floor(q) bricks fit
pub proof fn renko_quot(v: real, u: real, b: real)
	requires u > 0real, 0real < b < 1real, v >= u * (1real + b), v > 0real
	ensures (v - u) / u / b >= 1real, (v - u) / u / b < 9223372036854775808real ==> true
{
	let q = (v - u) / u / b;
	assert(q >= 1real) by(nonlinear_arith) requires u > 0real, 0real < b, v >= u * (1real + b), q == (v - u) / u / b;
}
pub proof fn renko_quot_down(v: real, l: real, b: real)
	requires l > 0real, 0real < b < 1real, v <= l * (1real - b)
	ensures (l - v) / l / b >= 1real
{
	let q = (l - v) / l / b;
	assert(q >= 1real) by(nonlinear_arith) requires l > 0real, 0real < b, v <= l * (1real - b), q == (l - v) / l / b;
}
} // verus!
fn main() {}
