//@unit conv
//@include head.rs
//@include select_lib.rs
//@export-begin

//@extract src/methods/conv.rs struct:Conv
//@end

// Σ_{i >= m} view[i] * w[i]
pub open spec fn csum_from(view: Seq<R>, w: Seq<R>, m: int) -> real decreases view.len() - m {
	if m >= view.len() { 0real } else { view[m]@ * w[m]@ + csum_from(view, w, m + 1) }
}
impl Conv {
	// documented: Σ w_i * x_i over the last |w| inputs (oldest input with the first weight), divided by Σ w_i — wherever Σ w_i != 0
	pub open spec fn def(view: Seq<R>, w: Seq<R>) -> real { csum_from(view, w, 0) / sum(w) }
	pub open spec fn inv(&self) -> bool {
		&&& self.window.wf() && self.window.cap() >= 1 && self.window.cap() == self.weights@.len()
		&&& self.wsum_invert@ == rdiv(1real, sum(self.weights@))
	}
//@extract src/methods/conv.rs impl[Peekable<<Self as Method>::Output> for Conv]::peek pub
//@sig pub fn peek(&self) -> (r: ValueType)
	requires self.inv()
	ensures sum(self.weights@) != 0real ==> r@ == Conv::def(self.window.view(), self.weights@),
		r@ == csum_from(self.window.view(), self.weights@, 0) * self.wsum_invert@,
//@src self.window.iter() ==> self.window.iter()
//@src self.weights.iter().rev() ==> SliceRevIt::new(self.weights.as_slice())
//@hint before self.window .iter()
	let ghost vw = self.window.view();
	let ghost ws = self.weights@;
	let ghost n = vw.len() as int;
	proof { assert(vw.subrange(0, n) =~= vw); }
//@hint chain 0
		invariant_except_break
			iter_at(it0__, &self.window, vw), n == vw.len(), n == ws.len(),
			it0z1__.inv(), it0z1__.s@ == ws, it0z1__.i as int == it0__.remaining().len(),
			acc0__@ == csum_from(vw, ws, it0__.remaining().len() as int),
		ensures
			acc0__@ == csum_from(vw, ws, 0),
		decreases it0__.remaining().len()
//@hint chain-start 0
		let ghost pre_it = it0__;
//@hint chain-item 0
		proof {
			lemma_iter_next(pre_it, it0__, &self.window, vw);
			let m = pre_it.remaining().len() as int;
			assert(csum_from(vw, ws, m - 1) == vw[m - 1]@ * ws[m - 1]@ + csum_from(vw, ws, m));
		}
//@hint result
	proof {
		let (c, s) = (csum_from(vw, ws, 0), sum(ws));
		if s != 0real { assert(c * (1real / s) == c / s) by(nonlinear_arith) requires s != 0real; }
	}
//@end
}
impl Method for Conv {
	type Params = Vec<ValueType>;
	type Input = ValueType;
	type Output = ValueType;
	open spec fn inv(&self) -> bool { Conv::inv(self) }
	open spec fn rejects(parameters: Vec<ValueType>) -> bool { parameters@.len() == 0 }
	open spec fn new_req(parameters: Vec<ValueType>, initial_value: &ValueType) -> bool { true }
	open spec fn fresh(parameters: Vec<ValueType>, initial_value: &ValueType, s: &Self) -> bool {
		s.weights@ == parameters@ && s.window.view() =~= konst(parameters@.len(), *initial_value)
	}
	open spec fn input_ok(&self, x: &ValueType) -> bool { true }
	open spec fn step(pre: &Self, x: &ValueType, post: &Self, out: &ValueType) -> bool {
		&&& post.window.view() == pre.window.view().drop_first().push(*x) && post.weights@ == pre.weights@
		&&& (sum(pre.weights@) != 0real ==> out@ == Conv::def(post.window.view(), pre.weights@))
	}
//@extract src/methods/conv.rs impl[Method for Conv]::new
	ensures (r is Ok) == (1 <= weights@.len() <= PeriodType::MAX as int - 1),
//@src weights.iter() ==> SliceIt::new(weights.as_slice())
//@replace 1..=MAX_WEIGHTS_LEN => { ==> len__ if 1 <= len__ && len__ <= MAX_WEIGHTS_LEN => {
//@hint chain 0
		invariant_except_break
			it0__.inv(), it0__.s@ == weights@, acc0__@ == sum(weights@.subrange(0, it0__.i as int)),
		ensures
			acc0__@ == sum(weights@),
		decreases weights@.len() - it0__.i
//@hint chain-start 0
		proof { assert(weights@.subrange(0, weights@.len() as int) =~= weights@); }
//@hint chain-end 0
		proof {
			let i = it0__.i as int;
			assert(weights@.subrange(0, i).drop_last() =~= weights@.subrange(0, i - 1));
		}
//@hint result
	proof { if r is Ok { lemma_cloned_konst(r->Ok_0.window.view(), weights@.len(), *value); } }
//@end
//@extract src/methods/conv.rs impl[Method for Conv]::next
//@end
}
// C08
pub proof fn lemma_csum_konst(n: nat, v: R, w: Seq<R>, m: int)
	requires w.len() == n, 0 <= m <= n
	ensures csum_from(konst(n, v), w, m) == v@ * sum(w.subrange(m, n as int))
	decreases n - m
{
	if m >= n {
		assert(w.subrange(m, n as int).len() == 0);
		assert(v@ * 0real == 0real) by(nonlinear_arith);
	} else {
		lemma_csum_konst(n, v, w, m + 1);
		lemma_sum_tail(w.subrange(m, n as int));
		assert(w.subrange(m, n as int).drop_first() =~= w.subrange(m + 1, n as int));
		let (x, a, b) = (v@, w[m]@, sum(w.subrange(m + 1, n as int)));
		assert(x * a + x * b == x * (a + b)) by(nonlinear_arith);
	}
}
pub proof fn conv_const_step(pre: Conv, v: R, post: Conv, out: R)
	requires pre.inv(), pre.window.view() =~= konst(pre.window.view().len(), v), Conv::step(&pre, &v, &post, &out), sum(pre.weights@) != 0real
	ensures post.window.view() =~= konst(pre.window.view().len(), v), out@ == v@
{
	let n = pre.window.view().len();
	assert(post.window.view() =~= konst(n, v));
	lemma_csum_konst(n, v, pre.weights@, 0);
	assert(pre.weights@.subrange(0, n as int) =~= pre.weights@);
	let (x, s) = (v@, sum(pre.weights@));
	assert((x * s) / s == x) by(nonlinear_arith) requires s != 0real;
}
//@export-end
} // verus!
fn main() {}
