//@unit ind_cmo
//@include head.rs
//@import ohlcv.rs.tpl
//@import indicator_base.rs.tpl
//@include indicator_traits.rs
//@import simple_window.rs.tpl

// ================================================================== ChandeMomentumOscillator
//@extract src/indicators/chande_momentum_oscillator.rs struct:ChandeMomentumOscillator
//@end
//@extract src/indicators/chande_momentum_oscillator.rs struct:ChandeMomentumOscillatorInstance
//@end
// the positive and the negative part of a one-step change
// (renamed: the parameter has the fn's own name, which Verus' contract desugaring cannot resolve)
//@extract src/indicators/chande_momentum_oscillator.rs fn:change pub rename=change_parts
	ensures r.0@ == rmax(change@, 0real), r.1@ == rmax(-change@, 0real),
//@hint start
	proof {
		let c = change@;
		assert(1real * c == c && 0real * c == 0real && 1real * (-c) == -c && 0real * (-c) == 0real) by(nonlinear_arith);
	}
//@end
impl ChandeMomentumOscillator {
	pub open spec fn valid(&self) -> bool { self.zone@ >= 0real && self.zone@ <= 1real && self.period > 1 && self.period < PeriodType::MAX }
//@extract src/indicators/chande_momentum_oscillator.rs impl[IndicatorConfig for ChandeMomentumOscillator]::validate pub
	ensures r == self.valid(),
//@end
//@extract src/indicators/chande_momentum_oscillator.rs impl[IndicatorConfig for ChandeMomentumOscillator]::size pub
	ensures r == (1u8, 1u8),
//@end
//@extract src/indicators/chande_momentum_oscillator.rs impl[IndicatorConfig for ChandeMomentumOscillator]::init pub
//@sig pub fn init<T: OHLCV>(self, candle: &T) -> (r: Result<ChandeMomentumOscillatorInstance, Error>)
	ensures
		!self.valid() ==> r is Err,
		r is Ok ==> r->Ok_0.inv() && r->Ok_0.cfg == self,
		// documented seeds: `period` one-step changes, all 0; the previous price is the source price
		r is Ok ==> r->Ok_0.window.view().len() == self.period && r->Ok_0.pos_sum@ == 0real && r->Ok_0.neg_sum@ == 0real
			&& r->Ok_0.change.window.view().len() == 1 && r->Ok_0.change.window.view()[0]@ == src_val(candle, self.source),
		// C08: the constant state for the candle's source price (cmo_const_step)
		r is Ok ==> r->Ok_0.const_state(src_val(candle, self.source)),
//@replace Ok(Self::Instance { ==> Ok(ChandeMomentumOscillatorInstance {
//@hint result
	proof {
		if r is Ok {
			let s = r->Ok_0.window.view();
			let z = s[0];
			assert(s =~= Seq::new(self.period as nat, |i: int| z));
			lemma_fsum_konst(self.period as nat, z, pos_fn());
			lemma_fsum_konst(self.period as nat, z, neg_fn());
			assert((self.period as real) * 0real == 0real) by(nonlinear_arith);
		}
	}
//@end
}
pub open spec fn cmo_step(pre: &ChandeMomentumOscillatorInstance, src: ValueType, post: &ChandeMomentumOscillatorInstance, value: ValueType, sig: Action, ch: ValueType, lo: Action, hi: Action, nz: ValueType) -> bool {
	let up = fsum(post.window.view(), pos_fn());
	let dn = fsum(post.window.view(), neg_fn());
	// documented: CMO = (sum of gains - sum of losses) / (sum of gains + sum of losses) over the last `period` one-step changes of the source
	&&& Momentum::step(&pre.change, &src, &post.change, &ch)
	&&& post.window.view() == pre.window.view().drop_first().push(ch)
	&&& (up + dn != 0real ==> value@ == (up - dn) / (up + dn))
	&&& (up + dn == 0real ==> value@ == 0real)
	// documented signal: full buy when the value goes below -zone, full sell when it goes above +zone
	&&& nz@ == -pre.cfg.zone@ && CrossUnder::step(&pre.cross_under, &(value, nz), &post.cross_under, &lo)
	&&& CrossAbove::step(&pre.cross_above, &(value, pre.cfg.zone), &post.cross_above, &hi)
	&&& sv(sig) == clamp255(sv(lo) - sv(hi))
}
impl ChandeMomentumOscillatorInstance {
	pub open spec fn inv(&self) -> bool {
		&&& self.change.inv() && self.cross_under.inv() && self.cross_above.inv() && self.window.wf() && self.window.cap() >= 1
		&&& self.pos_sum@ == fsum(self.window.view(), pos_fn()) && self.neg_sum@ == fsum(self.window.view(), neg_fn())
	}
//@extract src/indicators/chande_momentum_oscillator.rs impl[IndicatorInstance for ChandeMomentumOscillatorInstance]::next pub
	requires old(self).inv()
	ensures final(self).inv(), final(self).cfg == old(self).cfg,
		r.length == (1u8, 1u8),
		exists|src: ValueType, ch: ValueType, lo: Action, hi: Action, nz: ValueType| src@ == src_val(candle, old(self).cfg.source)
			&& #[trigger] cmo_step(old(self), src, final(self), r.vals()[0], r.sigs()[0], ch, lo, hi, nz),
		// C12: documented range [-1; 1]
		-1real <= r.vals()[0]@ <= 1real,
//@replace let signal = self.cross_under.next(&(value, -self.cfg.zone)) - self.cross_above.next(&(value, self.cfg.zone)); ==> let nz__ = -self.cfg.zone; let lo__ = self.cross_under.next(&(value, nz__)); let hi__ = self.cross_above.next(&(value, self.cfg.zone)); let signal = lo__ - hi__;
//@replace change(left_value) ==> change_parts(left_value)
//@replace change(ch) ==> change_parts(ch)
//@hint before self.pos_sum +=
	proof {
		lemma_fsum_slide(old(self).window.view(), ch, pos_fn());
		lemma_fsum_slide(old(self).window.view(), ch, neg_fn());
		assert forall|i: int| 0 <= i < self.window.view().len() implies pos_fn()(#[trigger] self.window.view()[i]) >= 0real by {}
		assert forall|i: int| 0 <= i < self.window.view().len() implies neg_fn()(#[trigger] self.window.view()[i]) >= 0real by {}
		lemma_fsum_nonneg(self.window.view(), pos_fn());
		lemma_fsum_nonneg(self.window.view(), neg_fn());
	}
//@hint before let signal
	proof {
		let (up, dn) = (self.pos_sum@, self.neg_sum@);
		if up + dn != 0real {
			let q = (up - dn) / (up + dn);
			assert(-1real <= q <= 1real) by(nonlinear_arith) requires up >= 0real, dn >= 0real, up + dn != 0real, q == (up - dn) / (up + dn);
		}
	}
//@hint result
	proof { assert(cmo_step(old(self), tmp0__, self, r.vals()[0], r.sigs()[0], ch, lo__, hi__, nz__)); }
//@end
}

// ---- C08 at indicator level: ChandeMomentumOscillator on a repeated candle: no change, both sums stay 0, value 0, no signal
pub open spec fn all_eq(v: Seq<R>, s: real) -> bool { forall|i: int| 0 <= i < v.len() ==> (#[trigger] v[i])@ == s }
impl ChandeMomentumOscillatorInstance {
	pub open spec fn const_state(&self, s: real) -> bool {
		&&& self.inv() && all_eq(self.change.window.view(), s) && all_eq(self.window.view(), 0real)
		&&& (self.cross_under.last_delta@ == 0real || self.cross_under.last_delta@ == self.cfg.zone@)
		&&& (self.cross_above.last_delta@ == 0real || self.cross_above.last_delta@ == -self.cfg.zone@) && self.cfg.zone@ >= 0real
	}
}
pub proof fn lemma_fsum_all_zero(v: Seq<R>, f: spec_fn(R) -> real)
	requires forall|i: int| 0 <= i < v.len() ==> f(#[trigger] v[i]) == 0real
	ensures fsum(v, f) == 0real
	decreases v.len()
{
	if v.len() > 0 {
		assert forall|i: int| 0 <= i < v.drop_last().len() implies f(#[trigger] v.drop_last()[i]) == 0real by { assert(v.drop_last()[i] == v[i]); }
		lemma_fsum_all_zero(v.drop_last(), f);
		assert(f(v.last()) == 0real) by { assert(v.last() == v[v.len() - 1]); }
	}
}
pub proof fn cmo_const_step(pre: &ChandeMomentumOscillatorInstance, src: ValueType, post: &ChandeMomentumOscillatorInstance, value: ValueType, sig: Action, ch: ValueType, lo: Action, hi: Action, nz: ValueType)
	requires pre.const_state(src@), post.inv(), post.cfg == pre.cfg, cmo_step(pre, src, post, value, sig, ch, lo, hi, nz)
	ensures value@ == 0real, sv(sig) == 0, post.const_state(src@)
{
	let c = post.change.window.view();
	assert forall|i: int| 0 <= i < c.len() implies (#[trigger] c[i])@ == src@ by { if i < c.len() - 1 { assert(c[i] == pre.change.window.view()[i + 1]); } }
	assert(pre.change.window.view()[0]@ == src@);
	assert(ch@ == 0real);
	let w = post.window.view();
	assert forall|i: int| 0 <= i < w.len() implies (#[trigger] w[i])@ == 0real by { if i < w.len() - 1 { assert(w[i] == pre.window.view()[i + 1]); } }
	assert forall|i: int| 0 <= i < w.len() implies pos_fn()(#[trigger] w[i]) == 0real by {}
	assert forall|i: int| 0 <= i < w.len() implies neg_fn()(#[trigger] w[i]) == 0real by {}
	lemma_fsum_all_zero(w, pos_fn());
	lemma_fsum_all_zero(w, neg_fn());
}
} // verus!
fn main() {}
