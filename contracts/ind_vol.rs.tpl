//@unit ind_vol
//@include head.rs
//@import ohlcv.rs.tpl
//@import indicator_base.rs.tpl
//@include indicator_traits.rs

//@import hlc.rs.tpl

// ================================================================== EaseOfMovement
//@extract src/indicators/ease_of_movement.rs struct:EaseOfMovement
//@end
//@extract src/indicators/ease_of_movement.rs struct:EaseOfMovementInstance
//@end
impl<M: MovingAverageConstructor> EaseOfMovement<M> {
	pub open spec fn valid(&self) -> bool {
		self.ma.period_s() > 1 && self.ma.period_s() < PeriodType::MAX && self.period2 >= 1 && self.period2 < PeriodType::MAX
	}
//@extract src/indicators/ease_of_movement.rs impl[IndicatorConfig for EaseOfMovement<M>]::validate pub
	ensures r == self.valid(),
//@end
//@extract src/indicators/ease_of_movement.rs impl[IndicatorConfig for EaseOfMovement<M>]::size pub
	ensures r == (1u8, 1u8),
//@end
//@extract src/indicators/ease_of_movement.rs impl[IndicatorConfig for EaseOfMovement<M>]::init pub
//@sig pub fn init<T: OHLCV>(self, candle: &T) -> (r: Result<EaseOfMovementInstance<M>, Error>)
	ensures
		!self.valid() ==> r is Err,
		r is Ok ==> r->Ok_0.inv() && r->Ok_0.cfg == self,
		// documented seeds: the average from 0, the delay line of period2 (high, low) snapshots from the first candle
		r is Ok ==> self.ma.seeded(0real, &r->Ok_0.m1) && r->Ok_0.w.view().len() == self.period2
			&& (forall|i: int| 0 <= i < r->Ok_0.w.view().len() ==> (#[trigger] r->Ok_0.w.view()[i]).high == candle.high_s() && r->Ok_0.w.view()[i].low == candle.low_s()),
		r is Ok ==> r->Ok_0.cross.up.last_delta@ == 0real && r->Ok_0.cross.down.last_delta@ == 0real,
		// C08: for an averaging kind that cannot overshoot, the constant state for this candle (eom_const_step)
		r is Ok && self.ma.convex_kind() ==> r->Ok_0.const_state(candle),
//@replace Ok(Self::Instance { ==> Ok(EaseOfMovementInstance {
//@end
}
pub open spec fn eom_step<M: MovingAverageConstructor, T: OHLCV>(pre: &EaseOfMovementInstance<M>, candle: &T, post: &EaseOfMovementInstance<M>, value: ValueType, sig: Action, v: ValueType, zero: ValueType) -> bool {
	let prev = pre.w.view()[0];
	// documented (Wikipedia): distance moved = ((H + L) - (H_prev + L_prev)) / 2 over period2 candles; box ratio = volume / (H - L);
	// EMV = distance / box ratio (0 when there is no volume), smoothed by the configured average; signal: crossing zero
	&&& post.w.view().len() == pre.w.view().len() && post.w.view().drop_last() =~= pre.w.view().drop_first()
	&&& post.w.view().last().high == candle.high_s() && post.w.view().last().low == candle.low_s()
	&&& (candle.volume_s()@ == 0real ==> v@ == 0real)
	&&& (candle.volume_s()@ != 0real ==> v@ == (((candle.high_s()@ - prev.high@) + (candle.low_s()@ - prev.low@)) * 0.5real) * (candle.high_s()@ - candle.low_s()@) / candle.volume_s()@)
	&&& <M::Instance as Method>::step(&pre.m1, &v, &post.m1, &value)
	&&& zero@ == 0real && Cross::step(&pre.cross, &(value, zero), &post.cross, &sig)
}
impl<M: MovingAverageConstructor> EaseOfMovementInstance<M> {
	pub open spec fn inv(&self) -> bool { self.m1.inv() && self.cross.inv() && self.w.wf() && self.w.cap() >= 1 }
//@extract src/indicators/ease_of_movement.rs impl[IndicatorInstance for EaseOfMovementInstance<M>]::next pub
	requires old(self).inv()
	ensures final(self).inv(), final(self).cfg == old(self).cfg,
		r.length == (1u8, 1u8),
		exists|v: ValueType, zero: ValueType| #[trigger] eom_step(old(self), candle, final(self), r.vals()[0], r.sigs()[0], v, zero),
//@hint before let value
	proof { self.m1.input_always_ok(&v); }
//@hint result
	proof { assert(eom_step(old(self), candle, self, r.vals()[0], r.sigs()[0], v, mk(0real))); }
//@end
}

// ================================================================== EldersForceIndex
//@extract src/indicators/elders_force_index.rs struct:EldersForceIndex
//@end
//@extract src/indicators/elders_force_index.rs struct:EldersForceIndexInstance
//@end
impl<M: MovingAverageConstructor> EldersForceIndex<M> {
	pub open spec fn valid(&self) -> bool { self.ma.period_s() > 1 && self.period2 >= 1 && self.period2 < PeriodType::MAX }
//@extract src/indicators/elders_force_index.rs impl[IndicatorConfig for EldersForceIndex<M>]::validate pub
	ensures r == self.valid(),
//@end
//@extract src/indicators/elders_force_index.rs impl[IndicatorConfig for EldersForceIndex<M>]::size pub
	ensures r == (1u8, 1u8),
//@end
//@extract src/indicators/elders_force_index.rs impl[IndicatorConfig for EldersForceIndex<M>]::init pub
//@sig pub fn init<T: OHLCV>(self, candle: &T) -> (r: Result<EldersForceIndexInstance<M>, Error>)
	ensures
		!self.valid() ==> r is Err,
		r is Ok ==> r->Ok_0.inv() && r->Ok_0.cfg == self,
		// documented seeds: the average from 0; period2 copies of the first candle, so the volume sum is period2 * volume
		r is Ok ==> self.ma.seeded(0real, &r->Ok_0.ma) && r->Ok_0.window.view().len() == self.period2,
		r is Ok ==> r->Ok_0.cross_over.up.last_delta@ == 0real && r->Ok_0.cross_over.down.last_delta@ == 0real,
		// C08: for an averaging kind that cannot overshoot, the constant state for this candle (efi_const_step)
		r is Ok && self.ma.convex_kind() ==> r->Ok_0.const_state(candle),
//@replace Ok(Self::Instance { ==> Ok(EldersForceIndexInstance {
//@hint result
	proof {
		if r is Ok {
			let s = r->Ok_0;
			lemma_vol_sum_all_eq(s.window.view(), candle.volume_s()@);
			assert(candle.volume_s()@ * (self.period2 as real) == (self.period2 as real) * candle.volume_s()@) by(nonlinear_arith);
		}
	}
//@end
}
// sum of the volumes of the candles in the delay line
pub open spec fn vol_sum(s: Seq<Candle>) -> real decreases s.len() {
	if s.len() == 0 { 0real } else { vol_sum(s.drop_last()) + s.last().volume@ }
}
pub proof fn lemma_vol_sum_all_eq(s: Seq<Candle>, v: real)
	requires forall|i: int| 0 <= i < s.len() ==> (#[trigger] s[i]).volume@ == v
	ensures vol_sum(s) == (s.len() as real) * v
	decreases s.len()
{
	if s.len() > 0 {
		lemma_vol_sum_all_eq(s.drop_last(), v);
		let n = s.len() as real;
		assert(s.drop_last().len() as real == n - 1real);
		assert(s.last().volume@ == v);
		assert((n - 1real) * v + v == n * v) by(nonlinear_arith);
	} else {
		assert(0real * v == 0real) by(nonlinear_arith);
	}
}
pub proof fn lemma_vol_sum_first(s: Seq<Candle>)
	requires s.len() >= 1
	ensures vol_sum(s) == s[0].volume@ + vol_sum(s.drop_first())
	decreases s.len()
{
	if s.len() == 1 {
		assert(s.drop_last().len() == 0 && s.drop_first().len() == 0);
		assert(vol_sum(s.drop_last()) == 0real && vol_sum(s.drop_first()) == 0real);
	} else {
		lemma_vol_sum_first(s.drop_last());
		assert(s.drop_last().drop_first() =~= s.drop_first().drop_last());
		assert(s.drop_first().last() == s.last());
		assert(s.drop_last()[0] == s[0]);
	}
}
pub open spec fn efi_step<M: MovingAverageConstructor, T: OHLCV>(pre: &EldersForceIndexInstance<M>, candle: &T, post: &EldersForceIndexInstance<M>, value: ValueType, sig: Action, force: ValueType, zero: ValueType) -> bool {
	let left = pre.window.view()[0];
	let pv = post.window.view();
	// documented (Wikipedia): force = (price now - price period2 candles ago) * volume over those candles, smoothed by the configured average
	&&& pv.len() == pre.window.view().len() && pv.drop_last() =~= pre.window.view().drop_first()
	&&& pv.last().open == candle.open_s() && pv.last().high == candle.high_s() && pv.last().low == candle.low_s()
		&& pv.last().close == candle.close_s() && pv.last().volume == candle.volume_s()
	&&& force@ == (src_val(candle, pre.cfg.source) - src_val(&left, pre.cfg.source)) * vol_sum(pv)
	&&& <M::Instance as Method>::step(&pre.ma, &force, &post.ma, &value)
	// signal: crossing zero
	&&& zero@ == 0real && Cross::step(&pre.cross_over, &(value, zero), &post.cross_over, &sig)
}
impl<M: MovingAverageConstructor> EldersForceIndexInstance<M> {
	pub open spec fn inv(&self) -> bool {
		&&& self.ma.inv() && self.cross_over.inv() && self.window.wf() && self.window.cap() >= 1
		&&& self.vol_sum@ == vol_sum(self.window.view())
	}
//@extract src/indicators/elders_force_index.rs impl[IndicatorInstance for EldersForceIndexInstance<M>]::next pub
	requires old(self).inv()
	ensures final(self).inv(), final(self).cfg == old(self).cfg,
		r.length == (1u8, 1u8),
		exists|force: ValueType, zero: ValueType| #[trigger] efi_step(old(self), candle, final(self), r.vals()[0], r.sigs()[0], force, zero),
//@replace let value = self.ma.next(&r); ==> proof { self.ma.input_always_ok(&r); } let force__ = r; let value = self.ma.next(&r);
//@replace IndicatorResult::new(&[value], &[signal]) ==> { let r = IndicatorResult::new(&[value], &[signal]); proof { assert(efi_step(old(self), candle, self, r.vals()[0], r.sigs()[0], force__, mk(0real))); } r }
//@hint before self.vol_sum +=
	proof {
		let ov = old(self).window.view();
		let nv = self.window.view();
		lemma_vol_sum_first(ov);
		assert(nv.drop_last() =~= ov.drop_first());
	}
//@end
}

// ---- C08 at indicator level (averaging kinds that cannot overshoot): EaseOfMovement and EldersForceIndex on a repeated candle return 0 and no signal
impl<M: MovingAverageConstructor> EaseOfMovementInstance<M> {
	pub open spec fn const_state<T: OHLCV>(&self, c: &T) -> bool {
		&&& self.inv() && self.m1.convex() && self.m1.within(0real, 0real) && self.cross.up.last_delta@ == 0real
		&&& forall|i: int| 0 <= i < self.w.view().len() ==> (#[trigger] self.w.view()[i]).high == c.high_s() && self.w.view()[i].low == c.low_s()
	}
}
pub proof fn eom_const_step<M: MovingAverageConstructor, T: OHLCV>(pre: &EaseOfMovementInstance<M>, candle: &T, post: &EaseOfMovementInstance<M>, value: ValueType, sig: Action, v: ValueType, zero: ValueType)
	requires pre.const_state(candle), post.inv(), eom_step(pre, candle, post, value, sig, v, zero)
	ensures value@ == 0real, sig is None, post.const_state(candle)
{
	let (h, l, vol) = (candle.high_s()@, candle.low_s()@, candle.volume_s()@);
	assert(pre.w.view()[0].high == candle.high_s() && pre.w.view()[0].low == candle.low_s());
	if vol != 0real {
		assert((((h - h) + (l - l)) * 0.5real) * (h - l) / vol == 0real) by(nonlinear_arith) requires vol != 0real;
	}
	<M::Instance as MovingAverage>::lemma_within_step(&pre.m1, &v, &post.m1, &value, 0real, 0real);
	let w = post.w.view();
	assert forall|i: int| 0 <= i < w.len() implies (#[trigger] w[i]).high == candle.high_s() && w[i].low == candle.low_s() by {
		if i < w.len() - 1 { assert(w[i] == w.drop_last()[i] && w.drop_last()[i] == pre.w.view().drop_first()[i] && pre.w.view().drop_first()[i] == pre.w.view()[i + 1]); }
	}
}
impl<M: MovingAverageConstructor> EldersForceIndexInstance<M> {
	pub open spec fn const_state<T: OHLCV>(&self, c: &T) -> bool {
		&&& self.inv() && self.ma.convex() && self.ma.within(0real, 0real) && self.cross_over.up.last_delta@ == 0real
		&&& forall|i: int| 0 <= i < self.window.view().len() ==> {
				let k = #[trigger] self.window.view()[i];
				k.open == c.open_s() && k.high == c.high_s() && k.low == c.low_s() && k.close == c.close_s() && k.volume == c.volume_s() }
	}
}
pub proof fn efi_const_step<M: MovingAverageConstructor, T: OHLCV>(pre: &EldersForceIndexInstance<M>, candle: &T, post: &EldersForceIndexInstance<M>, value: ValueType, sig: Action, force: ValueType, zero: ValueType)
	requires pre.const_state(candle), post.inv(), post.cfg == pre.cfg, efi_step(pre, candle, post, value, sig, force, zero)
	ensures value@ == 0real, sig is None, post.const_state(candle)
{
	let left = pre.window.view()[0];
	assert(left.open == candle.open_s() && left.high == candle.high_s() && left.low == candle.low_s() && left.close == candle.close_s() && left.volume == candle.volume_s());
	assert(src_val(candle, pre.cfg.source) == src_val(&left, pre.cfg.source));
	assert(0real * vol_sum(post.window.view()) == 0real) by(nonlinear_arith);
	<M::Instance as MovingAverage>::lemma_within_step(&pre.ma, &force, &post.ma, &value, 0real, 0real);
	let w = post.window.view();
	assert forall|i: int| 0 <= i < w.len() implies ({ let k = #[trigger] w[i]; k.open == candle.open_s() && k.high == candle.high_s() && k.low == candle.low_s() && k.close == candle.close_s() && k.volume == candle.volume_s() }) by {
		if i < w.len() - 1 { assert(w[i] == w.drop_last()[i] && w.drop_last()[i] == pre.window.view().drop_first()[i] && pre.window.view().drop_first()[i] == pre.window.view()[i + 1]); }
	}
}
} // verus!
fn main() {}
