//@unit ma_laws2
//@include head.rs
//@include sorted_lib.rs
//@include select_lib.rs
use std::cmp::Ordering;
//@import ohlcv.rs.tpl
//@import indicator_base.rs.tpl
//@include indicator_traits.rs
//@import sma.rs.tpl
//@import wma.rs.tpl
//@import compose_ma.rs.tpl
//@import ema.rs.tpl
//@import smm.rs.tpl
//@import swma.rs.tpl
//@import derived_window.rs.tpl
//@import lin_reg.rs.tpl
//@import conv.rs.tpl
//@import vwma.rs.tpl
//@import ma_laws.rs.tpl

// ==================================================================== C15, second part: the remaining kinds
// Metamorphic form: run the same kind on a stream x and on its affine image a*x+b (any a, negative included). If every value the second
// instance holds is the image of the corresponding value of the first (`*_rel`), one step on x / a*x+b keeps that relation and the second
// output is the image of the first. The step predicates are the contracts the real `next` functions are verified against (C02/C03).

// two sequences with the same numeric values (R also carries the sign of a zero, which no sum looks at)
pub open spec fn veq(s: Seq<R>, t: Seq<R>) -> bool { s.len() == t.len() && forall|i: int| 0 <= i < s.len() ==> (#[trigger] s[i])@ == t[i]@ }
pub open spec fn img_of(w: Seq<R>, v: Seq<R>, a: real, b: real) -> bool { veq(w, affine(v, a, b)) }

pub proof fn lemma_sum_cong(s: Seq<R>, t: Seq<R>)
	requires veq(s, t)
	ensures sum(s) == sum(t)
	decreases s.len()
{
	if s.len() > 0 { lemma_sum_cong(s.drop_last(), t.drop_last()); }
}
pub proof fn lemma_wsum_cong(s: Seq<R>, t: Seq<R>)
	requires veq(s, t)
	ensures wsum(s) == wsum(t)
	decreases s.len()
{
	if s.len() > 0 { lemma_wsum_cong(s.drop_last(), t.drop_last()); }
}
pub proof fn lemma_dsum_cong(s: Seq<R>, t: Seq<R>)
	requires veq(s, t)
	ensures dsum(s) == dsum(t)
	decreases s.len()
{
	if s.len() > 0 {
		let (u, w) = (s.drop_first(), t.drop_first());
		assert forall|i: int| 0 <= i < u.len() implies (#[trigger] u[i])@ == w[i]@ by { assert(u[i] == s[i + 1] && w[i] == t[i + 1]); }
		lemma_dsum_cong(u, w);
	}
}
pub proof fn lemma_asum_cong(s: Seq<R>, t: Seq<R>)
	requires veq(s, t)
	ensures asum(s) == asum(t)
	decreases s.len()
{
	if s.len() > 0 { lemma_asum_cong(s.drop_last(), t.drop_last()); lemma_sum_cong(s.drop_last(), t.drop_last()); }
}
// sliding both windows by corresponding inputs keeps the relation
pub proof fn lemma_img_slide(w: Seq<R>, v: Seq<R>, y: R, x: R, a: real, b: real)
	requires img_of(w, v, a, b), v.len() >= 1, y@ == a * x@ + b
	ensures img_of(w.drop_first().push(y), v.drop_first().push(x), a, b)
{
	let (w2, v2) = (w.drop_first().push(y), v.drop_first().push(x));
	let im = affine(v2, a, b);
	assert forall|i: int| 0 <= i < w2.len() implies (#[trigger] w2[i])@ == im[i]@ by {
		if i < w2.len() - 1 { assert(w2[i] == w[i + 1] && v2[i] == v[i + 1]); assert(w[i + 1]@ == affine(v, a, b)[i + 1]@); }
	}
}
pub proof fn lemma_dsum_affine(s: Seq<R>, a: real, b: real)
	ensures dsum(affine(s, a, b)) == a * dsum(s) + (tri(s.len() as int) as real) * b
	decreases s.len()
{
	if s.len() == 0 {
		assert(a * 0real + 0real * b == 0real) by(nonlinear_arith);
	} else {
		lemma_dsum_affine(s.drop_first(), a, b);
		assert(affine(s, a, b).drop_first() =~= affine(s.drop_first(), a, b));
		let n = s.len() as int;
		let (t1, t, nr, x, w) = (tri(n - 1) as real, tri(n) as real, n as real, s[0]@, dsum(s.drop_first()));
		assert(t == t1 + nr);
		let ax = a * x;
		let nx = nr * x;
		assert(nr * (ax + b) == nr * ax + nr * b) by(nonlinear_arith);
		assert(a * (nx + w) == a * nx + a * w) by(nonlinear_arith);
		assert(a * nx == nr * ax) by(nonlinear_arith) requires nx == nr * x, ax == a * x;
		assert(t * b == t1 * b + nr * b) by(nonlinear_arith) requires t == t1 + nr;
	}
}
pub proof fn lemma_asum_affine(s: Seq<R>, a: real, b: real)
	ensures asum(affine(s, a, b)) == a * asum(s) + (tri(s.len() as int - 1) as real) * b
	decreases s.len()
{
	if s.len() == 0 {
		assert(a * 0real + 0real * b == 0real) by(nonlinear_arith);
	} else {
		let d = s.drop_last();
		lemma_asum_affine(d, a, b);
		lemma_sum_affine(d, a, b);
		assert(affine(s, a, b).drop_last() =~= affine(d, a, b));
		let n = s.len() as int;
		let (t2, t1, m) = (tri(n - 2) as real, tri(n - 1) as real, (n - 1) as real);
		assert(tri(n - 1) == tri(n - 2) + (n - 1)) by { if n == 1 { assert(tri(0) == 0 && tri(-1) == 0); } }
		assert(t1 == t2 + m);
		let (p, q) = (asum(d), sum(d));
		assert(a * p + t2 * b + (a * q + m * b) == a * (p + q) + t1 * b) by(nonlinear_arith) requires t1 == t2 + m;
	}
}

// ---------------------------------------------------------------- SMA / WMA restated over numerically equal images
pub proof fn sma_affine_img(w: Seq<R>, v: Seq<R>, a: real, b: real)
	requires v.len() >= 1, img_of(w, v, a, b)
	ensures SMA::def(w) == a * SMA::def(v) + b
{
	lemma_sum_cong(w, affine(v, a, b));
	sma_affine(v, a, b);
}
pub proof fn wma_affine_img(w: Seq<R>, v: Seq<R>, a: real, b: real)
	requires v.len() >= 1, img_of(w, v, a, b)
	ensures WMA::def(w) == a * WMA::def(v) + b
{
	lemma_wsum_cong(w, affine(v, a, b));
	wma_affine(v, a, b);
}

// ---------------------------------------------------------------- SWMA (triangular weights over two half windows)
pub proof fn swma_affine_img(l2: Seq<R>, r2: Seq<R>, l1: Seq<R>, r1: Seq<R>, a: real, b: real)
	requires l1.len() >= 1, img_of(l2, l1, a, b), img_of(r2, r1, a, b)
	ensures SWMA::def(l2, r2) == a * SWMA::def(l1, r1) + b
{
	lemma_wsum_cong(l2, affine(l1, a, b));
	lemma_dsum_cong(r2, affine(r1, a, b));
	lemma_wsum_affine(l1, a, b);
	lemma_dsum_affine(r1, a, b);
	lemma_tri(l1.len() as int); lemma_tri(r1.len() as int);
	let (tl, tr) = (tri(l1.len() as int) as real, tri(r1.len() as int) as real);
	let t = tl + tr;
	let s = wsum(l1) + dsum(r1);
	assert(((tri(l1.len() as int) + tri(r1.len() as int)) as real) == t);
	assert((a * wsum(l1) + tl * b) + (a * dsum(r1) + tr * b) == a * s + t * b) by(nonlinear_arith) requires s == wsum(l1) + dsum(r1), t == tl + tr;
	assert((a * s + t * b) / t == a * (s / t) + b) by(nonlinear_arith) requires t >= 1real;
}
pub proof fn swma_affine_step(p1: &SWMA, x1: R, q1: &SWMA, o1: R, p2: &SWMA, x2: R, q2: &SWMA, o2: R, a: real, b: real)
	requires p1.inv(), p2.inv(), p1.l() == p2.l(), p1.r() == p2.r(),
		img_of(p2.left_window.view(), p1.left_window.view(), a, b), img_of(p2.right_window.view(), p1.right_window.view(), a, b),
		x2@ == a * x1@ + b, SWMA::step(p1, &x1, q1, &o1), SWMA::step(p2, &x2, q2, &o2)
	ensures o2@ == a * o1@ + b,
		p1.r() >= 1 ==> img_of(q2.left_window.view(), q1.left_window.view(), a, b) && img_of(q2.right_window.view(), q1.right_window.view(), a, b)
{
	if p1.r() >= 1 {
		let (l1, r1, l2, r2) = (p1.left_window.view(), p1.right_window.view(), p2.left_window.view(), p2.right_window.view());
		assert(r2[0]@ == affine(r1, a, b)[0]@);
		lemma_img_slide(r2, r1, x2, x1, a, b);
		lemma_img_slide(l2, l1, r2[0], r1[0], a, b);
		swma_affine_img(q2.left_window.view(), q2.right_window.view(), q1.left_window.view(), q1.right_window.view(), a, b);
	}
}

// ---------------------------------------------------------------- LinReg (least-squares line; extrapolates, so no range law, but affine-equivariant)
pub proof fn linreg_affine_img(w: Seq<R>, v: Seq<R>, a: real, b: real)
	requires v.len() >= 2, img_of(w, v, a, b)
	ensures LinReg::def(w) == a * LinReg::def(v) + b
{
	let im = affine(v, a, b);
	lemma_sum_cong(w, im); lemma_asum_cong(w, im);
	lemma_sum_affine(v, a, b); lemma_asum_affine(v, a, b);
	let n = v.len() as int;
	lemma_linreg_ints(n);
	let (nr, t, d, s, p) = (n as real, tri(n - 1) as real, LinReg::det(n), sum(v), asum(v));
	// slope of the image = a * slope: the shift b cancels
	let num1 = nr * p - t * s;
	let num2 = nr * (a * p + t * b) - t * (a * s + nr * b);
	assert(nr * (a * p + t * b) == a * (nr * p) + nr * (t * b)) by(nonlinear_arith);
	assert(t * (a * s + nr * b) == a * (t * s) + t * (nr * b)) by(nonlinear_arith);
	assert(nr * (t * b) == t * (nr * b)) by(nonlinear_arith);
	assert(a * (nr * p) - a * (t * s) == a * (nr * p - t * s)) by(nonlinear_arith);
	assert(num2 == a * num1);
	assert((a * num1) / d == a * (num1 / d)) by(nonlinear_arith) requires d >= 1real;
	let k = num1 / d;
	assert(LinReg::slope(w) == a * k);
	let m = s - k * t;
	assert((a * k) * t == a * (k * t)) by(nonlinear_arith);
	assert(a * s - a * (k * t) == a * m) by(nonlinear_arith) requires m == s - k * t;
	assert((a * m + nr * b) / nr == a * (m / nr) + b) by(nonlinear_arith) requires nr >= 2real;
}

// ---------------------------------------------------------------- VWMA: affine in the prices for fixed volumes; within the price range for non-negative volumes
pub open spec fn vw_img(w: Seq<(R, R)>, v: Seq<(R, R)>, a: real, b: real) -> bool {
	w.len() == v.len() && forall|i: int| 0 <= i < v.len() ==> (#[trigger] w[i]).0@ == a * v[i].0@ + b && w[i].1@ == v[i].1@
}
pub proof fn lemma_vw_affine(w: Seq<(R, R)>, v: Seq<(R, R)>, a: real, b: real)
	requires vw_img(w, v, a, b)
	ensures VWMA::num(w) == a * VWMA::num(v) + b * VWMA::den(v), VWMA::den(w) == VWMA::den(v)
	decreases v.len()
{
	if v.len() == 0 {
		assert(a * 0real + b * 0real == 0real) by(nonlinear_arith);
	} else {
		lemma_vw_affine(w.drop_last(), v.drop_last(), a, b);
		let (p, q, n0, d0) = (v.last().0@, v.last().1@, VWMA::num(v.drop_last()), VWMA::den(v.drop_last()));
		assert(w.last().0@ == a * p + b && w.last().1@ == q);
		assert(pv_fn()(w.last()) == (a * p + b) * q && pv_fn()(v.last()) == p * q && vol_fn()(v.last()) == q && vol_fn()(w.last()) == q);
		assert(a * n0 + b * d0 + (a * p + b) * q == a * (n0 + p * q) + b * (d0 + q)) by(nonlinear_arith);
	}
}
pub proof fn vwma_affine(w: Seq<(R, R)>, v: Seq<(R, R)>, a: real, b: real)
	requires vw_img(w, v, a, b), VWMA::den(v) != 0real
	ensures VWMA::num(w) / VWMA::den(w) == a * (VWMA::num(v) / VWMA::den(v)) + b
{
	lemma_vw_affine(w, v, a, b);
	let (n, d) = (VWMA::num(v), VWMA::den(v));
	assert((a * n + b * d) / d == a * (n / d) + b) by(nonlinear_arith) requires d != 0real;
}
pub proof fn lemma_vw_bounds(v: Seq<(R, R)>, lo: real, hi: real)
	requires forall|i: int| 0 <= i < v.len() ==> lo <= (#[trigger] v[i]).0@ <= hi && v[i].1@ >= 0real
	ensures lo * VWMA::den(v) <= VWMA::num(v) <= hi * VWMA::den(v), VWMA::den(v) >= 0real
	decreases v.len()
{
	if v.len() == 0 {
		assert(lo * 0real == 0real && hi * 0real == 0real) by(nonlinear_arith);
	} else {
		let d = v.drop_last();
		assert forall|i: int| 0 <= i < d.len() implies lo <= (#[trigger] d[i]).0@ <= hi && d[i].1@ >= 0real by { assert(d[i] == v[i]); }
		lemma_vw_bounds(d, lo, hi);
		let (p, q, n0, d0) = (v.last().0@, v.last().1@, VWMA::num(d), VWMA::den(d));
		assert(pv_fn()(v.last()) == p * q && vol_fn()(v.last()) == q);
		assert(lo * q <= p * q && p * q <= hi * q) by(nonlinear_arith) requires lo <= p, p <= hi, q >= 0real;
		assert(lo * (d0 + q) == lo * d0 + lo * q && hi * (d0 + q) == hi * d0 + hi * q) by(nonlinear_arith);
	}
}
pub proof fn vwma_range(v: Seq<(R, R)>, lo: real, hi: real)
	requires forall|i: int| 0 <= i < v.len() ==> lo <= (#[trigger] v[i]).0@ <= hi && v[i].1@ >= 0real, VWMA::den(v) != 0real
	ensures lo <= VWMA::num(v) / VWMA::den(v) <= hi
{
	lemma_vw_bounds(v, lo, hi);
	let (n, d) = (VWMA::num(v), VWMA::den(v));
	assert(lo <= n / d && n / d <= hi) by(nonlinear_arith) requires d > 0real, lo * d <= n, n <= hi * d;
}

// ---------------------------------------------------------------- Conv: affine for any weights with non-zero sum; within the range for non-negative weights
pub proof fn lemma_csum_affine(w: Seq<R>, v: Seq<R>, ws: Seq<R>, m: int, a: real, b: real)
	requires img_of(w, v, a, b), ws.len() == v.len(), 0 <= m <= v.len()
	ensures csum_from(w, ws, m) == a * csum_from(v, ws, m) + b * sum(ws.subrange(m, ws.len() as int))
	decreases v.len() - m
{
	let tail = ws.subrange(m, ws.len() as int);
	if m >= v.len() {
		assert(tail.len() == 0);
		assert(a * 0real + b * 0real == 0real) by(nonlinear_arith);
	} else {
		lemma_csum_affine(w, v, ws, m + 1, a, b);
		lemma_sum_tail(tail);
		assert(tail.drop_first() =~= ws.subrange(m + 1, ws.len() as int));
		assert(tail[0] == ws[m]);
		assert(w[m]@ == affine(v, a, b)[m]@);
		let (x, k, c, t) = (v[m]@, ws[m]@, csum_from(v, ws, m + 1), sum(ws.subrange(m + 1, ws.len() as int)));
		assert((a * x + b) * k + (a * c + b * t) == a * (x * k + c) + b * (t + k)) by(nonlinear_arith);
	}
}
pub proof fn conv_affine_img(w: Seq<R>, v: Seq<R>, ws: Seq<R>, a: real, b: real)
	requires img_of(w, v, a, b), ws.len() == v.len(), sum(ws) != 0real
	ensures Conv::def(w, ws) == a * Conv::def(v, ws) + b
{
	lemma_csum_affine(w, v, ws, 0, a, b);
	assert(ws.subrange(0, ws.len() as int) =~= ws);
	let (c, s) = (csum_from(v, ws, 0), sum(ws));
	assert((a * c + b * s) / s == a * (c / s) + b) by(nonlinear_arith) requires s != 0real;
}
pub proof fn lemma_csum_bounds(v: Seq<R>, ws: Seq<R>, m: int, lo: real, hi: real)
	requires all_within(v, lo, hi), ws.len() == v.len(), 0 <= m <= v.len(), forall|i: int| 0 <= i < ws.len() ==> (#[trigger] ws[i])@ >= 0real
	ensures lo * sum(ws.subrange(m, ws.len() as int)) <= csum_from(v, ws, m) <= hi * sum(ws.subrange(m, ws.len() as int)), sum(ws.subrange(m, ws.len() as int)) >= 0real
	decreases v.len() - m
{
	let tail = ws.subrange(m, ws.len() as int);
	if m >= v.len() {
		assert(tail.len() == 0);
		assert(lo * 0real == 0real && hi * 0real == 0real) by(nonlinear_arith);
	} else {
		lemma_csum_bounds(v, ws, m + 1, lo, hi);
		lemma_sum_tail(tail);
		assert(tail.drop_first() =~= ws.subrange(m + 1, ws.len() as int));
		assert(tail[0] == ws[m]);
		let (x, k, t) = (v[m]@, ws[m]@, sum(ws.subrange(m + 1, ws.len() as int)));
		assert(lo * k <= x * k && x * k <= hi * k) by(nonlinear_arith) requires lo <= x, x <= hi, k >= 0real;
		assert(lo * (t + k) == lo * t + lo * k && hi * (t + k) == hi * t + hi * k) by(nonlinear_arith);
	}
}
pub proof fn conv_range(v: Seq<R>, ws: Seq<R>, lo: real, hi: real)
	requires all_within(v, lo, hi), ws.len() == v.len(), forall|i: int| 0 <= i < ws.len() ==> (#[trigger] ws[i])@ >= 0real, sum(ws) != 0real
	ensures lo <= Conv::def(v, ws) <= hi
{
	lemma_csum_bounds(v, ws, 0, lo, hi);
	assert(ws.subrange(0, ws.len() as int) =~= ws);
	let (c, s) = (csum_from(v, ws, 0), sum(ws));
	assert(lo <= c / s && c / s <= hi) by(nonlinear_arith) requires s > 0real, lo * s <= c, c <= hi * s;
}

// ---------------------------------------------------------------- the EMA family and the compositions: relational one-step lemmas
pub open spec fn ema_rel(p1: &EMA, p2: &EMA, a: real, b: real) -> bool { p2.alpha@ == p1.alpha@ && p2.value@ == a * p1.value@ + b }
pub proof fn ema_affine_rel(p1: &EMA, x1: R, q1: &EMA, o1: R, p2: &EMA, x2: R, q2: &EMA, o2: R, a: real, b: real)
	requires ema_rel(p1, p2, a, b), x2@ == a * x1@ + b, EMA::step(p1, &x1, q1, &o1), EMA::step(p2, &x2, q2, &o2)
	ensures o2@ == a * o1@ + b, ema_rel(q1, q2, a, b)
{
	let (al, v, xx) = (p1.alpha@, p1.value@, x1@);
	assert(a * (v + al * (xx - v)) + b == (a * v + b) + al * ((a * xx + b) - (a * v + b))) by(nonlinear_arith);
}
pub proof fn rma_affine_rel(p1: &RMA, x1: R, q1: &RMA, o1: R, p2: &RMA, x2: R, q2: &RMA, o2: R, a: real, b: real)
	requires p2.alpha@ == p1.alpha@, p2.prev_value@ == a * p1.prev_value@ + b, x2@ == a * x1@ + b, RMA::step(p1, &x1, q1, &o1), RMA::step(p2, &x2, q2, &o2)
	ensures o2@ == a * o1@ + b, q2.alpha@ == q1.alpha@, q2.prev_value@ == a * q1.prev_value@ + b
{
	let (al, v, xx) = (p1.alpha@, p1.prev_value@, x1@);
	// single distributions (one cubic identity in five variables does not come back)
	let u = 1real - al;
	assert(al * (a * xx + b) == a * (al * xx) + al * b) by(nonlinear_arith);
	assert(u * (a * v + b) == a * (u * v) + u * b) by(nonlinear_arith);
	assert(al * b + u * b == b) by(nonlinear_arith) requires u == 1real - al;
	assert(a * (al * xx) + a * (u * v) == a * (al * xx + u * v)) by(nonlinear_arith);
}
pub proof fn wsma_affine_rel(p1: &WSMA, x1: R, q1: &WSMA, o1: R, p2: &WSMA, x2: R, q2: &WSMA, o2: R, a: real, b: real)
	requires ema_rel(&p1.0, &p2.0, a, b), x2@ == a * x1@ + b, WSMA::step(p1, &x1, q1, &o1), WSMA::step(p2, &x2, q2, &o2)
	ensures o2@ == a * o1@ + b, ema_rel(&q1.0, &q2.0, a, b)
{
	ema_affine_rel(&p1.0, x1, &q1.0, o1, &p2.0, x2, &q2.0, o2, a, b);
}
pub open spec fn dma_rel(p1: &DMA, p2: &DMA, a: real, b: real) -> bool { ema_rel(&p1.ema, &p2.ema, a, b) && ema_rel(&p1.dma, &p2.dma, a, b) }
pub proof fn dma_affine_rel(p1: &DMA, x1: R, q1: &DMA, o1: R, p2: &DMA, x2: R, q2: &DMA, o2: R, a: real, b: real)
	requires dma_rel(p1, p2, a, b), x2@ == a * x1@ + b, DMA::step(p1, &x1, q1, &o1), DMA::step(p2, &x2, q2, &o2)
	ensures o2@ == a * o1@ + b, dma_rel(q1, q2, a, b)
{
	ema_affine_rel(&p1.ema, x1, &q1.ema, q1.ema.value, &p2.ema, x2, &q2.ema, q2.ema.value, a, b);
	ema_affine_rel(&p1.dma, q1.ema.value, &q1.dma, o1, &p2.dma, q2.ema.value, &q2.dma, o2, a, b);
}
pub open spec fn tma_rel(p1: &TMA, p2: &TMA, a: real, b: real) -> bool { dma_rel(&p1.dma, &p2.dma, a, b) && ema_rel(&p1.tma, &p2.tma, a, b) }
pub proof fn tma_affine_rel(p1: &TMA, x1: R, q1: &TMA, o1: R, p2: &TMA, x2: R, q2: &TMA, o2: R, a: real, b: real)
	requires tma_rel(p1, p2, a, b), x2@ == a * x1@ + b, TMA::step(p1, &x1, q1, &o1), TMA::step(p2, &x2, q2, &o2)
	ensures o2@ == a * o1@ + b, tma_rel(q1, q2, a, b)
{
	dma_affine_rel(&p1.dma, x1, &q1.dma, q1.dma.dma.value, &p2.dma, x2, &q2.dma, q2.dma.dma.value, a, b);
	ema_affine_rel(&p1.tma, q1.dma.dma.value, &q1.tma, o1, &p2.tma, q2.dma.dma.value, &q2.tma, o2, a, b);
}
pub proof fn dema_affine_rel(p1: &DEMA, x1: R, q1: &DEMA, o1: R, p2: &DEMA, x2: R, q2: &DEMA, o2: R, a: real, b: real)
	requires ema_rel(&p1.ema, &p2.ema, a, b), ema_rel(&p1.dma, &p2.dma, a, b), x2@ == a * x1@ + b, DEMA::step(p1, &x1, q1, &o1), DEMA::step(p2, &x2, q2, &o2)
	ensures o2@ == a * o1@ + b, ema_rel(&q1.ema, &q2.ema, a, b), ema_rel(&q1.dma, &q2.dma, a, b)
{
	ema_affine_rel(&p1.ema, x1, &q1.ema, q1.ema.value, &p2.ema, x2, &q2.ema, q2.ema.value, a, b);
	ema_affine_rel(&p1.dma, q1.ema.value, &q1.dma, q1.dma.value, &p2.dma, q2.ema.value, &q2.dma, q2.dma.value, a, b);
	let (e, d) = (q1.ema.value@, q1.dma.value@);
	assert(2real * (a * e + b) - (a * d + b) == a * (2real * e - d) + b) by(nonlinear_arith);
}
pub proof fn tema_affine_rel(p1: &TEMA, x1: R, q1: &TEMA, o1: R, p2: &TEMA, x2: R, q2: &TEMA, o2: R, a: real, b: real)
	requires ema_rel(&p1.ema, &p2.ema, a, b), ema_rel(&p1.dma, &p2.dma, a, b), ema_rel(&p1.tma, &p2.tma, a, b), x2@ == a * x1@ + b,
		TEMA::step(p1, &x1, q1, &o1), TEMA::step(p2, &x2, q2, &o2)
	ensures o2@ == a * o1@ + b, ema_rel(&q1.ema, &q2.ema, a, b), ema_rel(&q1.dma, &q2.dma, a, b), ema_rel(&q1.tma, &q2.tma, a, b)
{
	ema_affine_rel(&p1.ema, x1, &q1.ema, q1.ema.value, &p2.ema, x2, &q2.ema, q2.ema.value, a, b);
	ema_affine_rel(&p1.dma, q1.ema.value, &q1.dma, q1.dma.value, &p2.dma, q2.ema.value, &q2.dma, q2.dma.value, a, b);
	ema_affine_rel(&p1.tma, q1.dma.value, &q1.tma, q1.tma.value, &p2.tma, q2.dma.value, &q2.tma, q2.tma.value, a, b);
	let (e, d, t) = (q1.ema.value@, q1.dma.value@, q1.tma.value@);
	assert(3real * ((a * e + b) - (a * d + b)) + (a * t + b) == a * (3real * (e - d) + t) + b) by(nonlinear_arith);
}
// TRIMA = SMA of SMA, HMA = WMA(2*WMA(n/2) - WMA(n)) over sqrt(n): compositions of window averages
pub open spec fn trima_rel(p1: &TRIMA, p2: &TRIMA, a: real, b: real) -> bool {
	img_of(p2.sma1.window.view(), p1.sma1.window.view(), a, b) && img_of(p2.sma2.window.view(), p1.sma2.window.view(), a, b)
}
pub proof fn trima_affine_rel(p1: &TRIMA, x1: R, q1: &TRIMA, o1: R, p2: &TRIMA, x2: R, q2: &TRIMA, o2: R, a: real, b: real)
	requires p1.inv(), p2.inv(), trima_rel(p1, p2, a, b), x2@ == a * x1@ + b, TRIMA::step(p1, &x1, q1, &o1), TRIMA::step(p2, &x2, q2, &o2)
	ensures o2@ == a * o1@ + b, trima_rel(q1, q2, a, b)
{
	lemma_img_slide(p2.sma1.window.view(), p1.sma1.window.view(), x2, x1, a, b);
	sma_affine_img(q2.sma1.window.view(), q1.sma1.window.view(), a, b);
	lemma_img_slide(p2.sma2.window.view(), p1.sma2.window.view(), q2.sma1.value, q1.sma1.value, a, b);
	sma_affine_img(q2.sma2.window.view(), q1.sma2.window.view(), a, b);
}
pub open spec fn hma_rel(p1: &HMA, p2: &HMA, a: real, b: real) -> bool {
	img_of(p2.wma1.window.view(), p1.wma1.window.view(), a, b) && img_of(p2.wma2.window.view(), p1.wma2.window.view(), a, b)
		&& img_of(p2.wma3.window.view(), p1.wma3.window.view(), a, b)
}
pub proof fn hma_affine_rel(p1: &HMA, x1: R, q1: &HMA, o1: R, p2: &HMA, x2: R, q2: &HMA, o2: R, a: real, b: real)
	requires p1.inv(), p2.inv(), hma_rel(p1, p2, a, b), x2@ == a * x1@ + b, HMA::step(p1, &x1, q1, &o1), HMA::step(p2, &x2, q2, &o2)
	ensures o2@ == a * o1@ + b, hma_rel(q1, q2, a, b)
{
	let (u1, u2, d1) = choose|w1: ValueType, w2: ValueType, d: ValueType| #[trigger] hma_parts(p1, &x1, q1, &o1, w1, w2, d);
	let (v1, v2, d2) = choose|w1: ValueType, w2: ValueType, d: ValueType| #[trigger] hma_parts(p2, &x2, q2, &o2, w1, w2, d);
	lemma_img_slide(p2.wma1.window.view(), p1.wma1.window.view(), x2, x1, a, b);
	wma_affine_img(q2.wma1.window.view(), q1.wma1.window.view(), a, b);
	lemma_img_slide(p2.wma2.window.view(), p1.wma2.window.view(), x2, x1, a, b);
	wma_affine_img(q2.wma2.window.view(), q1.wma2.window.view(), a, b);
	assert(2real * (a * u1@ + b) - (a * u2@ + b) == a * (2real * u1@ - u2@) + b) by(nonlinear_arith);
	lemma_img_slide(p2.wma3.window.view(), p1.wma3.window.view(), d2, d1, a, b);
	wma_affine_img(q2.wma3.window.view(), q1.wma3.window.view(), a, b);
}

// ---------------------------------------------------------------- SMM: the median commutes with affine maps (a < 0 reverses the order, the middle stays the middle)
pub open spec fn rev(u: Seq<R>) -> Seq<R> { Seq::new(u.len(), |i: int| u[u.len() - 1 - i]) }
pub proof fn lemma_cnt_rev(u: Seq<R>, x: real)
	ensures cnt(rev(u), x) == cnt(u, x)
	decreases u.len()
{
	if u.len() > 0 {
		let d = u.drop_last();
		lemma_cnt_rev(d, x);
		assert(rev(u) =~= seq![u.last()] + rev(d));
		lemma_cnt_concat(seq![u.last()], rev(d), x);
		lemma_cnt_single(u.last(), x);
	}
}
pub proof fn lemma_cnt_cong(s: Seq<R>, t: Seq<R>, x: real)
	requires veq(s, t)
	ensures cnt(s, x) == cnt(t, x)
	decreases s.len()
{
	if s.len() > 0 { lemma_cnt_cong(s.drop_last(), t.drop_last(), x); }
}
// an injective affine map moves the counts along
pub proof fn lemma_cnt_affine(s: Seq<R>, a: real, b: real, x: real)
	requires a != 0real
	ensures cnt(affine(s, a, b), a * x + b) == cnt(s, x)
	decreases s.len()
{
	if s.len() > 0 {
		lemma_cnt_affine(s.drop_last(), a, b, x);
		assert(affine(s, a, b).drop_last() =~= affine(s.drop_last(), a, b));
		let v = s.last()@;
		assert((a * v + b == a * x + b) == (v == x)) by(nonlinear_arith) requires a != 0real;
	}
}
pub proof fn lemma_cnt_flat(s: Seq<R>, b: real, y: real)
	requires forall|i: int| 0 <= i < s.len() ==> (#[trigger] s[i])@ == b
	ensures cnt(s, y) == (if y == b { s.len() } else { 0nat })
	decreases s.len()
{
	if s.len() > 0 { lemma_cnt_flat(s.drop_last(), b, y); }
}
pub proof fn lemma_perm_affine(s: Seq<R>, t: Seq<R>, a: real, b: real)
	requires perm(s, t)
	ensures perm(affine(s, a, b), affine(t, a, b))
{
	let (s2, t2) = (affine(s, a, b), affine(t, a, b));
	assert forall|y: real| cnt(s2, y) == cnt(t2, y) by {
		if a != 0real {
			let x = (y - b) / a;
			assert(a * x + b == y) by(nonlinear_arith) requires x == (y - b) / a, a != 0real;
			lemma_cnt_affine(s, a, b, x);
			lemma_cnt_affine(t, a, b, x);
		} else {
			assert forall|i: int| 0 <= i < s2.len() implies (#[trigger] s2[i])@ == b by { assert(0real * s[i]@ == 0real) by(nonlinear_arith); }
			assert forall|i: int| 0 <= i < t2.len() implies (#[trigger] t2[i])@ == b by { assert(0real * t[i]@ == 0real) by(nonlinear_arith); }
			lemma_cnt_flat(s2, b, y);
			lemma_cnt_flat(t2, b, y);
		}
	}
}
pub proof fn median_affine(view: Seq<R>, w: Seq<R>, m: real, a: real, b: real)
	requires view.len() >= 1, img_of(w, view, a, b), is_median(view, m)
	ensures is_median(w, a * m + b)
{
	let n = view.len() as int;
	let s = choose|s: Seq<R>| sorted(s) && #[trigger] perm(s, view) && m == (s[n / 2]@ + s[if n % 2 == 0 { n / 2 - 1 } else { n / 2 }]@) / 2real;
	let k = if n % 2 == 0 { n / 2 - 1 } else { n / 2 };
	let im = affine(s, a, b);
	lemma_perm_affine(s, view, a, b);
	// counts of w are those of affine(view)
	assert forall|y: real| cnt(affine(view, a, b), y) == cnt(w, y) by { lemma_cnt_cong(w, affine(view, a, b), y); }
	let (p, q) = (s[n / 2]@, s[k]@);
	assert(((a * p + b) + (a * q + b)) / 2real == a * ((p + q) / 2real) + b) by(nonlinear_arith);
	if a >= 0real {
		assert forall|i: int, j: int| 0 <= i < j < im.len() implies im[i]@ <= im[j]@ by {
			assert(a * s[i]@ <= a * s[j]@) by(nonlinear_arith) requires a >= 0real, s[i]@ <= s[j]@;
		}
		assert(sorted(im) && perm(im, w));
		assert(im[n / 2]@ == a * p + b && im[k]@ == a * q + b);
	} else {
		let r = rev(im);
		assert forall|i: int, j: int| 0 <= i < j < r.len() implies r[i]@ <= r[j]@ by {
			let (i2, j2) = (n - 1 - i, n - 1 - j);
			assert(s[j2]@ <= s[i2]@);
			assert(a * s[i2]@ <= a * s[j2]@) by(nonlinear_arith) requires a < 0real, s[j2]@ <= s[i2]@;
		}
		assert forall|y: real| cnt(r, y) == cnt(w, y) by { lemma_cnt_rev(im, y); }
		assert(sorted(r) && perm(r, w));
		// the two middle positions swap (even length) or stay (odd length)
		if n % 2 == 0 {
			assert(n - 1 - n / 2 == n / 2 - 1 && n - 1 - (n / 2 - 1) == n / 2);
			assert(r[n / 2]@ == a * q + b && r[k]@ == a * p + b);
		} else {
			assert(n - 1 - n / 2 == n / 2);
			assert(r[n / 2]@ == a * p + b && r[k]@ == a * p + b);
		}
	}
}
pub proof fn smm_affine_rel(p1: &SMM, x1: R, q1: &SMM, o1: R, p2: &SMM, x2: R, q2: &SMM, o2: R, a: real, b: real)
	requires p1.inv(), p2.inv(), img_of(p2.window.view(), p1.window.view(), a, b), x2@ == a * x1@ + b, SMM::step(p1, &x1, q1, &o1), SMM::step(p2, &x2, q2, &o2)
	ensures img_of(q2.window.view(), q1.window.view(), a, b), is_median(q2.window.view(), a * o1@ + b)
{
	lemma_img_slide(p2.window.view(), p1.window.view(), x2, x1, a, b);
	median_affine(q1.window.view(), q2.window.view(), o1@, a, b);
}

// ---------------------------------------------------------------- Vidya: the adaptive factor |CMO| is scale- and shift-free, so the recurrence is affine-equivariant
pub open spec fn scaled(w: Seq<R>, v: Seq<R>, a: real) -> bool { w.len() == v.len() && forall|i: int| 0 <= i < v.len() ==> (#[trigger] w[i])@ == a * v[i]@ }
// sums of the positive / negative parts under scaling: kept for a > 0, swapped for a < 0
pub proof fn lemma_updn_scaled(w: Seq<R>, v: Seq<R>, a: real)
	requires scaled(w, v, a)
	ensures
		a >= 0real ==> fsum(w, pos_fn()) == a * fsum(v, pos_fn()) && fsum(w, neg_fn()) == a * fsum(v, neg_fn()),
		a < 0real ==> fsum(w, pos_fn()) == (-a) * fsum(v, neg_fn()) && fsum(w, neg_fn()) == (-a) * fsum(v, pos_fn()),
	decreases v.len()
{
	if v.len() == 0 {
		assert(a * 0real == 0real && (-a) * 0real == 0real) by(nonlinear_arith);
	} else {
		lemma_updn_scaled(w.drop_last(), v.drop_last(), a);
		let (c, d) = (v.last()@, w.last()@);
		assert(d == a * c);
		let (pc, nc) = (rmax(c, 0real), rmax(-c, 0real));
		assert(pos_fn()(v.last()) == pc && neg_fn()(v.last()) == nc && pos_fn()(w.last()) == rmax(d, 0real) && neg_fn()(w.last()) == rmax(-d, 0real));
		let (up, dn) = (fsum(v.drop_last(), pos_fn()), fsum(v.drop_last(), neg_fn()));
		if a >= 0real {
			assert(rmax(a * c, 0real) == a * pc && rmax(-(a * c), 0real) == a * nc) by(nonlinear_arith) requires a >= 0real, pc == rmax(c, 0real), nc == rmax(-c, 0real);
			assert(a * up + a * pc == a * (up + pc) && a * dn + a * nc == a * (dn + nc)) by(nonlinear_arith);
		} else {
			let m = -a;
			assert(rmax(a * c, 0real) == m * nc && rmax(-(a * c), 0real) == m * pc) by(nonlinear_arith) requires a < 0real, m == -a, pc == rmax(c, 0real), nc == rmax(-c, 0real);
			assert(m * dn + m * nc == m * (dn + nc) && m * up + m * pc == m * (up + pc)) by(nonlinear_arith);
		}
	}
}
pub open spec fn vidya_rel(p1: &Vidya, p2: &Vidya, a: real, b: real) -> bool {
	&&& p2.f@ == p1.f@ && scaled(p2.window.view(), p1.window.view(), a)
	&&& p2.last_input@ == a * p1.last_input@ + b && p2.last_output@ == a * p1.last_output@ + b
}
pub proof fn vidya_affine_rel(p1: &Vidya, x1: R, q1: &Vidya, o1: R, p2: &Vidya, x2: R, q2: &Vidya, o2: R, a: real, b: real)
	requires p1.inv(), p2.inv(), vidya_rel(p1, p2, a, b), x2@ == a * x1@ + b, Vidya::step(p1, &x1, q1, &o1), Vidya::step(p2, &x2, q2, &o2)
	ensures o2@ == a * o1@ + b, vidya_rel(q1, q2, a, b)
{
	let (v1, v2) = (q1.window.view(), q2.window.view());
	// the newest change scales by a (the shift cancels), the older ones were related before
	assert(v2.last()@ == a * v1.last()@) by {
		let (x, l) = (x1@, p1.last_input@);
		assert((a * x + b) - (a * l + b) == a * (x - l)) by(nonlinear_arith);
	}
	assert forall|i: int| 0 <= i < v1.len() implies (#[trigger] v2[i])@ == a * v1[i]@ by {
		if i < v1.len() - 1 {
			assert(v2[i] == v2.drop_last()[i] && v1[i] == v1.drop_last()[i]);
			assert(v2.drop_last()[i] == p2.window.view().drop_first()[i] && v1.drop_last()[i] == p1.window.view().drop_first()[i]);
		}
	}
	lemma_updn_scaled(v2, v1, a);
	let (u1, d1, u2, d2) = (fsum(v1, pos_fn()), fsum(v1, neg_fn()), fsum(v2, pos_fn()), fsum(v2, neg_fn()));
	let (x, lo) = (x1@, p1.last_output@);
	if a == 0real {
		assert(u2 == 0real && d2 == 0real) by(nonlinear_arith) requires u2 == a * u1, d2 == a * d1, a == 0real;
		assert(a * o1@ == 0real && a * x == 0real) by(nonlinear_arith) requires a == 0real;
	} else {
		let m = rabs(a);
		let (s1, s2) = (u1 + d1, u2 + d2);
		assert(s2 == m * s1) by(nonlinear_arith) requires s1 == u1 + d1, s2 == u2 + d2, m == rabs(a), (a >= 0real ==> u2 == a * u1 && d2 == a * d1), (a < 0real ==> u2 == (-a) * d1 && d2 == (-a) * u1);
		assert((s2 == 0real) == (s1 == 0real)) by(nonlinear_arith) requires s2 == m * s1, m > 0real;
		if s1 != 0real {
			let (t1, t2) = (u1 - d1, u2 - d2);
			assert(t2 == a * t1) by(nonlinear_arith) requires t1 == u1 - d1, t2 == u2 - d2, (a >= 0real ==> u2 == a * u1 && d2 == a * d1), (a < 0real ==> u2 == (-a) * d1 && d2 == (-a) * u1);
			// the quotient changes at most its sign
			let (q1r, q2r) = (t1 / s1, t2 / s2);
			assert(q2r == (if a > 0real { q1r } else { -q1r })) by(nonlinear_arith)
				requires q1r == t1 / s1, q2r == t2 / s2, t2 == a * t1, s2 == m * s1, m == rabs(a), a != 0real, s1 != 0real;
			assert(rabs(q2r) == rabs(q1r));
			let k = p1.f@ * rabs(q1r);
			assert((a * x + b) * k + (1real - k) * (a * lo + b) == a * (x * k + (1real - k) * lo) + b) by {
				let u = 1real - k;
				assert((a * x + b) * k == a * (x * k) + b * k) by(nonlinear_arith);
				assert(u * (a * lo + b) == a * (u * lo) + b * u) by(nonlinear_arith);
				assert(b * k + b * u == b) by(nonlinear_arith) requires u == 1real - k;
				assert(a * (x * k) + a * (u * lo) == a * (x * k + u * lo)) by(nonlinear_arith);
			}
		}
	}
}

// ==================================================================== superposition for the linear kinds (same metamorphic form: three instances,
// the third holding the sums of what the first two hold, stepped on x, y and x+y)
pub open spec fn sum_of(w: Seq<R>, u: Seq<R>, v: Seq<R>) -> bool { u.len() == v.len() && veq(w, plus(u, v)) }
pub proof fn lemma_sum_of_slide(w: Seq<R>, u: Seq<R>, v: Seq<R>, z: R, x: R, y: R)
	requires sum_of(w, u, v), u.len() >= 1, z@ == x@ + y@
	ensures sum_of(w.drop_first().push(z), u.drop_first().push(x), v.drop_first().push(y))
{
	let (w2, u2, v2) = (w.drop_first().push(z), u.drop_first().push(x), v.drop_first().push(y));
	let pl = plus(u2, v2);
	assert forall|i: int| 0 <= i < w2.len() implies (#[trigger] w2[i])@ == pl[i]@ by {
		if i < w2.len() - 1 { assert(w2[i] == w[i + 1] && u2[i] == u[i + 1] && v2[i] == v[i + 1]); assert(w[i + 1]@ == plus(u, v)[i + 1]@); }
	}
}
pub proof fn lemma_dsum_plus(s: Seq<R>, t: Seq<R>)
	requires s.len() == t.len()
	ensures dsum(plus(s, t)) == dsum(s) + dsum(t)
	decreases s.len()
{
	if s.len() > 0 {
		lemma_dsum_plus(s.drop_first(), t.drop_first());
		assert(plus(s, t).drop_first() =~= plus(s.drop_first(), t.drop_first()));
		let (n, x, y) = (s.len() as real, s[0]@, t[0]@);
		assert(n * (x + y) == n * x + n * y) by(nonlinear_arith);
	}
}
pub proof fn lemma_asum_plus(s: Seq<R>, t: Seq<R>)
	requires s.len() == t.len()
	ensures asum(plus(s, t)) == asum(s) + asum(t)
	decreases s.len()
{
	if s.len() > 0 {
		lemma_asum_plus(s.drop_last(), t.drop_last());
		lemma_sum_plus(s.drop_last(), t.drop_last());
		assert(plus(s, t).drop_last() =~= plus(s.drop_last(), t.drop_last()));
	}
}
pub proof fn sma_plus_img(w: Seq<R>, u: Seq<R>, v: Seq<R>)
	requires u.len() >= 1, sum_of(w, u, v)
	ensures SMA::def(w) == SMA::def(u) + SMA::def(v)
{
	lemma_sum_cong(w, plus(u, v));
	sma_superposition(u, v);
}
pub proof fn wma_plus_img(w: Seq<R>, u: Seq<R>, v: Seq<R>)
	requires u.len() >= 1, sum_of(w, u, v)
	ensures WMA::def(w) == WMA::def(u) + WMA::def(v)
{
	lemma_wsum_cong(w, plus(u, v));
	wma_superposition(u, v);
}
pub proof fn swma_plus_img(l3: Seq<R>, r3: Seq<R>, l1: Seq<R>, r1: Seq<R>, l2: Seq<R>, r2: Seq<R>)
	requires l1.len() >= 1, sum_of(l3, l1, l2), sum_of(r3, r1, r2)
	ensures SWMA::def(l3, r3) == SWMA::def(l1, r1) + SWMA::def(l2, r2)
{
	lemma_wsum_cong(l3, plus(l1, l2)); lemma_dsum_cong(r3, plus(r1, r2));
	lemma_wsum_plus(l1, l2); lemma_dsum_plus(r1, r2);
	lemma_tri(l1.len() as int); lemma_tri(r1.len() as int);
	let t = (tri(l1.len() as int) + tri(r1.len() as int)) as real;
	let (p, q) = (wsum(l1) + dsum(r1), wsum(l2) + dsum(r2));
	assert((p + q) / t == p / t + q / t) by(nonlinear_arith) requires t >= 1real;
}
pub proof fn linreg_plus_img(w: Seq<R>, u: Seq<R>, v: Seq<R>)
	requires u.len() >= 2, sum_of(w, u, v)
	ensures LinReg::def(w) == LinReg::def(u) + LinReg::def(v)
{
	let pl = plus(u, v);
	lemma_sum_cong(w, pl); lemma_asum_cong(w, pl);
	lemma_sum_plus(u, v); lemma_asum_plus(u, v);
	let n = u.len() as int;
	lemma_linreg_ints(n);
	let (nr, t, d) = (n as real, tri(n - 1) as real, LinReg::det(n));
	let (s1, p1, s2, p2) = (sum(u), asum(u), sum(v), asum(v));
	let (n1, n2) = (nr * p1 - t * s1, nr * p2 - t * s2);
	assert(nr * (p1 + p2) - t * (s1 + s2) == n1 + n2) by(nonlinear_arith) requires n1 == nr * p1 - t * s1, n2 == nr * p2 - t * s2;
	assert((n1 + n2) / d == n1 / d + n2 / d) by(nonlinear_arith) requires d >= 1real;
	let (k1, k2) = (n1 / d, n2 / d);
	assert(LinReg::slope(w) == k1 + k2);
	let (m1, m2) = (s1 - k1 * t, s2 - k2 * t);
	assert((s1 + s2) - (k1 + k2) * t == m1 + m2) by(nonlinear_arith) requires m1 == s1 - k1 * t, m2 == s2 - k2 * t;
	assert((m1 + m2) / nr == m1 / nr + m2 / nr) by(nonlinear_arith) requires nr >= 2real;
}
pub proof fn lemma_csum_plus(w: Seq<R>, u: Seq<R>, v: Seq<R>, ws: Seq<R>, m: int)
	requires sum_of(w, u, v), ws.len() == u.len(), 0 <= m <= u.len()
	ensures csum_from(w, ws, m) == csum_from(u, ws, m) + csum_from(v, ws, m)
	decreases u.len() - m
{
	if m < u.len() {
		lemma_csum_plus(w, u, v, ws, m + 1);
		assert(w[m]@ == plus(u, v)[m]@);
		let (x, y, k) = (u[m]@, v[m]@, ws[m]@);
		assert((x + y) * k == x * k + y * k) by(nonlinear_arith);
	}
}
pub proof fn conv_plus_img(w: Seq<R>, u: Seq<R>, v: Seq<R>, ws: Seq<R>)
	requires sum_of(w, u, v), ws.len() == u.len(), sum(ws) != 0real
	ensures Conv::def(w, ws) == Conv::def(u, ws) + Conv::def(v, ws)
{
	lemma_csum_plus(w, u, v, ws, 0);
	let (p, q, s) = (csum_from(u, ws, 0), csum_from(v, ws, 0), sum(ws));
	assert((p + q) / s == p / s + q / s) by(nonlinear_arith) requires s != 0real;
}
pub open spec fn ema_sum(p1: &EMA, p2: &EMA, p3: &EMA) -> bool { p2.alpha@ == p1.alpha@ && p3.alpha@ == p1.alpha@ && p3.value@ == p1.value@ + p2.value@ }
pub proof fn ema_plus_rel(p1: &EMA, x1: R, q1: &EMA, o1: R, p2: &EMA, x2: R, q2: &EMA, o2: R, p3: &EMA, x3: R, q3: &EMA, o3: R)
	requires ema_sum(p1, p2, p3), x3@ == x1@ + x2@, EMA::step(p1, &x1, q1, &o1), EMA::step(p2, &x2, q2, &o2), EMA::step(p3, &x3, q3, &o3)
	ensures o3@ == o1@ + o2@, ema_sum(q1, q2, q3)
{
	let (al, v1, v2, a, b) = (p1.alpha@, p1.value@, p2.value@, x1@, x2@);
	assert((v1 + al * (a - v1)) + (v2 + al * (b - v2)) == (v1 + v2) + al * ((a + b) - (v1 + v2))) by(nonlinear_arith);
}
pub proof fn rma_plus_rel(p1: &RMA, x1: R, q1: &RMA, o1: R, p2: &RMA, x2: R, q2: &RMA, o2: R, p3: &RMA, x3: R, q3: &RMA, o3: R)
	requires p2.alpha@ == p1.alpha@, p3.alpha@ == p1.alpha@, p3.prev_value@ == p1.prev_value@ + p2.prev_value@, x3@ == x1@ + x2@,
		RMA::step(p1, &x1, q1, &o1), RMA::step(p2, &x2, q2, &o2), RMA::step(p3, &x3, q3, &o3)
	ensures o3@ == o1@ + o2@, q3.prev_value@ == q1.prev_value@ + q2.prev_value@, q2.alpha@ == q1.alpha@, q3.alpha@ == q1.alpha@
{
	let (al, v1, v2, a, b) = (p1.alpha@, p1.prev_value@, p2.prev_value@, x1@, x2@);
	let u = 1real - al;
	assert(al * (a + b) == al * a + al * b) by(nonlinear_arith);
	assert(u * (v1 + v2) == u * v1 + u * v2) by(nonlinear_arith);
}
pub open spec fn dma_sum(p1: &DMA, p2: &DMA, p3: &DMA) -> bool { ema_sum(&p1.ema, &p2.ema, &p3.ema) && ema_sum(&p1.dma, &p2.dma, &p3.dma) }
pub proof fn dma_plus_rel(p1: &DMA, x1: R, q1: &DMA, o1: R, p2: &DMA, x2: R, q2: &DMA, o2: R, p3: &DMA, x3: R, q3: &DMA, o3: R)
	requires dma_sum(p1, p2, p3), x3@ == x1@ + x2@, DMA::step(p1, &x1, q1, &o1), DMA::step(p2, &x2, q2, &o2), DMA::step(p3, &x3, q3, &o3)
	ensures o3@ == o1@ + o2@, dma_sum(q1, q2, q3)
{
	ema_plus_rel(&p1.ema, x1, &q1.ema, q1.ema.value, &p2.ema, x2, &q2.ema, q2.ema.value, &p3.ema, x3, &q3.ema, q3.ema.value);
	ema_plus_rel(&p1.dma, q1.ema.value, &q1.dma, o1, &p2.dma, q2.ema.value, &q2.dma, o2, &p3.dma, q3.ema.value, &q3.dma, o3);
}
pub proof fn tma_plus_rel(p1: &TMA, x1: R, q1: &TMA, o1: R, p2: &TMA, x2: R, q2: &TMA, o2: R, p3: &TMA, x3: R, q3: &TMA, o3: R)
	requires dma_sum(&p1.dma, &p2.dma, &p3.dma), ema_sum(&p1.tma, &p2.tma, &p3.tma), x3@ == x1@ + x2@,
		TMA::step(p1, &x1, q1, &o1), TMA::step(p2, &x2, q2, &o2), TMA::step(p3, &x3, q3, &o3)
	ensures o3@ == o1@ + o2@, dma_sum(&q1.dma, &q2.dma, &q3.dma), ema_sum(&q1.tma, &q2.tma, &q3.tma)
{
	dma_plus_rel(&p1.dma, x1, &q1.dma, q1.dma.dma.value, &p2.dma, x2, &q2.dma, q2.dma.dma.value, &p3.dma, x3, &q3.dma, q3.dma.dma.value);
	ema_plus_rel(&p1.tma, q1.dma.dma.value, &q1.tma, o1, &p2.tma, q2.dma.dma.value, &q2.tma, o2, &p3.tma, q3.dma.dma.value, &q3.tma, o3);
}
pub proof fn dema_plus_rel(p1: &DEMA, x1: R, q1: &DEMA, o1: R, p2: &DEMA, x2: R, q2: &DEMA, o2: R, p3: &DEMA, x3: R, q3: &DEMA, o3: R)
	requires ema_sum(&p1.ema, &p2.ema, &p3.ema), ema_sum(&p1.dma, &p2.dma, &p3.dma), x3@ == x1@ + x2@,
		DEMA::step(p1, &x1, q1, &o1), DEMA::step(p2, &x2, q2, &o2), DEMA::step(p3, &x3, q3, &o3)
	ensures o3@ == o1@ + o2@, ema_sum(&q1.ema, &q2.ema, &q3.ema), ema_sum(&q1.dma, &q2.dma, &q3.dma)
{
	ema_plus_rel(&p1.ema, x1, &q1.ema, q1.ema.value, &p2.ema, x2, &q2.ema, q2.ema.value, &p3.ema, x3, &q3.ema, q3.ema.value);
	ema_plus_rel(&p1.dma, q1.ema.value, &q1.dma, q1.dma.value, &p2.dma, q2.ema.value, &q2.dma, q2.dma.value, &p3.dma, q3.ema.value, &q3.dma, q3.dma.value);
}
pub proof fn tema_plus_rel(p1: &TEMA, x1: R, q1: &TEMA, o1: R, p2: &TEMA, x2: R, q2: &TEMA, o2: R, p3: &TEMA, x3: R, q3: &TEMA, o3: R)
	requires ema_sum(&p1.ema, &p2.ema, &p3.ema), ema_sum(&p1.dma, &p2.dma, &p3.dma), ema_sum(&p1.tma, &p2.tma, &p3.tma), x3@ == x1@ + x2@,
		TEMA::step(p1, &x1, q1, &o1), TEMA::step(p2, &x2, q2, &o2), TEMA::step(p3, &x3, q3, &o3)
	ensures o3@ == o1@ + o2@, ema_sum(&q1.ema, &q2.ema, &q3.ema), ema_sum(&q1.dma, &q2.dma, &q3.dma), ema_sum(&q1.tma, &q2.tma, &q3.tma)
{
	ema_plus_rel(&p1.ema, x1, &q1.ema, q1.ema.value, &p2.ema, x2, &q2.ema, q2.ema.value, &p3.ema, x3, &q3.ema, q3.ema.value);
	ema_plus_rel(&p1.dma, q1.ema.value, &q1.dma, q1.dma.value, &p2.dma, q2.ema.value, &q2.dma, q2.dma.value, &p3.dma, q3.ema.value, &q3.dma, q3.dma.value);
	ema_plus_rel(&p1.tma, q1.dma.value, &q1.tma, q1.tma.value, &p2.tma, q2.dma.value, &q2.tma, q2.tma.value, &p3.tma, q3.dma.value, &q3.tma, q3.tma.value);
}
pub proof fn trima_plus_rel(p1: &TRIMA, x1: R, q1: &TRIMA, o1: R, p2: &TRIMA, x2: R, q2: &TRIMA, o2: R, p3: &TRIMA, x3: R, q3: &TRIMA, o3: R)
	requires p1.inv(), p2.inv(), p3.inv(), sum_of(p3.sma1.window.view(), p1.sma1.window.view(), p2.sma1.window.view()),
		sum_of(p3.sma2.window.view(), p1.sma2.window.view(), p2.sma2.window.view()), x3@ == x1@ + x2@,
		TRIMA::step(p1, &x1, q1, &o1), TRIMA::step(p2, &x2, q2, &o2), TRIMA::step(p3, &x3, q3, &o3)
	ensures o3@ == o1@ + o2@, sum_of(q3.sma1.window.view(), q1.sma1.window.view(), q2.sma1.window.view()),
		sum_of(q3.sma2.window.view(), q1.sma2.window.view(), q2.sma2.window.view())
{
	lemma_sum_of_slide(p3.sma1.window.view(), p1.sma1.window.view(), p2.sma1.window.view(), x3, x1, x2);
	sma_plus_img(q3.sma1.window.view(), q1.sma1.window.view(), q2.sma1.window.view());
	lemma_sum_of_slide(p3.sma2.window.view(), p1.sma2.window.view(), p2.sma2.window.view(), q3.sma1.value, q1.sma1.value, q2.sma1.value);
	sma_plus_img(q3.sma2.window.view(), q1.sma2.window.view(), q2.sma2.window.view());
}
pub proof fn hma_plus_rel(p1: &HMA, x1: R, q1: &HMA, o1: R, p2: &HMA, x2: R, q2: &HMA, o2: R, p3: &HMA, x3: R, q3: &HMA, o3: R)
	requires p1.inv(), p2.inv(), p3.inv(), sum_of(p3.wma1.window.view(), p1.wma1.window.view(), p2.wma1.window.view()),
		sum_of(p3.wma2.window.view(), p1.wma2.window.view(), p2.wma2.window.view()), sum_of(p3.wma3.window.view(), p1.wma3.window.view(), p2.wma3.window.view()),
		x3@ == x1@ + x2@, HMA::step(p1, &x1, q1, &o1), HMA::step(p2, &x2, q2, &o2), HMA::step(p3, &x3, q3, &o3)
	ensures o3@ == o1@ + o2@, sum_of(q3.wma1.window.view(), q1.wma1.window.view(), q2.wma1.window.view()),
		sum_of(q3.wma2.window.view(), q1.wma2.window.view(), q2.wma2.window.view()), sum_of(q3.wma3.window.view(), q1.wma3.window.view(), q2.wma3.window.view())
{
	let (a1, a2, ad) = choose|w1: ValueType, w2: ValueType, d: ValueType| #[trigger] hma_parts(p1, &x1, q1, &o1, w1, w2, d);
	let (b1, b2, bd) = choose|w1: ValueType, w2: ValueType, d: ValueType| #[trigger] hma_parts(p2, &x2, q2, &o2, w1, w2, d);
	let (c1, c2, cd) = choose|w1: ValueType, w2: ValueType, d: ValueType| #[trigger] hma_parts(p3, &x3, q3, &o3, w1, w2, d);
	lemma_sum_of_slide(p3.wma1.window.view(), p1.wma1.window.view(), p2.wma1.window.view(), x3, x1, x2);
	wma_plus_img(q3.wma1.window.view(), q1.wma1.window.view(), q2.wma1.window.view());
	lemma_sum_of_slide(p3.wma2.window.view(), p1.wma2.window.view(), p2.wma2.window.view(), x3, x1, x2);
	wma_plus_img(q3.wma2.window.view(), q1.wma2.window.view(), q2.wma2.window.view());
	lemma_sum_of_slide(p3.wma3.window.view(), p1.wma3.window.view(), p2.wma3.window.view(), cd, ad, bd);
	wma_plus_img(q3.wma3.window.view(), q1.wma3.window.view(), q2.wma3.window.view());
}

// ==================================================================== impulse responses: the weight each definition gives to the input at position i
// (0 = oldest element of the window), for every length
pub open spec fn impulse(n: nat, i: int) -> Seq<R> { Seq::new(n, |j: int| mk(if j == i { 1real } else { 0real })) }
pub open spec fn zeros(n: nat) -> Seq<R> { Seq::new(n, |j: int| mk(0real)) }
pub proof fn lemma_sum_impulse(n: nat, i: int)
	ensures sum(impulse(n, i)) == (if 0 <= i < n { 1real } else { 0real }), wsum(impulse(n, i)) == (if 0 <= i < n { (i + 1) as real } else { 0real })
	decreases n
{
	if n > 0 {
		lemma_sum_impulse((n - 1) as nat, i);
		assert(impulse(n, i).drop_last() =~= impulse((n - 1) as nat, i));
		let nr = n as real;
		assert(nr * 1real == nr && nr * 0real == 0real) by(nonlinear_arith);
	}
}
pub proof fn lemma_dsum_impulse(n: nat, i: int)
	ensures dsum(impulse(n, i)) == (if 0 <= i < n { (n - i) as real } else { 0real })
	decreases n
{
	if n > 0 {
		lemma_dsum_impulse((n - 1) as nat, i - 1);
		assert(impulse(n, i).drop_first() =~= impulse((n - 1) as nat, i - 1));
		let nr = n as real;
		assert(nr * 1real == nr && nr * 0real == 0real) by(nonlinear_arith);
	}
}
// SMA: every input has weight 1/n
pub proof fn sma_impulse(n: nat, i: int)
	requires 0 <= i < n
	ensures SMA::def(impulse(n, i)) == 1real / (n as real)
{
	lemma_sum_impulse(n, i);
}
// WMA: the input at position i (0 = oldest) has weight (i+1) / (n(n+1)/2): linearly increasing towards the newest
pub proof fn wma_impulse(n: nat, i: int)
	requires 0 <= i < n
	ensures WMA::def(impulse(n, i)) == ((i + 1) as real) / (tri(n as int) as real), 2 * tri(n as int) == n * (n + 1)
{
	lemma_sum_impulse(n, i);
	lemma_tri(n as int);
}
// SWMA: ascending weights 1..l over the older half, descending r..1 over the newer half (a triangle), normalised by their sum
pub proof fn swma_impulse_left(l: nat, r: nat, i: int)
	requires 0 <= i < l
	ensures SWMA::def(impulse(l, i), zeros(r)) == ((i + 1) as real) / ((tri(l as int) + tri(r as int)) as real)
{
	lemma_sum_impulse(l, i);
	lemma_dsum_impulse(r, -1);
	assert(zeros(r) =~= impulse(r, -1));
}
pub proof fn swma_impulse_right(l: nat, r: nat, j: int)
	requires 0 <= j < r
	ensures SWMA::def(zeros(l), impulse(r, j)) == ((r - j) as real) / ((tri(l as int) + tri(r as int)) as real)
{
	lemma_sum_impulse(l, -1);
	lemma_dsum_impulse(r, j);
	assert(zeros(l) =~= impulse(l, -1));
}
// Conv: the input at position i has the caller's weight ws[i], normalised by the sum of the weights
pub proof fn lemma_csum_impulse(ws: Seq<R>, i: int, m: int)
	requires 0 <= m <= ws.len()
	ensures csum_from(impulse(ws.len(), i), ws, m) == (if m <= i < ws.len() { ws[i]@ } else { 0real })
	decreases ws.len() - m
{
	if m < ws.len() {
		lemma_csum_impulse(ws, i, m + 1);
		let k = ws[m]@;
		assert(1real * k == k && 0real * k == 0real) by(nonlinear_arith);
	}
}
pub proof fn conv_impulse(ws: Seq<R>, i: int)
	requires 0 <= i < ws.len()
	ensures Conv::def(impulse(ws.len(), i), ws) == ws[i]@ / sum(ws)
{
	lemma_csum_impulse(ws, i, 0);
}
// the EMA recurrence started at 0: an impulse gives alpha, and each later step multiplies by (1 - alpha)
pub proof fn ema_impulse_step(p: &EMA, x: R, q: &EMA, o: R)
	requires EMA::step(p, &x, q, &o)
	ensures p.value@ == 0real && x@ == 1real ==> o@ == p.alpha@, x@ == 0real ==> o@ == (1real - p.alpha@) * p.value@
{
	let (al, v) = (p.alpha@, p.value@);
	assert(v + al * (0real - v) == (1real - al) * v) by(nonlinear_arith);
	assert(0real + al * (1real - 0real) == al) by(nonlinear_arith);
}
} // verus!
fn main() {}
