//@unit ma_laws2
//@include head.rs
//@include select_lib.rs
//@import ohlcv.rs.tpl
//@import indicator_base.rs.tpl
//@include indicator_traits.rs
//@import sma.rs.tpl
//@import wma.rs.tpl
//@import compose_ma.rs.tpl
//@import ema.rs.tpl
//@import swma.rs.tpl
//@import lin_reg.rs.tpl
//@import conv.rs.tpl
//@import vwma.rs.tpl
//@import ma_laws.rs.tpl

// ==================================================================== C15, second part: the remaining kinds
// Metamorphic form: run the same kind on a stream x and on its affine image a*x+b (any a, negative included). If every value the second
// instance holds is the image of the corresponding value of the first (`*_rel`), one step on x / a*x+b keeps that relation and the second
// output is the image of the first. The step predicates are the contracts the real `next` functions are verified against (C02/C03).

// two sequences with the same numeric values (R also carries the sign of a zero, which no sum looks at)
pub open spec fn veq(s: Seq<R>, t: Seq<R>) -> bool { s.len() == t.len() && forall|i: int| 0 <= i < s.len() ==> (#[trigger] s[i])@ == t[i]@ }
pub open spec fn img_of(w: Seq<R>, v: Seq<R>, a: real, b: real) -> bool { veq(w, affine(v, a, b)) }

pub proof fn lemma_sum_cong(s: Seq<R>, t: Seq<R>)
	requires veq(s, t)
	ensures sum(s) == sum(t)
	decreases s.len()
{
	if s.len() > 0 { lemma_sum_cong(s.drop_last(), t.drop_last()); }
}
pub proof fn lemma_wsum_cong(s: Seq<R>, t: Seq<R>)
	requires veq(s, t)
	ensures wsum(s) == wsum(t)
	decreases s.len()
{
	if s.len() > 0 { lemma_wsum_cong(s.drop_last(), t.drop_last()); }
}
pub proof fn lemma_dsum_cong(s: Seq<R>, t: Seq<R>)
	requires veq(s, t)
	ensures dsum(s) == dsum(t)
	decreases s.len()
{
	if s.len() > 0 {
		let (u, w) = (s.drop_first(), t.drop_first());
		assert forall|i: int| 0 <= i < u.len() implies (#[trigger] u[i])@ == w[i]@ by { assert(u[i] == s[i + 1] && w[i] == t[i + 1]); }
		lemma_dsum_cong(u, w);
	}
}
pub proof fn lemma_asum_cong(s: Seq<R>, t: Seq<R>)
	requires veq(s, t)
	ensures asum(s) == asum(t)
	decreases s.len()
{
	if s.len() > 0 { lemma_asum_cong(s.drop_last(), t.drop_last()); lemma_sum_cong(s.drop_last(), t.drop_last()); }
}
// sliding both windows by corresponding inputs keeps the relation
pub proof fn lemma_img_slide(w: Seq<R>, v: Seq<R>, y: R, x: R, a: real, b: real)
	requires img_of(w, v, a, b), v.len() >= 1, y@ == a * x@ + b
	ensures img_of(w.drop_first().push(y), v.drop_first().push(x), a, b)
{
	let (w2, v2) = (w.drop_first().push(y), v.drop_first().push(x));
	let im = affine(v2, a, b);
	assert forall|i: int| 0 <= i < w2.len() implies (#[trigger] w2[i])@ == im[i]@ by {
		if i < w2.len() - 1 { assert(w2[i] == w[i + 1] && v2[i] == v[i + 1]); assert(w[i + 1]@ == affine(v, a, b)[i + 1]@); }
	}
}
pub proof fn lemma_dsum_affine(s: Seq<R>, a: real, b: real)
	ensures dsum(affine(s, a, b)) == a * dsum(s) + (tri(s.len() as int) as real) * b
	decreases s.len()
{
	if s.len() == 0 {
		assert(a * 0real + 0real * b == 0real) by(nonlinear_arith);
	} else {
		lemma_dsum_affine(s.drop_first(), a, b);
		assert(affine(s, a, b).drop_first() =~= affine(s.drop_first(), a, b));
		let n = s.len() as int;
		let (t1, t, nr, x, w) = (tri(n - 1) as real, tri(n) as real, n as real, s[0]@, dsum(s.drop_first()));
		assert(t == t1 + nr);
		let ax = a * x;
		let nx = nr * x;
		assert(nr * (ax + b) == nr * ax + nr * b) by(nonlinear_arith);
		assert(a * (nx + w) == a * nx + a * w) by(nonlinear_arith);
		assert(a * nx == nr * ax) by(nonlinear_arith) requires nx == nr * x, ax == a * x;
		assert(t * b == t1 * b + nr * b) by(nonlinear_arith) requires t == t1 + nr;
	}
}
pub proof fn lemma_asum_affine(s: Seq<R>, a: real, b: real)
	ensures asum(affine(s, a, b)) == a * asum(s) + (tri(s.len() as int - 1) as real) * b
	decreases s.len()
{
	if s.len() == 0 {
		assert(a * 0real + 0real * b == 0real) by(nonlinear_arith);
	} else {
		let d = s.drop_last();
		lemma_asum_affine(d, a, b);
		lemma_sum_affine(d, a, b);
		assert(affine(s, a, b).drop_last() =~= affine(d, a, b));
		let n = s.len() as int;
		let (t2, t1, m) = (tri(n - 2) as real, tri(n - 1) as real, (n - 1) as real);
		assert(tri(n - 1) == tri(n - 2) + (n - 1)) by { if n == 1 { assert(tri(0) == 0 && tri(-1) == 0); } }
		assert(t1 == t2 + m);
		let (p, q) = (asum(d), sum(d));
		assert(a * p + t2 * b + (a * q + m * b) == a * (p + q) + t1 * b) by(nonlinear_arith) requires t1 == t2 + m;
	}
}

// ---------------------------------------------------------------- SMA / WMA restated over numerically equal images
pub proof fn sma_affine_img(w: Seq<R>, v: Seq<R>, a: real, b: real)
	requires v.len() >= 1, img_of(w, v, a, b)
	ensures SMA::def(w) == a * SMA::def(v) + b
{
	lemma_sum_cong(w, affine(v, a, b));
	sma_affine(v, a, b);
}
pub proof fn wma_affine_img(w: Seq<R>, v: Seq<R>, a: real, b: real)
	requires v.len() >= 1, img_of(w, v, a, b)
	ensures WMA::def(w) == a * WMA::def(v) + b
{
	lemma_wsum_cong(w, affine(v, a, b));
	wma_affine(v, a, b);
}

// ---------------------------------------------------------------- SWMA (triangular weights over two half windows)
pub proof fn swma_affine_img(l2: Seq<R>, r2: Seq<R>, l1: Seq<R>, r1: Seq<R>, a: real, b: real)
	requires l1.len() >= 1, img_of(l2, l1, a, b), img_of(r2, r1, a, b)
	ensures SWMA::def(l2, r2) == a * SWMA::def(l1, r1) + b
{
	lemma_wsum_cong(l2, affine(l1, a, b));
	lemma_dsum_cong(r2, affine(r1, a, b));
	lemma_wsum_affine(l1, a, b);
	lemma_dsum_affine(r1, a, b);
	lemma_tri(l1.len() as int); lemma_tri(r1.len() as int);
	let (tl, tr) = (tri(l1.len() as int) as real, tri(r1.len() as int) as real);
	let t = tl + tr;
	let s = wsum(l1) + dsum(r1);
	assert(((tri(l1.len() as int) + tri(r1.len() as int)) as real) == t);
	assert((a * wsum(l1) + tl * b) + (a * dsum(r1) + tr * b) == a * s + t * b) by(nonlinear_arith) requires s == wsum(l1) + dsum(r1), t == tl + tr;
	assert((a * s + t * b) / t == a * (s / t) + b) by(nonlinear_arith) requires t >= 1real;
}
pub proof fn swma_affine_step(p1: &SWMA, x1: R, q1: &SWMA, o1: R, p2: &SWMA, x2: R, q2: &SWMA, o2: R, a: real, b: real)
	requires p1.inv(), p2.inv(), p1.l() == p2.l(), p1.r() == p2.r(),
		img_of(p2.left_window.view(), p1.left_window.view(), a, b), img_of(p2.right_window.view(), p1.right_window.view(), a, b),
		x2@ == a * x1@ + b, SWMA::step(p1, &x1, q1, &o1), SWMA::step(p2, &x2, q2, &o2)
	ensures o2@ == a * o1@ + b,
		p1.r() >= 1 ==> img_of(q2.left_window.view(), q1.left_window.view(), a, b) && img_of(q2.right_window.view(), q1.right_window.view(), a, b)
{
	if p1.r() >= 1 {
		let (l1, r1, l2, r2) = (p1.left_window.view(), p1.right_window.view(), p2.left_window.view(), p2.right_window.view());
		assert(r2[0]@ == affine(r1, a, b)[0]@);
		lemma_img_slide(r2, r1, x2, x1, a, b);
		lemma_img_slide(l2, l1, r2[0], r1[0], a, b);
		swma_affine_img(q2.left_window.view(), q2.right_window.view(), q1.left_window.view(), q1.right_window.view(), a, b);
	}
}

// ---------------------------------------------------------------- LinReg (least-squares line; extrapolates, so no range law, but affine-equivariant)
pub proof fn linreg_affine_img(w: Seq<R>, v: Seq<R>, a: real, b: real)
	requires v.len() >= 2, img_of(w, v, a, b)
	ensures LinReg::def(w) == a * LinReg::def(v) + b
{
	let im = affine(v, a, b);
	lemma_sum_cong(w, im); lemma_asum_cong(w, im);
	lemma_sum_affine(v, a, b); lemma_asum_affine(v, a, b);
	let n = v.len() as int;
	lemma_linreg_ints(n);
	let (nr, t, d, s, p) = (n as real, tri(n - 1) as real, LinReg::det(n), sum(v), asum(v));
	// slope of the image = a * slope: the shift b cancels
	let num1 = nr * p - t * s;
	let num2 = nr * (a * p + t * b) - t * (a * s + nr * b);
	assert(nr * (a * p + t * b) == a * (nr * p) + nr * (t * b)) by(nonlinear_arith);
	assert(t * (a * s + nr * b) == a * (t * s) + t * (nr * b)) by(nonlinear_arith);
	assert(nr * (t * b) == t * (nr * b)) by(nonlinear_arith);
	assert(a * (nr * p) - a * (t * s) == a * (nr * p - t * s)) by(nonlinear_arith);
	assert(num2 == a * num1);
	assert((a * num1) / d == a * (num1 / d)) by(nonlinear_arith) requires d >= 1real;
	let k = num1 / d;
	assert(LinReg::slope(w) == a * k);
	let m = s - k * t;
	assert((a * k) * t == a * (k * t)) by(nonlinear_arith);
	assert(a * s - a * (k * t) == a * m) by(nonlinear_arith) requires m == s - k * t;
	assert((a * m + nr * b) / nr == a * (m / nr) + b) by(nonlinear_arith) requires nr >= 2real;
}

// ---------------------------------------------------------------- VWMA: affine in the prices for fixed volumes; within the price range for non-negative volumes
pub open spec fn vw_img(w: Seq<(R, R)>, v: Seq<(R, R)>, a: real, b: real) -> bool {
	w.len() == v.len() && forall|i: int| 0 <= i < v.len() ==> (#[trigger] w[i]).0@ == a * v[i].0@ + b && w[i].1@ == v[i].1@
}
pub proof fn lemma_vw_affine(w: Seq<(R, R)>, v: Seq<(R, R)>, a: real, b: real)
	requires vw_img(w, v, a, b)
	ensures VWMA::num(w) == a * VWMA::num(v) + b * VWMA::den(v), VWMA::den(w) == VWMA::den(v)
	decreases v.len()
{
	if v.len() == 0 {
		assert(a * 0real + b * 0real == 0real) by(nonlinear_arith);
	} else {
		lemma_vw_affine(w.drop_last(), v.drop_last(), a, b);
		let (p, q, n0, d0) = (v.last().0@, v.last().1@, VWMA::num(v.drop_last()), VWMA::den(v.drop_last()));
		assert(w.last().0@ == a * p + b && w.last().1@ == q);
		assert(pv_fn()(w.last()) == (a * p + b) * q && pv_fn()(v.last()) == p * q && vol_fn()(v.last()) == q && vol_fn()(w.last()) == q);
		assert(a * n0 + b * d0 + (a * p + b) * q == a * (n0 + p * q) + b * (d0 + q)) by(nonlinear_arith);
	}
}
pub proof fn vwma_affine(w: Seq<(R, R)>, v: Seq<(R, R)>, a: real, b: real)
	requires vw_img(w, v, a, b), VWMA::den(v) != 0real
	ensures VWMA::num(w) / VWMA::den(w) == a * (VWMA::num(v) / VWMA::den(v)) + b
{
	lemma_vw_affine(w, v, a, b);
	let (n, d) = (VWMA::num(v), VWMA::den(v));
	assert((a * n + b * d) / d == a * (n / d) + b) by(nonlinear_arith) requires d != 0real;
}
pub proof fn lemma_vw_bounds(v: Seq<(R, R)>, lo: real, hi: real)
	requires forall|i: int| 0 <= i < v.len() ==> lo <= (#[trigger] v[i]).0@ <= hi && v[i].1@ >= 0real
	ensures lo * VWMA::den(v) <= VWMA::num(v) <= hi * VWMA::den(v), VWMA::den(v) >= 0real
	decreases v.len()
{
	if v.len() == 0 {
		assert(lo * 0real == 0real && hi * 0real == 0real) by(nonlinear_arith);
	} else {
		let d = v.drop_last();
		assert forall|i: int| 0 <= i < d.len() implies lo <= (#[trigger] d[i]).0@ <= hi && d[i].1@ >= 0real by { assert(d[i] == v[i]); }
		lemma_vw_bounds(d, lo, hi);
		let (p, q, n0, d0) = (v.last().0@, v.last().1@, VWMA::num(d), VWMA::den(d));
		assert(pv_fn()(v.last()) == p * q && vol_fn()(v.last()) == q);
		assert(lo * q <= p * q && p * q <= hi * q) by(nonlinear_arith) requires lo <= p, p <= hi, q >= 0real;
		assert(lo * (d0 + q) == lo * d0 + lo * q && hi * (d0 + q) == hi * d0 + hi * q) by(nonlinear_arith);
	}
}
pub proof fn vwma_range(v: Seq<(R, R)>, lo: real, hi: real)
	requires forall|i: int| 0 <= i < v.len() ==> lo <= (#[trigger] v[i]).0@ <= hi && v[i].1@ >= 0real, VWMA::den(v) != 0real
	ensures lo <= VWMA::num(v) / VWMA::den(v) <= hi
{
	lemma_vw_bounds(v, lo, hi);
	let (n, d) = (VWMA::num(v), VWMA::den(v));
	assert(lo <= n / d && n / d <= hi) by(nonlinear_arith) requires d > 0real, lo * d <= n, n <= hi * d;
}

// ---------------------------------------------------------------- Conv: affine for any weights with non-zero sum; within the range for non-negative weights
pub proof fn lemma_csum_affine(w: Seq<R>, v: Seq<R>, ws: Seq<R>, m: int, a: real, b: real)
	requires img_of(w, v, a, b), ws.len() == v.len(), 0 <= m <= v.len()
	ensures csum_from(w, ws, m) == a * csum_from(v, ws, m) + b * sum(ws.subrange(m, ws.len() as int))
	decreases v.len() - m
{
	let tail = ws.subrange(m, ws.len() as int);
	if m >= v.len() {
		assert(tail.len() == 0);
		assert(a * 0real + b * 0real == 0real) by(nonlinear_arith);
	} else {
		lemma_csum_affine(w, v, ws, m + 1, a, b);
		lemma_sum_tail(tail);
		assert(tail.drop_first() =~= ws.subrange(m + 1, ws.len() as int));
		assert(tail[0] == ws[m]);
		assert(w[m]@ == affine(v, a, b)[m]@);
		let (x, k, c, t) = (v[m]@, ws[m]@, csum_from(v, ws, m + 1), sum(ws.subrange(m + 1, ws.len() as int)));
		assert((a * x + b) * k + (a * c + b * t) == a * (x * k + c) + b * (t + k)) by(nonlinear_arith);
	}
}
pub proof fn conv_affine_img(w: Seq<R>, v: Seq<R>, ws: Seq<R>, a: real, b: real)
	requires img_of(w, v, a, b), ws.len() == v.len(), sum(ws) != 0real
	ensures Conv::def(w, ws) == a * Conv::def(v, ws) + b
{
	lemma_csum_affine(w, v, ws, 0, a, b);
	assert(ws.subrange(0, ws.len() as int) =~= ws);
	let (c, s) = (csum_from(v, ws, 0), sum(ws));
	assert((a * c + b * s) / s == a * (c / s) + b) by(nonlinear_arith) requires s != 0real;
}
pub proof fn lemma_csum_bounds(v: Seq<R>, ws: Seq<R>, m: int, lo: real, hi: real)
	requires all_within(v, lo, hi), ws.len() == v.len(), 0 <= m <= v.len(), forall|i: int| 0 <= i < ws.len() ==> (#[trigger] ws[i])@ >= 0real
	ensures lo * sum(ws.subrange(m, ws.len() as int)) <= csum_from(v, ws, m) <= hi * sum(ws.subrange(m, ws.len() as int)), sum(ws.subrange(m, ws.len() as int)) >= 0real
	decreases v.len() - m
{
	let tail = ws.subrange(m, ws.len() as int);
	if m >= v.len() {
		assert(tail.len() == 0);
		assert(lo * 0real == 0real && hi * 0real == 0real) by(nonlinear_arith);
	} else {
		lemma_csum_bounds(v, ws, m + 1, lo, hi);
		lemma_sum_tail(tail);
		assert(tail.drop_first() =~= ws.subrange(m + 1, ws.len() as int));
		assert(tail[0] == ws[m]);
		let (x, k, t) = (v[m]@, ws[m]@, sum(ws.subrange(m + 1, ws.len() as int)));
		assert(lo * k <= x * k && x * k <= hi * k) by(nonlinear_arith) requires lo <= x, x <= hi, k >= 0real;
		assert(lo * (t + k) == lo * t + lo * k && hi * (t + k) == hi * t + hi * k) by(nonlinear_arith);
	}
}
pub proof fn conv_range(v: Seq<R>, ws: Seq<R>, lo: real, hi: real)
	requires all_within(v, lo, hi), ws.len() == v.len(), forall|i: int| 0 <= i < ws.len() ==> (#[trigger] ws[i])@ >= 0real, sum(ws) != 0real
	ensures lo <= Conv::def(v, ws) <= hi
{
	lemma_csum_bounds(v, ws, 0, lo, hi);
	assert(ws.subrange(0, ws.len() as int) =~= ws);
	let (c, s) = (csum_from(v, ws, 0), sum(ws));
	assert(lo <= c / s && c / s <= hi) by(nonlinear_arith) requires s > 0real, lo * s <= c, c <= hi * s;
}

// ---------------------------------------------------------------- the EMA family and the compositions: relational one-step lemmas
pub open spec fn ema_rel(p1: &EMA, p2: &EMA, a: real, b: real) -> bool { p2.alpha@ == p1.alpha@ && p2.value@ == a * p1.value@ + b }
pub proof fn ema_affine_rel(p1: &EMA, x1: R, q1: &EMA, o1: R, p2: &EMA, x2: R, q2: &EMA, o2: R, a: real, b: real)
	requires ema_rel(p1, p2, a, b), x2@ == a * x1@ + b, EMA::step(p1, &x1, q1, &o1), EMA::step(p2, &x2, q2, &o2)
	ensures o2@ == a * o1@ + b, ema_rel(q1, q2, a, b)
{
	let (al, v, xx) = (p1.alpha@, p1.value@, x1@);
	assert(a * (v + al * (xx - v)) + b == (a * v + b) + al * ((a * xx + b) - (a * v + b))) by(nonlinear_arith);
}
pub proof fn rma_affine_rel(p1: &RMA, x1: R, q1: &RMA, o1: R, p2: &RMA, x2: R, q2: &RMA, o2: R, a: real, b: real)
	requires p2.alpha@ == p1.alpha@, p2.prev_value@ == a * p1.prev_value@ + b, x2@ == a * x1@ + b, RMA::step(p1, &x1, q1, &o1), RMA::step(p2, &x2, q2, &o2)
	ensures o2@ == a * o1@ + b, q2.alpha@ == q1.alpha@, q2.prev_value@ == a * q1.prev_value@ + b
{
	let (al, v, xx) = (p1.alpha@, p1.prev_value@, x1@);
	// single distributions (one cubic identity in five variables does not come back)
	let u = 1real - al;
	assert(al * (a * xx + b) == a * (al * xx) + al * b) by(nonlinear_arith);
	assert(u * (a * v + b) == a * (u * v) + u * b) by(nonlinear_arith);
	assert(al * b + u * b == b) by(nonlinear_arith) requires u == 1real - al;
	assert(a * (al * xx) + a * (u * v) == a * (al * xx + u * v)) by(nonlinear_arith);
}
pub proof fn wsma_affine_rel(p1: &WSMA, x1: R, q1: &WSMA, o1: R, p2: &WSMA, x2: R, q2: &WSMA, o2: R, a: real, b: real)
	requires ema_rel(&p1.0, &p2.0, a, b), x2@ == a * x1@ + b, WSMA::step(p1, &x1, q1, &o1), WSMA::step(p2, &x2, q2, &o2)
	ensures o2@ == a * o1@ + b, ema_rel(&q1.0, &q2.0, a, b)
{
	ema_affine_rel(&p1.0, x1, &q1.0, o1, &p2.0, x2, &q2.0, o2, a, b);
}
pub open spec fn dma_rel(p1: &DMA, p2: &DMA, a: real, b: real) -> bool { ema_rel(&p1.ema, &p2.ema, a, b) && ema_rel(&p1.dma, &p2.dma, a, b) }
pub proof fn dma_affine_rel(p1: &DMA, x1: R, q1: &DMA, o1: R, p2: &DMA, x2: R, q2: &DMA, o2: R, a: real, b: real)
	requires dma_rel(p1, p2, a, b), x2@ == a * x1@ + b, DMA::step(p1, &x1, q1, &o1), DMA::step(p2, &x2, q2, &o2)
	ensures o2@ == a * o1@ + b, dma_rel(q1, q2, a, b)
{
	ema_affine_rel(&p1.ema, x1, &q1.ema, q1.ema.value, &p2.ema, x2, &q2.ema, q2.ema.value, a, b);
	ema_affine_rel(&p1.dma, q1.ema.value, &q1.dma, o1, &p2.dma, q2.ema.value, &q2.dma, o2, a, b);
}
pub open spec fn tma_rel(p1: &TMA, p2: &TMA, a: real, b: real) -> bool { dma_rel(&p1.dma, &p2.dma, a, b) && ema_rel(&p1.tma, &p2.tma, a, b) }
pub proof fn tma_affine_rel(p1: &TMA, x1: R, q1: &TMA, o1: R, p2: &TMA, x2: R, q2: &TMA, o2: R, a: real, b: real)
	requires tma_rel(p1, p2, a, b), x2@ == a * x1@ + b, TMA::step(p1, &x1, q1, &o1), TMA::step(p2, &x2, q2, &o2)
	ensures o2@ == a * o1@ + b, tma_rel(q1, q2, a, b)
{
	dma_affine_rel(&p1.dma, x1, &q1.dma, q1.dma.dma.value, &p2.dma, x2, &q2.dma, q2.dma.dma.value, a, b);
	ema_affine_rel(&p1.tma, q1.dma.dma.value, &q1.tma, o1, &p2.tma, q2.dma.dma.value, &q2.tma, o2, a, b);
}
pub proof fn dema_affine_rel(p1: &DEMA, x1: R, q1: &DEMA, o1: R, p2: &DEMA, x2: R, q2: &DEMA, o2: R, a: real, b: real)
	requires ema_rel(&p1.ema, &p2.ema, a, b), ema_rel(&p1.dma, &p2.dma, a, b), x2@ == a * x1@ + b, DEMA::step(p1, &x1, q1, &o1), DEMA::step(p2, &x2, q2, &o2)
	ensures o2@ == a * o1@ + b, ema_rel(&q1.ema, &q2.ema, a, b), ema_rel(&q1.dma, &q2.dma, a, b)
{
	ema_affine_rel(&p1.ema, x1, &q1.ema, q1.ema.value, &p2.ema, x2, &q2.ema, q2.ema.value, a, b);
	ema_affine_rel(&p1.dma, q1.ema.value, &q1.dma, q1.dma.value, &p2.dma, q2.ema.value, &q2.dma, q2.dma.value, a, b);
	let (e, d) = (q1.ema.value@, q1.dma.value@);
	assert(2real * (a * e + b) - (a * d + b) == a * (2real * e - d) + b) by(nonlinear_arith);
}
pub proof fn tema_affine_rel(p1: &TEMA, x1: R, q1: &TEMA, o1: R, p2: &TEMA, x2: R, q2: &TEMA, o2: R, a: real, b: real)
	requires ema_rel(&p1.ema, &p2.ema, a, b), ema_rel(&p1.dma, &p2.dma, a, b), ema_rel(&p1.tma, &p2.tma, a, b), x2@ == a * x1@ + b,
		TEMA::step(p1, &x1, q1, &o1), TEMA::step(p2, &x2, q2, &o2)
	ensures o2@ == a * o1@ + b, ema_rel(&q1.ema, &q2.ema, a, b), ema_rel(&q1.dma, &q2.dma, a, b), ema_rel(&q1.tma, &q2.tma, a, b)
{
	ema_affine_rel(&p1.ema, x1, &q1.ema, q1.ema.value, &p2.ema, x2, &q2.ema, q2.ema.value, a, b);
	ema_affine_rel(&p1.dma, q1.ema.value, &q1.dma, q1.dma.value, &p2.dma, q2.ema.value, &q2.dma, q2.dma.value, a, b);
	ema_affine_rel(&p1.tma, q1.dma.value, &q1.tma, q1.tma.value, &p2.tma, q2.dma.value, &q2.tma, q2.tma.value, a, b);
	let (e, d, t) = (q1.ema.value@, q1.dma.value@, q1.tma.value@);
	assert(3real * ((a * e + b) - (a * d + b)) + (a * t + b) == a * (3real * (e - d) + t) + b) by(nonlinear_arith);
}
// TRIMA = SMA of SMA, HMA = WMA(2*WMA(n/2) - WMA(n)) over sqrt(n): compositions of window averages
pub open spec fn trima_rel(p1: &TRIMA, p2: &TRIMA, a: real, b: real) -> bool {
	img_of(p2.sma1.window.view(), p1.sma1.window.view(), a, b) && img_of(p2.sma2.window.view(), p1.sma2.window.view(), a, b)
}
pub proof fn trima_affine_rel(p1: &TRIMA, x1: R, q1: &TRIMA, o1: R, p2: &TRIMA, x2: R, q2: &TRIMA, o2: R, a: real, b: real)
	requires p1.inv(), p2.inv(), trima_rel(p1, p2, a, b), x2@ == a * x1@ + b, TRIMA::step(p1, &x1, q1, &o1), TRIMA::step(p2, &x2, q2, &o2)
	ensures o2@ == a * o1@ + b, trima_rel(q1, q2, a, b)
{
	lemma_img_slide(p2.sma1.window.view(), p1.sma1.window.view(), x2, x1, a, b);
	sma_affine_img(q2.sma1.window.view(), q1.sma1.window.view(), a, b);
	lemma_img_slide(p2.sma2.window.view(), p1.sma2.window.view(), q2.sma1.value, q1.sma1.value, a, b);
	sma_affine_img(q2.sma2.window.view(), q1.sma2.window.view(), a, b);
}
pub open spec fn hma_rel(p1: &HMA, p2: &HMA, a: real, b: real) -> bool {
	img_of(p2.wma1.window.view(), p1.wma1.window.view(), a, b) && img_of(p2.wma2.window.view(), p1.wma2.window.view(), a, b)
		&& img_of(p2.wma3.window.view(), p1.wma3.window.view(), a, b)
}
pub proof fn hma_affine_rel(p1: &HMA, x1: R, q1: &HMA, o1: R, p2: &HMA, x2: R, q2: &HMA, o2: R, a: real, b: real)
	requires p1.inv(), p2.inv(), hma_rel(p1, p2, a, b), x2@ == a * x1@ + b, HMA::step(p1, &x1, q1, &o1), HMA::step(p2, &x2, q2, &o2)
	ensures o2@ == a * o1@ + b, hma_rel(q1, q2, a, b)
{
	let (u1, u2, d1) = choose|w1: ValueType, w2: ValueType, d: ValueType| #[trigger] hma_parts(p1, &x1, q1, &o1, w1, w2, d);
	let (v1, v2, d2) = choose|w1: ValueType, w2: ValueType, d: ValueType| #[trigger] hma_parts(p2, &x2, q2, &o2, w1, w2, d);
	lemma_img_slide(p2.wma1.window.view(), p1.wma1.window.view(), x2, x1, a, b);
	wma_affine_img(q2.wma1.window.view(), q1.wma1.window.view(), a, b);
	lemma_img_slide(p2.wma2.window.view(), p1.wma2.window.view(), x2, x1, a, b);
	wma_affine_img(q2.wma2.window.view(), q1.wma2.window.view(), a, b);
	assert(2real * (a * u1@ + b) - (a * u2@ + b) == a * (2real * u1@ - u2@) + b) by(nonlinear_arith);
	lemma_img_slide(p2.wma3.window.view(), p1.wma3.window.view(), d2, d1, a, b);
	wma_affine_img(q2.wma3.window.view(), q1.wma3.window.view(), a, b);
}
} // verus!
fn main() {}
