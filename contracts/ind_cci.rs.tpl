//@unit ind_cci
//@include head.rs
//@import ohlcv.rs.tpl
//@import indicator_base.rs.tpl
//@include indicator_traits.rs
//@import sma.rs.tpl
//@import wma.rs.tpl
//@import mean_abs_dev.rs.tpl
//@import compose_ma.rs.tpl
//@import reversal.rs.tpl
//@import ema.rs.tpl
//@import ma_laws.rs.tpl

// ================================================================== CommodityChannelIndex
//@extract src/indicators/commodity_channel_index.rs const:SCALE
	ensures r@ == 1real / 1.5real,
//@end
//@extract src/indicators/commodity_channel_index.rs struct:CommodityChannelIndex
//@end
//@extract src/indicators/commodity_channel_index.rs struct:CommodityChannelIndexInstance
//@end
impl CommodityChannelIndex {
	pub open spec fn valid(&self) -> bool { self.zone@ >= 0real && self.period > 1 && self.period < PeriodType::MAX }
//@extract src/indicators/commodity_channel_index.rs impl[IndicatorConfig for CommodityChannelIndex]::validate pub
	ensures r == self.valid(),
//@end
//@extract src/indicators/commodity_channel_index.rs impl[IndicatorConfig for CommodityChannelIndex]::size pub
	ensures r == (1u8, 1u8),
//@end
//@extract src/indicators/commodity_channel_index.rs impl[IndicatorConfig for CommodityChannelIndex]::init pub
//@sig pub fn init<T: OHLCV>(self, candle: &T) -> (r: Result<CommodityChannelIndexInstance, Error>)
	ensures
		!self.valid() ==> r is Err,
		r is Ok ==> r->Ok_0.inv() && r->Ok_0.cfg == self,
		// documented seeds: CCI(period) from the source price; previous value 0, no previous signal
		r is Ok ==> r->Ok_0.last_cci@ == 0real && r->Ok_0.last_signal == 0 && r->Ok_0.cci.0.0.window.view().len() == self.period,
		// C08: the constant state for the candle's source price (cci_ind_const_step)
		r is Ok ==> r->Ok_0.const_state(src_val(candle, self.source)),
//@replace Ok(Self::Instance { ==> Ok(CommodityChannelIndexInstance {
//@end
}
pub open spec fn cci_ind_step(pre: &CommodityChannelIndexInstance, src: ValueType, post: &CommodityChannelIndexInstance, value: ValueType, sig: Action, c: ValueType) -> bool {
	// documented value: CCI of the source with the customary 1/0.015 scaling replaced by 1/1.5 (values around [-1; 1])
	&&& CCI::step(&pre.cci, &src, &post.cci, &c)
	&&& value@ == c@ * (1real / 1.5real)
	&&& post.last_cci == value
	// documented signal: full buy when the value goes below -zone, full sell when it goes above +zone; the same signal is not repeated
	&&& ({
		let z = pre.cfg.zone@;
		let t = (if value@ < -z && pre.last_cci@ >= -z { 1int } else { 0int }) - (if value@ > z && pre.last_cci@ <= z { 1int } else { 0int });
		let s = if t != 0 && pre.last_signal as int != t { t } else { 0int };
		sig == Action::of_i8(s) && post.last_signal as int == s
	})
}
impl CommodityChannelIndexInstance {
	pub open spec fn inv(&self) -> bool { self.cci.inv() && -1 <= self.last_signal <= 1 }
//@extract src/indicators/commodity_channel_index.rs impl[IndicatorInstance for CommodityChannelIndexInstance]::next pub into=action
	requires old(self).inv()
	ensures final(self).inv(), final(self).cfg == old(self).cfg,
		r.length == (1u8, 1u8),
		exists|c: ValueType, src: ValueType| src@ == src_val(candle, old(self).cfg.source)
			&& #[trigger] cci_ind_step(old(self), src, final(self), r.vals()[0], r.sigs()[0], c),
//@replace let cci = self.cci.next(&value) * SCALE; ==> let c__ = self.cci.next(&value); let cci = c__ * SCALE();
//@hint before self.last_cci = cci;
	proof {
		let b = if t_signal != 0 && self.last_signal != t_signal { 1int } else { 0int };
		assert(b * (t_signal as int) == (if b == 1 { t_signal as int } else { 0 })) by(nonlinear_arith) requires b == 0 || b == 1;
	}
//@hint result
	proof { assert(cci_ind_step(old(self), value, self, r.vals()[0], r.sigs()[0], c__)); }
//@end
}

// ---- C08 at indicator level: CommodityChannelIndex on a repeated candle: deviation 0, CCI 0, no signal
pub open spec fn all_eq(v: Seq<R>, s: real) -> bool { forall|i: int| 0 <= i < v.len() ==> (#[trigger] v[i])@ == s }
pub proof fn lemma_abs_dev_all_eq(v: Seq<R>, s: real)
	requires all_eq(v, s)
	ensures abs_dev_sum(v, s) == 0real
	decreases v.len()
{
	if v.len() > 0 {
		assert forall|i: int| 0 <= i < v.drop_last().len() implies (#[trigger] v.drop_last()[i])@ == s by { assert(v.drop_last()[i] == v[i]); }
		lemma_abs_dev_all_eq(v.drop_last(), s);
		assert(v.last()@ == s) by { assert(v.last() == v[v.len() - 1]); }
	}
}
impl CommodityChannelIndexInstance {
	pub open spec fn const_state(&self, s: real) -> bool {
		self.inv() && all_eq(self.cci.0.0.window.view(), s) && self.last_cci@ == 0real && self.last_signal == 0 && self.cfg.zone@ >= 0real
	}
}
pub proof fn cci_ind_const_step(pre: &CommodityChannelIndexInstance, src: ValueType, post: &CommodityChannelIndexInstance, value: ValueType, sig: Action, c: ValueType)
	requires pre.const_state(src@), post.inv(), post.cfg == pre.cfg, cci_ind_step(pre, src, post, value, sig, c)
	ensures value@ == 0real, sig is None, post.const_state(src@)
{
	let v = post.cci.0.0.window.view();
	assert forall|i: int| 0 <= i < v.len() implies (#[trigger] v[i])@ == src@ by { if i < v.len() - 1 { assert(v[i] == pre.cci.0.0.window.view()[i + 1]); } }
	lemma_sum_all_eq(v, src@);
	let n = v.len() as real;
	assert((n * src@) / n == src@) by(nonlinear_arith) requires n >= 1real;
	lemma_abs_dev_all_eq(v, src@);
	assert(0real / n == 0real) by(nonlinear_arith) requires n >= 1real;
	assert(0real * (1real / 1.5real) == 0real) by(nonlinear_arith);
}

// ================================================================== HullMovingAverage
//@extract src/indicators/hull_moving_average.rs struct:HullMovingAverage
//@end
//@extract src/indicators/hull_moving_average.rs struct:HullMovingAverageInstance
//@end
impl HullMovingAverage {
	pub open spec fn valid(&self) -> bool {
		self.period > 2 && self.left >= 1 && self.right >= 1 && (self.left as int) + (self.right as int) < (PeriodType::MAX as int)
	}
//@extract src/indicators/hull_moving_average.rs impl[IndicatorConfig for HullMovingAverage]::validate pub
	ensures r == self.valid(),
//@end
//@extract src/indicators/hull_moving_average.rs impl[IndicatorConfig for HullMovingAverage]::size pub
	ensures r == (1u8, 1u8),
//@end
//@extract src/indicators/hull_moving_average.rs impl[IndicatorConfig for HullMovingAverage]::init pub
//@sig pub fn init<T: OHLCV>(self, candle: &T) -> (r: Result<HullMovingAverageInstance, Error>)
	requires (self.period as int) <= 0xffff_ffff
	ensures
		!self.valid() ==> r is Err,
		r is Ok ==> r->Ok_0.inv() && r->Ok_0.cfg == self && r->Ok_0.pivot.high.index == 0 && r->Ok_0.pivot.low.index == 0,
		r is Ok ==> r->Ok_0.pivot.high.left == self.left && r->Ok_0.pivot.high.right == self.right,
		// C08: the constant state for the candle's source price (hma_ind_const_step)
		r is Ok ==> r->Ok_0.const_state(src_val(candle, self.source)),
//@replace Ok(Self::Instance { ==> Ok(HullMovingAverageInstance {
//@replace ReversalSignal::new( ==> ReversalSignal::new3(
//@end
}
pub open spec fn hma_ind_step(pre: &HullMovingAverageInstance, src: ValueType, post: &HullMovingAverageInstance, value: ValueType, sig: Action) -> bool {
	// documented: the Hull moving average of the source; signal: pivot (left, right) of the average
	&&& HMA::step(&pre.hma, &src, &post.hma, &value)
	&&& ReversalSignal::step(&pre.pivot, &value, &post.pivot, &sig)
}
impl HullMovingAverageInstance {
	pub open spec fn inv(&self) -> bool { self.hma.inv() && self.pivot.inv() }
	// KNOWN FINDING (C07/C14): the pivot detector's position counter saturates at PeriodType::MAX; the contract covers the calls before that
	pub open spec fn in_capacity(&self) -> bool { self.pivot.high.index < PeriodType::MAX && self.pivot.low.index < PeriodType::MAX }
//@extract src/indicators/hull_moving_average.rs impl[IndicatorInstance for HullMovingAverageInstance]::next pub
	requires old(self).inv(), old(self).in_capacity()
	ensures final(self).inv(), final(self).cfg == old(self).cfg,
		r.length == (1u8, 1u8),
		exists|src: ValueType| src@ == src_val(candle, old(self).cfg.source) && #[trigger] hma_ind_step(old(self), src, final(self), r.vals()[0], r.sigs()[0]),
//@hint result
	proof { assert(hma_ind_step(old(self), tmp0__, self, r.vals()[0], r.sigs()[0])); }
//@end
}

// ---- C08 at indicator level: HullMovingAverage fed the candle it was initialised with returns the source price and never signals
// (HMA can overshoot on a varying stream, but on windows that hold one value all three weighted averages return that value)
pub open spec fn hma_const_state(h: &HMA, s: real) -> bool {
	h.inv() && all_within(h.wma1.window.view(), s, s) && all_within(h.wma2.window.view(), s, s) && all_within(h.wma3.window.view(), s, s)
}
pub proof fn lemma_wma_within_step(pre: &WMA, x: &ValueType, post: &WMA, out: &ValueType, s: real)
	requires pre.inv(), all_within(pre.window.view(), s, s), x@ == s, WMA::step(pre, x, post, out)
	ensures all_within(post.window.view(), s, s), out@ == s
{
	let v = post.window.view();
	assert forall|i: int| 0 <= i < v.len() implies s <= (#[trigger] v[i])@ <= s by {
		if i < v.len() - 1 { assert(v[i] == pre.window.view()[i + 1]); }
	}
	wma_range(v, s, s);
}
pub proof fn hma_const_step(pre: &HMA, x: ValueType, post: &HMA, out: ValueType)
	requires hma_const_state(pre, x@), post.inv(), HMA::step(pre, &x, post, &out)
	ensures out@ == x@, hma_const_state(post, x@)
{
	let (w1, w2, d) = choose|w1: ValueType, w2: ValueType, d: ValueType| #[trigger] hma_parts(pre, &x, post, &out, w1, w2, d);
	lemma_wma_within_step(&pre.wma1, &x, &post.wma1, &w1, x@);
	lemma_wma_within_step(&pre.wma2, &x, &post.wma2, &w2, x@);
	lemma_wma_within_step(&pre.wma3, &d, &post.wma3, &out, x@);
}
impl HullMovingAverageInstance {
	pub open spec fn const_state(&self, s: real) -> bool { self.inv() && hma_const_state(&self.hma, s) && reversal_const_state(&self.pivot, s) }
}
pub proof fn hma_ind_const_step(pre: &HullMovingAverageInstance, src: ValueType, post: &HullMovingAverageInstance, value: ValueType, sig: Action)
	requires pre.const_state(src@), post.inv(), hma_ind_step(pre, src, post, value, sig)
	ensures value@ == src@, sv(sig) == 0, post.const_state(src@)
{
	hma_const_step(&pre.hma, src, &post.hma, value);
	reversal_const_step(&pre.pivot, value, &post.pivot, sig);
}
} // verus!
fn main() {}
