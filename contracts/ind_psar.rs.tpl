//@unit ind_psar
//@include head.rs
//@import ohlcv.rs.tpl
//@import indicator_base.rs.tpl
//@include indicator_traits.rs
use std::cmp::Ordering;

// high/low/close snapshot of a candle (indicators/mod.rs)
//@import hlc.rs.tpl

// ================================================================== ParabolicSAR
//@extract src/indicators/parabolic_sar.rs struct:ParabolicSAR keepderive
//@end
//@extract src/indicators/parabolic_sar.rs struct:ParabolicSARInstance keepderive
//@end
impl ParabolicSAR {
	pub open spec fn valid(&self) -> bool { self.af_step@ < self.af_max@ }
//@extract src/indicators/parabolic_sar.rs impl[IndicatorConfig for ParabolicSAR]::validate pub
	ensures r == self.valid(),
//@end
//@extract src/indicators/parabolic_sar.rs impl[IndicatorConfig for ParabolicSAR]::size pub
	ensures r == (2u8, 1u8),
//@end
//@extract src/indicators/parabolic_sar.rs impl[IndicatorConfig for ParabolicSAR]::init pub
//@sig pub fn init<T: OHLCV>(self, candle: &T) -> (r: Result<ParabolicSARInstance, Error>)
	ensures
		(r is Ok) == self.valid(),
		// documented start: an uptrend from the first candle, SAR at its low, no previous trend
		r is Ok ==> r->Ok_0.inv() && r->Ok_0.cfg == self && r->Ok_0.trend == 1 && r->Ok_0.prev_trend == 0 && r->Ok_0.trend_inc == 1
			&& r->Ok_0.sar == candle.low_s() && r->Ok_0.low == candle.low_s() && r->Ok_0.high == candle.high_s(),
		r is Ok ==> r->Ok_0.prev_candle.high == candle.high_s() && r->Ok_0.prev_candle.low == candle.low_s(),
//@replace Ok(Self::Instance { ==> Ok(ParabolicSARInstance {
//@end
}
// the complete state transition (what the code does on one candle with high ch and low cl)
pub open spec fn psar_step(pre: &ParabolicSARInstance, ch: real, cl: real, post: &ParabolicSARInstance) -> bool {
	let up = pre.trend > 0;
	let flip = if up { cl < pre.sar@ } else { ch > pre.sar@ };
	// the running extreme of the current trend and the acceleration counter
	let ext = if up { pre.high@ < ch } else { pre.low@ > cl };
	let high1 = if up && ext { ch } else { pre.high@ };
	let low1 = if !up && ext { cl } else { pre.low@ };
	let inc1 = pre.trend_inc as int + (if ext { 1int } else { 0int });
	// on a flip the new trend starts from this candle's opposite extreme, with the counter back at 1 and the SAR at the finished trend's extreme
	let high2 = if flip && !up { ch } else { high1 };
	let low2 = if flip && up { cl } else { low1 };
	let inc2 = if flip { 1int } else { inc1 };
	let sar0 = if flip { if up { high1 } else { low1 } } else { pre.sar@ };
	let af = rmin(pre.cfg.af_max@, pre.cfg.af_step@ * (inc2 as real));
	&&& post.high@ == high2 && post.low@ == low2 && post.trend_inc as int == inc2
	&&& (post.trend > 0 ==> post.sar@ == rmin(rmin(af * (high2 - sar0) + sar0, cl), pre.prev_candle.low@))
	&&& (post.trend < 0 ==> post.sar@ == rmax(rmax(af * (low2 - sar0) + sar0, ch), pre.prev_candle.high@))
}
impl ParabolicSARInstance {
	pub open spec fn inv(&self) -> bool { (self.trend == 1 || self.trend == -1) && self.trend_inc >= 1 }
//@extract src/indicators/parabolic_sar.rs impl[IndicatorInstance for ParabolicSARInstance]::next pub into=action
	// the acceleration counter is a u32: the contract covers trends shorter than u32::MAX steps
	requires old(self).inv(), old(self).trend_inc < u32::MAX
	ensures final(self).inv(), final(self).cfg == old(self).cfg,
		r.length == (2u8, 1u8),
		// the trend flips exactly when the candle pierces the current SAR; the reported SAR is then the extreme of the finished trend
		({
			let flip = if old(self).trend > 0 { candle.low_s()@ < old(self).sar@ } else { candle.high_s()@ > old(self).sar@ };
			&&& final(self).trend as int == (if flip { -(old(self).trend as int) } else { old(self).trend as int })
			&&& r.vals()[1]@ == final(self).trend as real
			&&& (!flip ==> r.vals()[0] == old(self).sar)
			&&& (flip && old(self).trend > 0 ==> r.vals()[0]@ == rmax(old(self).high@, candle.high_s()@))
			&&& (flip && old(self).trend < 0 ==> r.vals()[0]@ == rmin(old(self).low@, candle.low_s()@))
			// signal: the new trend's sign on the candle where the trend changes (the first candle reports the initial trend)
			&&& r.sigs()[0] == Action::of_i8(if old(self).prev_trend != final(self).trend { final(self).trend as int } else { 0int })
			&&& final(self).prev_trend == final(self).trend
		}),
		// the complete transition of the remaining state: running extremes, acceleration counter, next SAR, remembered candle
		psar_step(old(self), candle.high_s()@, candle.low_s()@, final(self)),
		final(self).prev_candle.high == candle.high_s() && final(self).prev_candle.low == candle.low_s(),
		// C12: the reported SAR is on the side of the price opposite to the (new) trend
		final(self).trend > 0 ==> r.vals()[0]@ <= candle.low_s()@,
		final(self).trend < 0 ==> r.vals()[0]@ >= candle.high_s()@,
		// the next SAR moves towards the extreme by the acceleration factor min(af_max, af_step * trend_inc) and never crosses the last two candles
		final(self).trend > 0 ==> final(self).sar@ <= candle.low_s()@ && final(self).sar@ <= old(self).prev_candle.low@,
		final(self).trend < 0 ==> final(self).sar@ >= candle.high_s()@ && final(self).sar@ >= old(self).prev_candle.high@,
//@hint before#1 self.trend *= -1;
	proof { assert(self.trend == 1); assert((self.trend as int) * (-1int) == -1int); }
//@hint before#2 self.trend *= -1;
	proof { assert(self.trend == -1); assert((self.trend as int) * (-1int) == 1int); }
//@hint before let signal
	proof {
		let b = if self.prev_trend != trend { 1int } else { 0int };
		let t = trend as int;
		assert(b * t == (if b == 1 { t } else { 0int })) by(nonlinear_arith) requires b == 0 || b == 1;
	}
//@end
}

// ---- C08 at indicator level (non-negative acceleration step, low <= high): fed the candle it was initialised with, ParabolicSAR keeps the SAR at the
// candle's low and the trend at +1; the signal reports the initial trend on the first candle only (the documented exemption) and nothing afterwards.
// (validate() accepts a negative af_step; the SAR then drifts below the low on a repeated candle: recorded as an observation, not a C08 claim)
impl ParabolicSARInstance {
	pub open spec fn const_state(&self, h: real, l: real) -> bool {
		&&& self.inv() && self.trend == 1 && self.high@ == h && self.sar@ == l && self.prev_candle.low@ == l && l <= h
		&&& self.cfg.af_step@ >= 0real && self.cfg.af_max@ >= 0real
	}
}
pub proof fn psar_const_step(pre: &ParabolicSARInstance, h: real, l: real, post: &ParabolicSARInstance, sar: ValueType)
	requires pre.const_state(h, l), post.inv(), post.cfg == pre.cfg, post.trend == 1, psar_step(pre, h, l, post), sar == pre.sar, post.prev_candle.low@ == l
	ensures sar@ == l, post.const_state(h, l)
{
	let af = rmin(pre.cfg.af_max@, pre.cfg.af_step@ * (pre.trend_inc as real));
	assert(pre.cfg.af_step@ * (pre.trend_inc as real) >= 0real) by(nonlinear_arith) requires pre.cfg.af_step@ >= 0real, pre.trend_inc >= 1;
	assert(af * (h - l) >= 0real) by(nonlinear_arith) requires af >= 0real, h - l >= 0real;
}
} // verus!
fn main() {}
