//@unit ma_dispatch
//@include head.rs
//@include sorted_lib.rs
//@include select_lib.rs
use std::cmp::Ordering;
//@import sma.rs.tpl
//@import wma.rs.tpl
//@import compose_ma.rs.tpl
//@import ema.rs.tpl
//@import smm.rs.tpl
//@import swma.rs.tpl
//@import lin_reg.rs.tpl
//@import derived_window.rs.tpl

// ================================================================== helpers::{MA, MAInstance}: the dispatch is faithful to the wrapped kind
//@extract src/helpers/methods.rs enum:MA keepderive
//@end
//@export-begin
//@extract src/helpers/methods.rs enum:MAInstance
//@end
// the instance is of the constructor's kind, freshly built from (length, v) as that kind's own constructor contract says
pub open spec fn ma_seeded(c: MA, v: &ValueType, inst: &MAInstance) -> bool {
	match (c, *inst) {
		(MA::SMA(n), MAInstance::SMA(i)) => SMA::fresh(n, v, &i) && i.inv(),
		(MA::WMA(n), MAInstance::WMA(i)) => WMA::fresh(n, v, &i) && i.inv(),
		(MA::HMA(n), MAInstance::HMA(i)) => HMA::fresh(n, v, &i) && i.inv(),
		(MA::RMA(n), MAInstance::RMA(i)) => RMA::fresh(n, v, &i) && i.inv(),
		(MA::EMA(n), MAInstance::EMA(i)) => EMA::fresh(n, v, &i) && i.inv(),
		(MA::DMA(n), MAInstance::DMA(i)) => DMA::fresh(n, v, &i) && i.inv(),
		(MA::DEMA(n), MAInstance::DEMA(i)) => DEMA::fresh(n, v, &i) && i.inv(),
		(MA::TMA(n), MAInstance::TMA(i)) => TMA::fresh(n, v, &i) && i.inv(),
		(MA::TEMA(n), MAInstance::TEMA(i)) => TEMA::fresh(n, v, &i) && i.inv(),
		(MA::WSMA(n), MAInstance::WSMA(i)) => WSMA::fresh(n, v, &i) && i.inv(),
		(MA::SMM(n), MAInstance::SMM(i)) => SMM::fresh(n, v, &i) && i.inv(),
		(MA::SWMA(n), MAInstance::SWMA(i)) => SWMA::fresh(n, v, &i) && i.inv(),
		(MA::TRIMA(n), MAInstance::TRIMA(i)) => TRIMA::fresh(n, v, &i) && i.inv(),
		(MA::LinReg(n), MAInstance::LinReg(i)) => LinReg::fresh(n, v, &i) && i.inv(),
		(MA::Vidya(n), MAInstance::Vidya(i)) => Vidya::fresh(n, v, &i) && i.inv(),
		_ => false,
	}
}
// the lengths each kind's constructor documents as too small
pub open spec fn ma_rejects(c: MA) -> bool {
	match c {
		MA::SMA(n) => SMA::rejects(n),
		MA::WMA(n) => WMA::rejects(n),
		MA::HMA(n) => HMA::rejects(n),
		MA::RMA(n) => RMA::rejects(n),
		MA::EMA(n) => EMA::rejects(n),
		MA::DMA(n) => DMA::rejects(n),
		MA::DEMA(n) => DEMA::rejects(n),
		MA::TMA(n) => TMA::rejects(n),
		MA::TEMA(n) => TEMA::rejects(n),
		MA::WSMA(n) => WSMA::rejects(n),
		MA::SMM(n) => SMM::rejects(n),
		MA::SWMA(n) => SWMA::rejects(n),
		MA::TRIMA(n) => TRIMA::rejects(n),
		MA::LinReg(n) => LinReg::rejects(n),
		MA::Vidya(n) => Vidya::rejects(n),
	}
}
impl MAInstance {
	pub open spec fn inv(&self) -> bool {
		match *self {
			MAInstance::SMA(i) => i.inv(),
			MAInstance::WMA(i) => i.inv(),
			MAInstance::HMA(i) => i.inv(),
			MAInstance::RMA(i) => i.inv(),
			MAInstance::EMA(i) => i.inv(),
			MAInstance::DMA(i) => i.inv(),
			MAInstance::DEMA(i) => i.inv(),
			MAInstance::TMA(i) => i.inv(),
			MAInstance::TEMA(i) => i.inv(),
			MAInstance::WSMA(i) => i.inv(),
			MAInstance::SMM(i) => i.inv(),
			MAInstance::SWMA(i) => i.inv(),
			MAInstance::TRIMA(i) => i.inv(),
			MAInstance::LinReg(i) => i.inv(),
			MAInstance::Vidya(i) => i.inv(),
		}
	}
	pub open spec fn input_ok(&self, x: &ValueType) -> bool {
		match *self {
			MAInstance::SMA(i) => i.input_ok(x),
			MAInstance::WMA(i) => i.input_ok(x),
			MAInstance::HMA(i) => i.input_ok(x),
			MAInstance::RMA(i) => i.input_ok(x),
			MAInstance::EMA(i) => i.input_ok(x),
			MAInstance::DMA(i) => i.input_ok(x),
			MAInstance::DEMA(i) => i.input_ok(x),
			MAInstance::TMA(i) => i.input_ok(x),
			MAInstance::TEMA(i) => i.input_ok(x),
			MAInstance::WSMA(i) => i.input_ok(x),
			MAInstance::SMM(i) => i.input_ok(x),
			MAInstance::SWMA(i) => i.input_ok(x),
			MAInstance::TRIMA(i) => i.input_ok(x),
			MAInstance::LinReg(i) => i.input_ok(x),
			MAInstance::Vidya(i) => i.input_ok(x),
		}
	}
	// one step of the wrapped kind, the kind itself unchanged
	pub open spec fn step(pre: &Self, x: &ValueType, post: &Self, out: &ValueType) -> bool {
		match (pre, post) {
			(MAInstance::SMA(a), MAInstance::SMA(b)) => SMA::step(a, x, b, out),
			(MAInstance::WMA(a), MAInstance::WMA(b)) => WMA::step(a, x, b, out),
			(MAInstance::HMA(a), MAInstance::HMA(b)) => HMA::step(a, x, b, out),
			(MAInstance::RMA(a), MAInstance::RMA(b)) => RMA::step(a, x, b, out),
			(MAInstance::EMA(a), MAInstance::EMA(b)) => EMA::step(a, x, b, out),
			(MAInstance::DMA(a), MAInstance::DMA(b)) => DMA::step(a, x, b, out),
			(MAInstance::DEMA(a), MAInstance::DEMA(b)) => DEMA::step(a, x, b, out),
			(MAInstance::TMA(a), MAInstance::TMA(b)) => TMA::step(a, x, b, out),
			(MAInstance::TEMA(a), MAInstance::TEMA(b)) => TEMA::step(a, x, b, out),
			(MAInstance::WSMA(a), MAInstance::WSMA(b)) => WSMA::step(a, x, b, out),
			(MAInstance::SMM(a), MAInstance::SMM(b)) => SMM::step(a, x, b, out),
			(MAInstance::SWMA(a), MAInstance::SWMA(b)) => SWMA::step(a, x, b, out),
			(MAInstance::TRIMA(a), MAInstance::TRIMA(b)) => TRIMA::step(a, x, b, out),
			(MAInstance::LinReg(a), MAInstance::LinReg(b)) => LinReg::step(a, x, b, out),
			(MAInstance::Vidya(a), MAInstance::Vidya(b)) => Vidya::step(a, x, b, out),
			_ => false,
		}
	}
//@extract src/helpers/methods.rs impl[Method for MAInstance]::next pub
//@sig pub fn next(&mut self, value: &ValueType) -> (r: ValueType)
	requires old(self).inv(), old(self).input_ok(value)
	ensures final(self).inv(), MAInstance::step(old(self), value, final(self), &r),
//@end
}
impl MA {
//@extract src/helpers/methods.rs impl[MovingAverageConstructor for MA]::init pub
//@sig #[verifier::rlimit(60)] pub fn init(&self, value: ValueType) -> (r: Result<MAInstance, Error>)
	// HMA/WMA compute sums of 1..length in 32 bits: lengths above 2^32 exist only under period_type_u64
	requires (self.period_s() as int) <= 0xffff_ffff
	ensures
		ma_rejects(*self) ==> r is Err,
		r is Ok ==> r->Ok_0.inv() && ma_seeded(*self, &value, &r->Ok_0),
//@replaceall Ok(Self::Instance:: ==> Ok(MAInstance::
//@end
	pub open spec fn period_s(&self) -> PeriodType {
		match *self {
			MA::SMA(n) => n, MA::WMA(n) => n, MA::HMA(n) => n, MA::RMA(n) => n, MA::EMA(n) => n, MA::DMA(n) => n, MA::DEMA(n) => n, MA::TMA(n) => n, MA::TEMA(n) => n, MA::WSMA(n) => n, MA::SMM(n) => n, MA::SWMA(n) => n, MA::TRIMA(n) => n, MA::LinReg(n) => n, MA::Vidya(n) => n,
		}
	}
//@extract src/helpers/methods.rs impl[MovingAverageConstructor for MA]::ma_period pub
	ensures r == self.period_s(),
//@end
//@extract src/helpers/methods.rs impl[MovingAverageConstructor for MA]::ma_type pub
//@sig pub fn ma_type(&self) -> (r: u8)
	// distinct kinds have distinct type tags (is_similar_to compares them): see lemma_tag_kind
	ensures r == ma_tag(*self),
//@end
}
pub open spec fn ma_tag(c: MA) -> u8 {
	match c { MA::SMA(_) => 0, MA::WMA(_) => 1, MA::HMA(_) => 2, MA::RMA(_) => 3, MA::EMA(_) => 4, MA::DMA(_) => 5, MA::TMA(_) => 6, MA::DEMA(_) => 7, MA::TEMA(_) => 8, MA::WSMA(_) => 9, MA::SMM(_) => 10, MA::SWMA(_) => 11, MA::TRIMA(_) => 12, MA::LinReg(_) => 13, MA::Vidya(_) => 14, }
}
pub open spec fn same_kind(a: MA, b: MA) -> bool {
	match (a, b) { (MA::SMA(_), MA::SMA(_)) => true, (MA::WMA(_), MA::WMA(_)) => true, (MA::HMA(_), MA::HMA(_)) => true, (MA::RMA(_), MA::RMA(_)) => true, (MA::EMA(_), MA::EMA(_)) => true, (MA::DMA(_), MA::DMA(_)) => true, (MA::DEMA(_), MA::DEMA(_)) => true, (MA::TMA(_), MA::TMA(_)) => true, (MA::TEMA(_), MA::TEMA(_)) => true, (MA::WSMA(_), MA::WSMA(_)) => true, (MA::SMM(_), MA::SMM(_)) => true, (MA::SWMA(_), MA::SWMA(_)) => true, (MA::TRIMA(_), MA::TRIMA(_)) => true, (MA::LinReg(_), MA::LinReg(_)) => true, (MA::Vidya(_), MA::Vidya(_)) => true, _ => false }
}
pub proof fn lemma_tag_kind(a: MA, b: MA)
	ensures (ma_tag(a) == ma_tag(b)) == same_kind(a, b)
{
}
//@export-end
} // verus!
fn main() {}
