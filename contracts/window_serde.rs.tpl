//@unit window_serde
#![feature(allocator_api)]
#![allow(unused_imports, unused_variables, dead_code, unused_mut, unused_parens, unused_braces)]
use vstd::prelude::*;
use std::mem;
verus! {
global layout usize is size == 8;
//@include period.rs
//@include std_specs.rs
//@import window.rs.tpl

// what the hand-written Serialize impl writes and the derived SerializableWindow reads back: exactly `buf` and `index`
//@extract src/core/window.rs struct:SerializableWindow
//@end

impl<T> Window<T> {
	// Serialize for Window writes the fields buf and index (serialize_field("buf", &self.buf), serialize_field("index", &self.index))
	pub open spec fn serialized(&self) -> (Seq<T>, PeriodType) { (self.buf@, self.index) }

	// Deserialize for Window after the derived SerializableWindow::deserialize produced `w` (serde glue and error text construction dropped, R11)
//@extract src/core/window.rs impl[Deserialize<'de> for Window<T>]::deserialize pub
//@sig pub fn deserialize_parts(w: SerializableWindow<T>) -> (r: Result<Self, ()>)
	ensures
		// malformed data is rejected with an error, never a panic: oversized buffer, index outside the buffer
		(w.buf@.len() > PeriodType::MAX as int - 1 || w.buf@.len() <= w.index as int) <==> r is Err,
		// accepted data gives a well-formed window that represents exactly the serialized sequence
		r is Ok ==> r->Ok_0.wf()
			&& r->Ok_0.view() =~= w.buf@.subrange(w.index as int, w.buf@.len() as int) + w.buf@.subrange(0, w.index as int),
//@replace let w = SerializableWindow::deserialize(deserializer)?; ==> 
//@end
}

// C13 for Window: serialize then deserialize restores a window with the same buffer, index and abstract sequence
pub fn window_snapshot_roundtrip<T>(w: Window<T>) -> (r: Result<Window<T>, ()>)
	requires w.wf(), w.cap() > 0
	ensures r is Ok, r->Ok_0.wf(), r->Ok_0.view() =~= w.view()
{
	let ghost v0 = w.view();
	let Window { buf, index, size, s_1 } = w;
	let r = Window::deserialize_parts(SerializableWindow { buf, index });
	proof {
		let n = size as int;
		assert forall|i: int| 0 <= i < n implies #[trigger] slot_of(index as int, i, n) == (if index as int + i < n { index as int + i } else { index as int + i - n }) by {
			lemma_mod_index(index as int, i, n);
		}
	}
	r
}
} // verus!
fn main() {}
