//@unit ind_stoch_cmf
//@include head.rs
//@include select_lib.rs
//@import ohlcv.rs.tpl
//@import indicator_base.rs.tpl
//@include indicator_traits.rs
//@import highest_lowest.rs.tpl
//@import candle_methods.rs.tpl

// ================================================================== ChaikinMoneyFlow
//@extract src/indicators/chaikin_money_flow.rs struct:ChaikinMoneyFlow keepderive
//@end
//@extract src/indicators/chaikin_money_flow.rs struct:ChaikinMoneyFlowInstance
//@end
impl ChaikinMoneyFlow {
	pub open spec fn valid(&self) -> bool { self.size > 1 && self.size < PeriodType::MAX }
//@extract src/indicators/chaikin_money_flow.rs impl[IndicatorConfig for ChaikinMoneyFlow]::validate pub
	ensures r == self.valid(),
//@end
//@extract src/indicators/chaikin_money_flow.rs impl[IndicatorConfig for ChaikinMoneyFlow]::size pub
	ensures r == (1u8, 1u8),
//@end
//@extract src/indicators/chaikin_money_flow.rs impl[IndicatorConfig for ChaikinMoneyFlow]::init pub
//@sig pub fn init<T: OHLCV>(self, candle: &T) -> (r: Result<ChaikinMoneyFlowInstance, Error>)
	ensures
		!self.valid() ==> r is Err,
		r is Ok ==> r->Ok_0.inv() && r->Ok_0.cfg == self,
		r is Ok ==> r->Ok_0.window.view() =~= konst(self.size as nat, candle.volume_s()) && r->Ok_0.cross_over.up.last_delta@ == 0real,
		r is Ok && ordered_candle(candle) ==> r->Ok_0.dominated(),
		// C08: for a candle with positive volume, the constant state for that candle (cmf_const_step)
		r is Ok && candle.volume_s()@ > 0real ==> r->Ok_0.const_state(candle),
//@replace Ok(Self::Instance { ==> Ok(ChaikinMoneyFlowInstance {
//@replace ADI::new(cfg.size, candle)? ==> ADI::new(cfg.size, as_dyn(candle))?
//@hint before Ok(Self::Instance
	proof {
		lemma_sum_konst(cfg.size as nat, candle.volume_s());
		let (v, n) = (candle.volume_s()@, cfg.size as real);
		assert(v * n == n * v) by(nonlinear_arith);
	}
//@hint result
	proof {
		if r is Ok {
			lemma_cloned_konst(r->Ok_0.window.view(), self.size as nat, candle.volume_s());
			if ordered_candle(candle) {
				lemma_clv_bounded(candle);
				assert(clv_spec(as_dyn_spec(candle)) == clv_spec(candle));
			}
		}
	}
//@end
}
// ---- C12: |Σ CLV*volume| <= Σ volume while every candle is ordered (low <= close <= high) and has a non-negative volume
pub open spec fn ordered_candle<T: OHLCV>(c: &T) -> bool { c.low_s()@ <= c.close_s()@ <= c.high_s()@ && c.volume_s()@ >= 0real }
pub open spec fn pointwise_dominated(a: Seq<R>, b: Seq<R>) -> bool {
	a.len() == b.len() && forall|i: int| 0 <= i < a.len() ==> rabs((#[trigger] a[i])@) <= b[i]@
}
pub proof fn lemma_sum_dominated(a: Seq<R>, b: Seq<R>)
	requires pointwise_dominated(a, b)
	ensures rabs(sum(a)) <= sum(b)
	decreases a.len()
{
	if a.len() > 0 {
		assert(pointwise_dominated(a.drop_last(), b.drop_last())) by {
			assert forall|i: int| 0 <= i < a.drop_last().len() implies rabs((#[trigger] a.drop_last()[i])@) <= b.drop_last()[i]@ by { assert(a.drop_last()[i] == a[i]); }
		}
		lemma_sum_dominated(a.drop_last(), b.drop_last());
		assert(rabs(a.last()@) <= b.last()@) by { assert(a.last() == a[a.len() - 1]); }
	}
}
pub proof fn lemma_clv_bounded<T: OHLCV>(c: &T)
	requires ordered_candle(c)
	ensures rabs(clv_spec(c) * c.volume_s()@) <= c.volume_s()@
{
	let (h, l, cl, v) = (c.high_s()@, c.low_s()@, c.close_s()@, c.volume_s()@);
	if h != l {
		let d = h - l;
		let num = (cl - l) - (h - cl);
		assert(-1real <= num / d && num / d <= 1real) by(nonlinear_arith) requires d > 0real, -d <= num, num <= d;
		let q = num / d;
		assert(-v <= q * v && q * v <= v) by(nonlinear_arith) requires -1real <= q <= 1real, v >= 0real;
	} else {
		assert(0real * v == 0real) by(nonlinear_arith);
	}
}
impl ChaikinMoneyFlowInstance {
	// every CLV*volume term kept by the ADI is dominated by the volume kept at the same position
	pub open spec fn dominated(&self) -> bool { pointwise_dominated(self.adi.window.view(), self.window.view()) }
	pub open spec fn inv(&self) -> bool {
		&&& self.adi.inv() && self.adi.window.cap() >= 1 && self.window.wf() && self.window.cap() >= 1
		&&& self.vol_sum@ == sum(self.window.view()) && self.cross_over.inv()
	}
//@extract src/indicators/chaikin_money_flow.rs impl[IndicatorInstance for ChaikinMoneyFlowInstance]::next pub into=action
	requires old(self).inv()
	ensures final(self).inv(), final(self).cfg == old(self).cfg,
		r.length == (1u8, 1u8),
		// documented: Σ CLV*volume / Σ volume over the last `size` candles (wherever Σ volume != 0)
		final(self).window.view() == old(self).window.view().drop_first().push(candle.volume_s()),
		// (stated over the post-state: the ADI's output is its stored running sum, so no local name is needed as a witness)
		ADI::step(&old(self).adi, as_dyn_spec(candle), &final(self).adi, &final(self).adi.cmf_sum),
		sum(final(self).window.view()) != 0real ==> r.vals()[0]@ == final(self).adi.cmf_sum@ / sum(final(self).window.view()),
		// signal: the value crossing zero
		exists|z: ValueType| z@ == 0real && #[trigger] Cross::step(&old(self).cross_over, &(r.vals()[0], z), &final(self).cross_over, &r.sigs()[0]),
		// C12: documented range [-1; 1] on ordered candles with non-negative volume, wherever the total volume is positive
		old(self).dominated() && ordered_candle(candle) ==> final(self).dominated() && (sum(final(self).window.view()) > 0real ==> -1real <= r.vals()[0]@ <= 1real),
//@replace self.adi.next(candle) ==> self.adi.next(as_dyn(candle))
//@hint before self.vol_sum +=
	proof { lemma_sum_slide(self.window.view(), candle.volume_s()); }
//@hint result
	proof {
		assert(Cross::step(&old(self).cross_over, &(r.vals()[0], mk(0real)), &self.cross_over, &r.sigs()[0]));
		if old(self).dominated() && ordered_candle(candle) {
			lemma_clv_bounded(candle);
			assert(clv_spec(as_dyn_spec(candle)) == clv_spec(candle));
			let (a, b) = (self.adi.window.view(), self.window.view());
			let (a0, b0) = (old(self).adi.window.view(), old(self).window.view());
			assert forall|i: int| 0 <= i < a.len() implies rabs((#[trigger] a[i])@) <= b[i]@ by {
				if i < a.len() - 1 {
					assert(a[i] == a.drop_last()[i] && a.drop_last()[i] == a0.drop_first()[i] && a0.drop_first()[i] == a0[i + 1]);
					assert(b[i] == b0[i + 1]);
				}
			}
			lemma_sum_dominated(a, b);
			let (n, d) = (self.adi.cmf_sum@, sum(b));
			if d > 0real { assert(-1real <= n / d <= 1real) by(nonlinear_arith) requires d > 0real, -d <= n <= d; }
		}
	}
//@end
}

// ---- C08 at indicator level: ChaikinMoneyFlow (windowed, size > 1) on a repeated candle with positive volume: value = the candle's CLV at every step, no signal
pub open spec fn all_eq(v: Seq<R>, s: real) -> bool { forall|i: int| 0 <= i < v.len() ==> (#[trigger] v[i])@ == s }
impl ChaikinMoneyFlowInstance {
	pub open spec fn const_state<T: OHLCV>(&self, c: &T) -> bool {
		&&& self.inv() && c.volume_s()@ > 0real
		&&& all_eq(self.adi.window.view(), clv_spec(as_dyn_spec(c)) * c.volume_s()@) && all_eq(self.window.view(), c.volume_s()@)
		&&& self.adi.window.view().len() == self.window.view().len()
		&&& (self.cross_over.up.last_delta@ == 0real || self.cross_over.up.last_delta@ == clv_spec(as_dyn_spec(c)))
	}
}
pub proof fn cmf_const_step<T: OHLCV>(pre: &ChaikinMoneyFlowInstance, c: &T, post: &ChaikinMoneyFlowInstance, value: ValueType, z: ValueType, sig: Action)
	requires pre.const_state(c), post.inv(), as_dyn_spec(c).volume_s() == c.volume_s(),
		post.window.view() == pre.window.view().drop_first().push(c.volume_s()),
		ADI::step(&pre.adi, as_dyn_spec(c), &post.adi, &post.adi.cmf_sum),
		sum(post.window.view()) != 0real ==> value@ == post.adi.cmf_sum@ / sum(post.window.view()),
		z@ == 0real, Cross::step(&pre.cross_over, &(value, z), &post.cross_over, &sig)
	ensures value@ == clv_spec(as_dyn_spec(c)), sig is None, post.const_state(c)
{
	let (k, v) = (clv_spec(as_dyn_spec(c)), c.volume_s()@);
	let (a, b) = (post.adi.window.view(), post.window.view());
	assert forall|i: int| 0 <= i < b.len() implies (#[trigger] b[i])@ == v by { if i < b.len() - 1 { assert(b[i] == pre.window.view()[i + 1]); } }
	assert forall|i: int| 0 <= i < a.len() implies (#[trigger] a[i])@ == k * v by {
		if i < a.len() - 1 { assert(a[i] == a.drop_last()[i] && a.drop_last()[i] == pre.adi.window.view().drop_first()[i] && pre.adi.window.view().drop_first()[i] == pre.adi.window.view()[i + 1]); }
		else { assert(a[i] == a.last()); }
	}
	lemma_sum_all_eq(a, k * v);
	lemma_sum_all_eq(b, v);
	let n = b.len() as real;
	assert(n * v > 0real) by(nonlinear_arith) requires n >= 1real, v > 0real;
	assert((n * (k * v)) / (n * v) == k) by(nonlinear_arith) requires n >= 1real, v > 0real;
}

// ================================================================== StochasticOscillator (generic in the averaging kind)
//@extract src/indicators/stochastic_oscillator.rs struct:StochasticOscillator
//@end
//@extract src/indicators/stochastic_oscillator.rs struct:StochasticOscillatorInstance
//@end
// documented %K: (close - lowest low) / (highest high - lowest low) over the last `period` candles, 0.5 on a zero range
pub open spec fn k_rows_spec(close: real, hi: real, lo: real) -> real { if hi == lo { 0.5real } else { (close - lo) / (hi - lo) } }
impl<M: MovingAverageConstructor> StochasticOscillator<M> {
	pub open spec fn valid(&self) -> bool { self.period > 1 && self.zone@ >= 0real && self.zone@ <= 0.5real }
//@extract src/indicators/stochastic_oscillator.rs impl[IndicatorConfig for StochasticOscillator<M>]::validate pub
	ensures r == self.valid(),
//@end
//@extract src/indicators/stochastic_oscillator.rs impl[IndicatorConfig for StochasticOscillator<M>]::size pub
	ensures r == (2u8, 3u8),
//@end
//@extract src/indicators/stochastic_oscillator.rs impl[IndicatorConfig for StochasticOscillator<M>]::init pub
//@sig pub fn init<T: OHLCV>(self, candle: &T) -> (r: Result<StochasticOscillatorInstance<M>, Error>)
	ensures
		!self.valid() ==> r is Err,
		r is Ok ==> r->Ok_0.inv() && r->Ok_0.cfg == self,
		// documented seeds: both averages start from the first candle's own %K
		r is Ok ==> self.ma.seeded(k_rows_spec(candle.close_s()@, candle.high_s()@, candle.low_s()@), &r->Ok_0.ma1)
			&& self.signal.seeded(k_rows_spec(candle.close_s()@, candle.high_s()@, candle.low_s()@), &r->Ok_0.ma2),
		r is Ok && candle.low_s()@ <= candle.close_s()@ <= candle.high_s()@ ==> r->Ok_0.ma1.within(0real, 1real) && r->Ok_0.ma2.within(0real, 1real),
		r is Ok ==> r->Ok_0.ma1.convex() == self.ma.convex_kind() && r->Ok_0.ma2.convex() == self.signal.convex_kind(),
//@replace Ok(Self::Instance { ==> Ok(StochasticOscillatorInstance {
//@hint before Ok(Self::Instance
	proof {
		let (c, h, l) = (candle.close_s()@, candle.high_s()@, candle.low_s()@);
		if l <= c && c <= h && h != l { assert(0real <= (c - l) / (h - l) && (c - l) / (h - l) <= 1real) by(nonlinear_arith) requires l <= c, c <= h, h != l; }
	}
//@hint result
	proof {
		if r is Ok {
			let k = k_rows_spec(candle.close_s()@, candle.high_s()@, candle.low_s()@);
			if candle.low_s()@ <= candle.close_s()@ && candle.close_s()@ <= candle.high_s()@ {
				r->Ok_0.ma1.lemma_within_weaken(k, k, 0real, 1real);
				r->Ok_0.ma2.lemma_within_weaken(k, k, 0real, 1real);
			}
		}
	}
//@end
}
pub open spec fn stoch_step<M: MovingAverageConstructor>(pre: &StochasticOscillatorInstance<M>, c: real, h: ValueType, l: ValueType, post: &StochasticOscillatorInstance<M>, f1: ValueType, f2: ValueType, hi: ValueType, lo: ValueType, k: ValueType) -> bool {
	&&& Highest::step(&pre.highest, &h, &post.highest, &hi) && Lowest::step(&pre.lowest, &l, &post.lowest, &lo)
	&&& k@ == k_rows_spec(c, hi@, lo@)
	// %K smoothed by the first average, %D = second average of that
	&&& <M::Instance as Method>::step(&pre.ma1, &k, &post.ma1, &f1)
	&&& <M::Instance as Method>::step(&pre.ma2, &f1, &post.ma2, &f2)
}
impl<M: MovingAverageConstructor> StochasticOscillatorInstance<M> {
	pub open spec fn inv(&self) -> bool {
		self.highest.inv() && self.lowest.inv() && self.ma1.inv() && self.ma2.inv() && self.cross_over.inv()
			&& self.upper_zone@ == 1real - self.cfg.zone@
	}
//@extract src/indicators/stochastic_oscillator.rs impl[IndicatorInstance for StochasticOscillatorInstance<M>]::next pub into=action
	requires old(self).inv()
	ensures final(self).inv(), final(self).cfg == old(self).cfg,
		r.length == (2u8, 3u8),
		exists|hi: ValueType, lo: ValueType, k: ValueType|
			#[trigger] stoch_step(old(self), candle.close_s()@, candle.high_s(), candle.low_s(), final(self), r.vals()[0], r.vals()[1], hi, lo, k)
			// C12: %K of an ordered candle lies in [0, 1]; with averaging kinds that cannot overshoot both lines stay in [0, 1]
			&& (candle.low_s()@ <= candle.close_s()@ <= candle.high_s()@ ==> 0real <= k@ <= 1real)
			&& (candle.low_s()@ <= candle.close_s()@ <= candle.high_s()@ && old(self).ma1.convex() && old(self).ma2.convex()
				&& old(self).ma1.within(0real, 1real) && old(self).ma2.within(0real, 1real)
				==> 0real <= r.vals()[0]@ <= 1real && 0real <= r.vals()[1]@ <= 1real && final(self).ma1.within(0real, 1real) && final(self).ma2.within(0real, 1real)
					&& final(self).ma1.convex() && final(self).ma2.convex()),
		// signals: each line entering the lower zone from below (+) / the upper zone from above (-); %K crossing %D
		exists|a1: Action, u1: Action, a2: Action, u2: Action|
			#[trigger] stoch_signals(old(self), r.vals()[0], r.vals()[1], final(self), r.sigs()[0], r.sigs()[1], a1, u1, a2, u2),
		Cross::step(&old(self).cross_over, &(r.vals()[0], r.vals()[1]), &final(self).cross_over, &r.sigs()[2]),
//@hint before let f1 =
	proof {
		self.ma1.input_always_ok(&k_rows);
		let hv = self.highest.window.view();
		let lv = self.lowest.window.view();
		assert(hv[hv.len() - 1] == high && lv[lv.len() - 1] == low);
		let (c, h, l) = (close@, highest@, lowest@);
		if candle.low_s()@ <= c && c <= candle.high_s()@ && h != l {
			assert(0real <= (c - l) / (h - l) && (c - l) / (h - l) <= 1real) by(nonlinear_arith) requires l <= c, c <= h, h != l;
		}
	}
	let ghost pre_ma1 = self.ma1;
	let ghost pre_ma2 = self.ma2;
//@hint before let f2 =
	proof { self.ma2.input_always_ok(&f1); }
//@hint result
	proof {
		let ok = candle.low_s()@ <= candle.close_s()@ && candle.close_s()@ <= candle.high_s()@;
		if ok && old(self).ma1.convex() && old(self).ma2.convex() && old(self).ma1.within(0real, 1real) && old(self).ma2.within(0real, 1real) {
			<M::Instance as MovingAverage>::lemma_within_step(&pre_ma1, &k_rows, &self.ma1, &f1, 0real, 1real);
			<M::Instance as MovingAverage>::lemma_within_step(&pre_ma2, &f1, &self.ma2, &f2, 0real, 1real);
		}
		assert(stoch_step(old(self), candle.close_s()@, candle.high_s(), candle.low_s(), self, r.vals()[0], r.vals()[1], highest, lowest, k_rows));
		assert(stoch_signals(old(self), r.vals()[0], r.vals()[1], self, r.sigs()[0], r.sigs()[1], a1__, u1__, a2__, u2__));
	}
//@replace let s1 = self.cross_above1.next(&(f1, self.cfg.zone)) - self.cross_under1.next(&(f1, self.upper_zone)); ==> let a1__ = self.cross_above1.next(&(f1, self.cfg.zone)); let u1__ = self.cross_under1.next(&(f1, self.upper_zone)); let s1 = a1__ - u1__;
//@replace let s2 = self.cross_above2.next(&(f2, self.cfg.zone)) - self.cross_under2.next(&(f2, self.upper_zone)); ==> let a2__ = self.cross_above2.next(&(f2, self.cfg.zone)); let u2__ = self.cross_under2.next(&(f2, self.upper_zone)); let s2 = a2__ - u2__;
//@end
}
// ---- C08 at indicator level (averaging kinds that cannot overshoot): StochasticOscillator on a repeated candle: %K = %D = the candle's own %K, no signals
impl<M: MovingAverageConstructor> StochasticOscillatorInstance<M> {
	pub open spec fn const_state(&self, c: real, h: real, l: real) -> bool {
		let k = k_rows_spec(c, h, l);
		&&& self.inv() && all_eq(self.highest.window.view(), h) && all_eq(self.lowest.window.view(), l)
		&&& self.ma1.convex() && self.ma2.convex() && self.ma1.within(k, k) && self.ma2.within(k, k)
		&&& self.cross_over.up.last_delta@ == 0real
		// each zone detector has either not seen a value yet or holds the constant difference
		&&& (self.cross_above1.last_delta@ == 0real || self.cross_above1.last_delta@ == k - self.cfg.zone@)
		&&& (self.cross_under1.last_delta@ == 0real || self.cross_under1.last_delta@ == k - self.upper_zone@)
		&&& (self.cross_above2.last_delta@ == 0real || self.cross_above2.last_delta@ == k - self.cfg.zone@)
		&&& (self.cross_under2.last_delta@ == 0real || self.cross_under2.last_delta@ == k - self.upper_zone@)
	}
}
pub proof fn stoch_const_step<M: MovingAverageConstructor>(pre: &StochasticOscillatorInstance<M>, c: real, h: ValueType, l: ValueType, post: &StochasticOscillatorInstance<M>, f1: ValueType, f2: ValueType,
	hi: ValueType, lo: ValueType, k: ValueType, s1: Action, s2: Action, s3: Action, a1: Action, u1: Action, a2: Action, u2: Action)
	requires pre.const_state(c, h@, l@), post.inv(), post.cfg == pre.cfg, stoch_step(pre, c, h, l, post, f1, f2, hi, lo, k),
		stoch_signals(pre, f1, f2, post, s1, s2, a1, u1, a2, u2), Cross::step(&pre.cross_over, &(f1, f2), &post.cross_over, &s3)
	ensures f1@ == k_rows_spec(c, h@, l@), f2@ == f1@, sv(s1) == 0, sv(s2) == 0, s3 is None, post.const_state(c, h@, l@)
{
	let kk = k_rows_spec(c, h@, l@);
	let (a, b) = (post.highest.window.view(), post.lowest.window.view());
	assert forall|i: int| 0 <= i < a.len() implies (#[trigger] a[i])@ == h@ by { if i < a.len() - 1 { assert(a[i] == pre.highest.window.view()[i + 1]); } }
	assert forall|i: int| 0 <= i < b.len() implies (#[trigger] b[i])@ == l@ by { if i < b.len() - 1 { assert(b[i] == pre.lowest.window.view()[i + 1]); } }
	assert(hi@ == h@ && lo@ == l@);
	<M::Instance as MovingAverage>::lemma_within_step(&pre.ma1, &k, &post.ma1, &f1, kk, kk);
	<M::Instance as MovingAverage>::lemma_within_step(&pre.ma2, &f1, &post.ma2, &f2, kk, kk);
}
pub open spec fn stoch_signals<M: MovingAverageConstructor>(pre: &StochasticOscillatorInstance<M>, f1: ValueType, f2: ValueType, post: &StochasticOscillatorInstance<M>, s1: Action, s2: Action, a1: Action, u1: Action, a2: Action, u2: Action) -> bool {
	&&& CrossAbove::step(&pre.cross_above1, &(f1, pre.cfg.zone), &post.cross_above1, &a1)
	&&& CrossUnder::step(&pre.cross_under1, &(f1, pre.upper_zone), &post.cross_under1, &u1)
	&&& CrossAbove::step(&pre.cross_above2, &(f2, pre.cfg.zone), &post.cross_above2, &a2)
	&&& CrossUnder::step(&pre.cross_under2, &(f2, pre.upper_zone), &post.cross_under2, &u2)
	&&& sv(s1) == clamp255(sv(a1) - sv(u1)) && sv(s2) == clamp255(sv(a2) - sv(u2))
}
} // verus!
fn main() {}
