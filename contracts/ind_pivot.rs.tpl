//@unit ind_pivot
//@include head.rs
//@import ohlcv.rs.tpl
//@import indicator_base.rs.tpl
//@include indicator_traits.rs
//@import hlc.rs.tpl
//@import reversal.rs.tpl

// ================================================================== PivotReversalStrategy
//@extract src/indicators/pivot_reversal_strategy.rs struct:PivotReversalStrategy
//@end
//@extract src/indicators/pivot_reversal_strategy.rs struct:PivotReversalStrategyInstance
//@end
impl PivotReversalStrategy {
	pub open spec fn valid(&self) -> bool { self.left >= 1 && self.right >= 1 && (self.left as int) + (self.right as int) < (PeriodType::MAX as int) }
//@extract src/indicators/pivot_reversal_strategy.rs impl[IndicatorConfig for PivotReversalStrategy]::validate pub
	ensures r == self.valid(),
//@end
//@extract src/indicators/pivot_reversal_strategy.rs impl[IndicatorConfig for PivotReversalStrategy]::size pub
	ensures r == (0u8, 1u8),
//@end
//@extract src/indicators/pivot_reversal_strategy.rs impl[IndicatorConfig for PivotReversalStrategy]::init pub
//@sig pub fn init<T: OHLCV>(self, candle: &T) -> (r: Result<PivotReversalStrategyInstance, Error>)
	ensures
		!self.valid() ==> r is Err,
		r is Ok ==> r->Ok_0.inv() && r->Ok_0.cfg == self && r->Ok_0.ph.index == 0 && r->Ok_0.pl.index == 0,
		// documented seeds: pivot-high detector on highs, pivot-low detector on lows, both (left, right); the candle `right` steps back is kept
		r is Ok ==> r->Ok_0.ph.left == self.left && r->Ok_0.ph.right == self.right && r->Ok_0.pl.left == self.left && r->Ok_0.pl.right == self.right
			&& r->Ok_0.window.view().len() == self.right && r->Ok_0.hprice@ == 0real && r->Ok_0.lprice@ == 0real,
		// C08: the constant state for this candle's high and low (pivot_const_step)
		r is Ok ==> r->Ok_0.const_state(candle.high_s(), candle.low_s()),
//@replace Ok(Self::Instance { ==> Ok(PivotReversalStrategyInstance {
//@replace UpperReversalSignal::new( ==> UpperReversalSignal::new3(
//@replace LowerReversalSignal::new( ==> LowerReversalSignal::new3(
//@end
}
// What the code does (NOT the documented rule, see the C06 known finding): the pivot detectors run on highs / lows; the price of the last
// pivot high / low (the candle `right` steps back when the detector fires) is remembered; the signal is se - le with
// le = pivot high now or high <= last pivot-high price, se = pivot low now or low >= last pivot-low price
pub open spec fn pivot_step<T: OHLCV>(pre: &PivotReversalStrategyInstance, candle: &T, post: &PivotReversalStrategyInstance, sig: Action, swh: Action, swl: Action) -> bool {
	let past = pre.window.view()[0];
	&&& UpperReversalSignal::step(&pre.ph, &candle.high_s(), &post.ph, &swh)
	&&& LowerReversalSignal::step(&pre.pl, &candle.low_s(), &post.pl, &swl)
	&&& post.window.view().len() == pre.window.view().len() && post.window.view().drop_last() =~= pre.window.view().drop_first()
	&&& post.window.view().last().high == candle.high_s() && post.window.view().last().low == candle.low_s()
	&&& post.hprice == (if sv(swh) > 0 { past.high } else { pre.hprice })
	&&& post.lprice == (if sv(swl) > 0 { past.low } else { pre.lprice })
	&&& ({
		let le = if sv(swh) > 0 || candle.high_s()@ <= post.hprice@ { 1int } else { 0int };
		let se = if sv(swl) > 0 || candle.low_s()@ >= post.lprice@ { 1int } else { 0int };
		sig == Action::of_i8(se - le)
	})
}
impl PivotReversalStrategyInstance {
	pub open spec fn inv(&self) -> bool { self.ph.inv() && self.pl.inv() && self.window.wf() && self.window.cap() >= 1 }
	// KNOWN FINDING (C07/C14): the pivot detectors' position counters saturate at PeriodType::MAX; the contract covers the calls before that
	pub open spec fn in_capacity(&self) -> bool { self.ph.index < PeriodType::MAX && self.pl.index < PeriodType::MAX }
//@extract src/indicators/pivot_reversal_strategy.rs impl[IndicatorInstance for PivotReversalStrategyInstance]::next pub into=action
	requires old(self).inv(), old(self).in_capacity()
	ensures final(self).inv(), final(self).cfg == old(self).cfg,
		// exactly the announced shape (C11): no values, 1 signal
		r.length == (0u8, 1u8),
		exists|swh: Action, swl: Action| #[trigger] pivot_step(old(self), candle, final(self), r.sigs()[0], swh, swl),
//@hint result
	proof { assert(pivot_step(old(self), candle, self, r.sigs()[0], swh, swl)); }
//@end
}

// ---- C08 at indicator level: fed the candle it was initialised with, neither pivot detector fires, the remembered pivot prices stay put and
// the signal is the same on every step (which signal it is depends only on the candle and the remembered prices; see the C06 known finding)
impl PivotReversalStrategyInstance {
	pub open spec fn const_state(&self, h: ValueType, l: ValueType) -> bool {
		&&& self.inv() && all_eq_r(self.ph.window.view(), h@) && self.ph.seeded_with(&h) && all_eq_r(self.pl.window.view(), l@) && self.pl.seeded_with(&l)
	}
}
pub proof fn pivot_const_step<T: OHLCV>(pre: &PivotReversalStrategyInstance, candle: &T, post: &PivotReversalStrategyInstance, sig: Action, swh: Action, swl: Action)
	requires pre.const_state(candle.high_s(), candle.low_s()), post.inv(), pivot_step(pre, candle, post, sig, swh, swl)
	ensures swh is None, swl is None, post.hprice == pre.hprice, post.lprice == pre.lprice,
		sig == Action::of_i8((if candle.low_s()@ >= pre.lprice@ { 1int } else { 0int }) - (if candle.high_s()@ <= pre.hprice@ { 1int } else { 0int })),
		post.const_state(candle.high_s(), candle.low_s())
{
	upper_reversal_const_step(&pre.ph, candle.high_s(), &post.ph, swh);
	lower_reversal_const_step(&pre.pl, candle.low_s(), &post.pl, swl);
}
} // verus!
fn main() {}
