//@unit ind_kama
//@include head.rs
//@import ohlcv.rs.tpl
//@import indicator_base.rs.tpl
//@include indicator_traits.rs
//@import simple_window.rs.tpl
//@import derived_window.rs.tpl
//@import st_dev.rs.tpl

impl Action {
//@extract src/core/action.rs impl[Action]::is_none pub
	ensures r == (self is None),
//@end
//@extract src/core/action.rs impl[Action]::is_some pub
	ensures r == !(self is None),
//@end
}
// ================================================================== Kaufman (KAMA)
//@extract src/indicators/kaufman.rs struct:Kaufman
//@end
//@extract src/indicators/kaufman.rs struct:KaufmanInstance
//@end
impl Kaufman {
	pub open spec fn valid(&self) -> bool {
		self.period3 > self.period2 && self.period2 > 0 && self.period1 > 0 && (self.k@ > 0real || self.filter_period < 2)
	}
//@extract src/indicators/kaufman.rs impl[IndicatorConfig for Kaufman]::validate pub
	ensures r == self.valid(),
//@end
//@extract src/indicators/kaufman.rs impl[IndicatorConfig for Kaufman]::size pub
	ensures r == (1u8, 1u8),
//@end
//@extract src/indicators/kaufman.rs impl[IndicatorConfig for Kaufman]::init pub
//@sig pub fn init<T: OHLCV>(self, candle: &T) -> (r: Result<KaufmanInstance, Error>)
	ensures
		!self.valid() ==> r is Err,
		r is Ok ==> r->Ok_0.inv() && r->Ok_0.cfg == self,
		// documented smoothing constants: fastest = 2 / (period2 + 1), slowest = 2 / (period3 + 1); KAMA starts at the source price
		r is Ok ==> r->Ok_0.fastest@ * ((self.period2 as real) + 1real) == 2real && r->Ok_0.slowest@ * ((self.period3 as real) + 1real) == 2real,
		r is Ok ==> r->Ok_0.prev_value@ == src_val(candle, self.source) && r->Ok_0.last_signal is None,
		// C08: the constant state for the candle's source price (kama_const_step)
		r is Ok ==> r->Ok_0.const_state(src_val(candle, self.source)),
//@hint before Ok(Self::Instance
	proof {
		let (n2, n3) = ((cfg.period2 as real) + 1real, (cfg.period3 as real) + 1real);
		assert(((cfg.period2 + 1) as PeriodType) as real == n2);
		assert(rdiv(2real, n2) * n2 == 2real) by(nonlinear_arith) requires n2 >= 1real, rdiv(2real, n2) == 2real / n2;
		assert(rdiv(2real, n3) * n3 == 2real) by(nonlinear_arith) requires n3 >= 1real, rdiv(2real, n3) == 2real / n3;
	}
//@replace Ok(Self::Instance { ==> Ok(KaufmanInstance {
//@end
}
pub open spec fn kama_value(pre: &KaufmanInstance, src: ValueType, post: &KaufmanInstance, value: ValueType, ch: ValueType, vol: ValueType) -> bool {
	// documented: efficiency ratio ER = |price change over period1| / sum of |one-step changes| over period1 (0 when there was no movement);
	// smoothing = ER * (fastest - slowest) + slowest, squared when square_smooth; KAMA = previous KAMA + smoothing * (price - previous KAMA)
	let er = if vol@ == 0real { 0real } else { rabs(ch@) / vol@ };
	let sm0 = er * (pre.fastest@ - pre.slowest@) + pre.slowest@;
	let sm = if pre.cfg.square_smooth { sm0 * sm0 } else { sm0 };
	&&& Momentum::step(&pre.change, &src, &post.change, &ch)
	&&& LinearVolatility::step(&pre.volatility, &src, &post.volatility, &vol)
	&&& value@ == sm * (src@ - pre.prev_value@) + pre.prev_value@
	&&& post.prev_value == value && post.fastest == pre.fastest && post.slowest == pre.slowest
}
pub open spec fn kama_filtered(pre: &KaufmanInstance, src: ValueType, post: &KaufmanInstance, value: ValueType, sig: Action, c: Action) -> bool {
	let filter = StDev::def(post.st_dev.window.view()) * pre.cfg.k@;
	&&& Cross::step(&pre.cross, &(src, value), &post.cross, &c)
	&&& post.st_dev.window.view() == pre.st_dev.window.view().drop_first().push(value)
	&&& (!(c is None) ==> sig is None && post.last_signal == c && post.last_signal_value == value)
	&&& (c is None && !(pre.last_signal is None) && rabs(value@ - pre.last_signal_value@) > filter
			==> sig == pre.last_signal && post.last_signal is None && post.last_signal_value == pre.last_signal_value)
	&&& (c is None && !(!(pre.last_signal is None) && rabs(value@ - pre.last_signal_value@) > filter)
			==> sig is None && post.last_signal == pre.last_signal && post.last_signal_value == pre.last_signal_value)
}
impl KaufmanInstance {
	pub open spec fn inv(&self) -> bool {
		self.volatility.inv() && self.change.inv() && self.cross.inv() && (self.cfg.filter_period > 1 ==> self.st_dev.inv())
	}
//@extract src/indicators/kaufman.rs impl[IndicatorInstance for KaufmanInstance]::next pub
	requires old(self).inv()
	ensures final(self).inv(), final(self).cfg == old(self).cfg,
		r.length == (1u8, 1u8),
		exists|src: ValueType, ch: ValueType, vol: ValueType| src@ == src_val(candle, old(self).cfg.source)
			&& #[trigger] kama_value(old(self), src, final(self), r.vals()[0], ch, vol),
		// documented signal without filtering (filter_period <= 1): the source crossing KAMA
		old(self).cfg.filter_period <= 1 ==> exists|src: ValueType| src@ == src_val(candle, old(self).cfg.source)
			&& #[trigger] Cross::step(&old(self).cross, &(src, r.vals()[0]), &final(self).cross, &r.sigs()[0]),
		// with filtering (filter_period > 1; documented only as "additional filtering using standard deviation", so this states what the code does):
		// a crossing is remembered, not reported; it is reported later, once, on the first bar without a new crossing on which KAMA has moved
		// away from its value at the crossing by more than k standard deviations of KAMA over filter_period bars
		old(self).cfg.filter_period > 1 ==> exists|src: ValueType, c: Action| src@ == src_val(candle, old(self).cfg.source)
			&& #[trigger] kama_filtered(old(self), src, final(self), r.vals()[0], r.sigs()[0], c),
//@replace let direction = self.change.next(src).abs(); ==> let ch__ = self.change.next(src); let direction = ch__.abs();
//@hint result
	proof {
		assert(kama_value(old(self), *src, self, r.vals()[0], ch__, volatility));
		if old(self).cfg.filter_period <= 1 { assert(Cross::step(&old(self).cross, &(*src, r.vals()[0]), &self.cross, &r.sigs()[0])); }
		else { assert(kama_filtered(old(self), *src, self, r.vals()[0], r.sigs()[0], cross)); }
	}
//@end
}

// ---- C08 at indicator level: Kaufman on a repeated candle: KAMA stays at the source price (whatever the smoothing), no crossing, no signal
impl KaufmanInstance {
	pub open spec fn const_state(&self, s: real) -> bool { self.inv() && self.prev_value@ == s && self.cross.up.last_delta@ == 0real && (self.cfg.filter_period > 1 ==> self.last_signal is None) }
}
pub proof fn kama_const_step(pre: &KaufmanInstance, src: ValueType, post: &KaufmanInstance, value: ValueType, sig: Action, ch: ValueType, vol: ValueType, c: Action)
	requires pre.const_state(src@), post.inv(), post.cfg == pre.cfg, kama_value(pre, src, post, value, ch, vol),
		pre.cfg.filter_period <= 1 ==> Cross::step(&pre.cross, &(src, value), &post.cross, &sig),
		pre.cfg.filter_period > 1 ==> kama_filtered(pre, src, post, value, sig, c)
	ensures value@ == src@, sig is None, post.const_state(src@)
{
	let er = if vol@ == 0real { 0real } else { rabs(ch@) / vol@ };
	let sm0 = er * (pre.fastest@ - pre.slowest@) + pre.slowest@;
	let sm = if pre.cfg.square_smooth { sm0 * sm0 } else { sm0 };
	assert(sm * (src@ - src@) == 0real) by(nonlinear_arith);
}
} // verus!
fn main() {}
