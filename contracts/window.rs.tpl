//@unit window
#![feature(allocator_api)]
#![allow(unused_imports, unused_variables, dead_code, unused_mut, unused_parens, unused_braces)]
use vstd::prelude::*;
use std::mem;
verus! {
global layout usize is size == 8;
//@include period.rs
//@include std_specs.rs

//@export-begin
//@extract src/core/window.rs struct:Window
//@end

//@include window_spec.rs

impl<T> Window<T> {
//@extract src/core/window.rs impl[Window<T>]::new
	requires size < PeriodType::MAX
	ensures r.wf(), r.cap() == size as int,
		forall|i: int| 0 <= i < size as int ==> cloned(value, #[trigger] r.view()[i]),
		r.index == 0,
//@hint end
	proof {
		assert forall|i: int| 0 <= i < size as int implies #[trigger] slot_of(0, i, size as int) == i by {
			lemma_mod_index(0, i, size as int);
		}
	}
//@end

//@extract src/core/window.rs impl[Window<T>]::from_parts
	requires slice@.len() < PeriodType::MAX as int, (index as int) < slice@.len()
	ensures r.wf(), r.cap() == slice@.len(),
		// (stated over the abstract sequence only: how the buffer is laid out is the implementation's business)
		r.view() =~= slice@.subrange(index as int, slice@.len() as int) + slice@.subrange(0, index as int),
//@hint result
	proof {
		// (over the index the result actually stores, so that a re-laid-out buffer - e.g. rotated to start at 0 - is judged by its abstract sequence)
		let n = r.size as int;
		let ix = r.index as int;
		assert forall|i: int| 0 <= i < n implies #[trigger] slot_of(ix, i, n) == (if ix + i < n { ix + i } else { ix + i - n }) by {
			lemma_mod_index(ix, i, n);
		}
	}
//@end

//@extract src/core/window.rs impl[Window<T>]::empty
	ensures r.wf(), r.cap() == 0, r.view() =~= Seq::<T>::empty(),
//@end

//@extract src/core/window.rs impl[Window<T>]::push
	requires old(self).wf(), old(self).cap() > 0
	ensures final(self).wf(), final(self).cap() == old(self).cap(),
		r == old(self).view()[0],
		final(self).view() == old(self).view().drop_first().push(value),
//@hint before old_value
	proof {
		let n = self.size as int;
		let oi = old(self).index as int;
		assert(oi % n == oi) by(nonlinear_arith) requires 0 <= oi < n;
		assert forall|i: int| 0 <= i < n implies #[trigger] self.view()[i] == old(self).view().drop_first().push(value)[i] by {
			let ni = self.index as int;
			if i < n - 1 {
				assert((ni + i) % n == (oi + 1 + i) % n) by(nonlinear_arith)
					requires 0 <= oi < n, 0 <= i < n, ni == (if oi == n - 1 { 0 } else { oi + 1 });
				assert((oi + 1 + i) % n != oi) by(nonlinear_arith) requires 0 <= oi < n, 0 <= i < n - 1;
			} else {
				assert((ni + i) % n == oi) by(nonlinear_arith)
					requires 0 <= oi < n, i == n - 1, ni == (if oi == n - 1 { 0 } else { oi + 1 });
			}
		}
		assert(self.view() =~= old(self).view().drop_first().push(value));
	}
//@end

//@extract src/core/window.rs impl[Window<T>]::iter
	requires self.wf()
	ensures r.inv(), r.window == self, r.remaining() =~= self.view().reverse(),
//@end

//@extract src/core/window.rs impl[Window<T>]::iter_rev
	requires self.wf()
	ensures r.inv(), r.window == self, r.remaining() =~= self.view(),
//@end

//@extract src/core/window.rs impl[Window<T>]::newest
	requires self.wf(), self.cap() > 0
	ensures *r == self.view()[self.cap() - 1],
//@hint start
	proof { lemma_mod_index(self.index as int, self.size as int - 1, self.size as int); }
//@end

//@extract src/core/window.rs impl[Window<T>]::oldest
	requires self.wf(), self.cap() > 0
	ensures *r == self.view()[0],
//@hint start
	proof { lemma_mod_index(self.index as int, 0, self.size as int); }
//@end

//@extract src/core/window.rs impl[Window<T>]::is_empty
	requires self.wf()
	ensures r == (self.cap() == 0),
//@end

//@extract src/core/window.rs impl[Window<T>]::as_slice
	ensures r@ == self.buf@,
//@end

//@extract src/core/window.rs impl[Window<T>]::len
	ensures r as int == self.cap(),
//@end

//@extract src/core/window.rs impl[Window<T>]::get
	requires self.wf()
	ensures
		(index as int) < self.cap() ==> r == Some(&self.view()[self.cap() - 1 - index as int]),
		(index as int) >= self.cap() ==> r is None,
//@hint after let buf_index
	proof {
		if (index as int) < self.cap() { lemma_mod_index(self.index as int, self.cap() - 1 - index as int, self.size as int); }
	}
//@end

//@extract src/core/window.rs impl[Window<T>]::slice_index
	requires self.wf()
	ensures
		(index as int) < self.cap() ==> r == Some(slot_of(self.index as int, self.cap() - 1 - index as int, self.cap()) as PeriodType),
		(index as int) >= self.cap() && self.cap() > 0 ==> r is None,
		self.cap() == 0 ==> (r is None || r == Some(0 as PeriodType)),
		self.cap() == 0 && index > 0 ==> r is None,
//@hint before Some(overflow
	proof {
		let n = self.size as int;
		let ov = overflow as int;
		assert(ov == 0 || ov == 1);
		let a = index.saturating_sub(s) as int;
		let b = saturated as int;
		assert(ov * a == (if ov == 1 { a } else { 0 }) && (1 - ov) * b == (if ov == 1 { 0 } else { b })) by(nonlinear_arith)
			requires ov == 0 || ov == 1;
		if n > 0 { lemma_mod_index(self.index as int, index as int, n); }
	}
//@end

//@extract src/core/window.rs impl[std::ops::Index<PeriodType> for Window<T>]::index pub
//@sig pub fn index(&self, index: PeriodType) -> (r: &T)
	requires self.wf(), (index as int) < self.cap()
	ensures *r == self.view()[self.cap() - 1 - index as int],
//@replace .unwrap_or_else(|| panic!("Window index {index} is out of range")) ==> .unwrap()
//@hint start
	proof { lemma_mod_index(self.index as int, self.cap() - 1 - index as int, self.size as int); }
//@end

//@extract src/core/window.rs impl[From<Box<[T]>> for Window<T>]::from pub rename=from_box
	requires slice@.len() < PeriodType::MAX as int, 0 < slice@.len()
	ensures r.wf(), r.view() =~= slice@,
//@end

//@extract src/core/window.rs impl[From<Vec<T>> for Window<T>]::from pub rename=from_vec
	requires v@.len() < PeriodType::MAX as int, 0 < v@.len()
	ensures r.wf(), r.view() =~= v@,
//@end
}

//@extract src/core/window.rs struct:WindowIterator
//@end

impl<'a, T> WindowIterator<'a, T> {
	// newest first: yields buf[index-1], buf[index-2], ... (mod n); ends at the oldest element
	pub open spec fn inv(&self) -> bool {
		&&& self.window.wf()
		&&& self.size <= self.window.size
		&&& (self.window.size == 0 ==> self.index == 0)
		&&& (self.window.size > 0 ==> self.index < self.window.size
			&& self.index as int == wrap(self.window.index as int + self.size as int, self.window.size as int))
	}
	pub open spec fn remaining(&self) -> Seq<T> {
		Seq::new(self.size as nat, |k: int| self.window.view()[self.size as int - 1 - k])
	}

//@extract src/core/window.rs impl[WindowIterator<'a, T>]::new
	requires window.wf()
	ensures r.inv(), r.window == window, r.remaining() =~= window.view().reverse(),
//@hint end
	proof {
	}
//@end

//@extract src/core/window.rs impl[Iterator for WindowIterator<'a, T>]::next pub
//@sig pub fn next(&mut self) -> (r: Option<&'a T>)
	requires old(self).inv()
	ensures final(self).inv(), final(self).window == old(self).window,
		old(self).remaining().len() == 0 ==> r is None && final(self).remaining() =~= old(self).remaining(),
		old(self).remaining().len() > 0 ==> r == Some(&old(self).remaining()[0]) && final(self).remaining() =~= old(self).remaining().drop_first(),
//@hint before Some(value)
	proof {
		let n = self.window.size as int;
		let wi = self.window.index as int;
		let oi = old(self).index as int;
		let os = old(self).size as int;
		let ni = self.index as int;
		// ni == (oi - 1) mod n ; element yielded is view[os-1], i.e. buf[slot_of(wi, os - 1, n)]
		lemma_mod_index(wi, os - 1, n);
	}
//@end

//@extract src/core/window.rs impl[Iterator for WindowIterator<'a, T>]::size_hint pub
	requires self.inv()
	ensures r.0 == self.remaining().len(), r.1 == Some(self.remaining().len() as usize),
//@end

//@extract src/core/window.rs impl[Iterator for WindowIterator<'a, T>]::count pub
	requires self.inv()
	ensures r == self.remaining().len(),
//@end

//@extract src/core/window.rs impl[Iterator for WindowIterator<'a, T>]::last pub
//@sig pub fn last(self) -> (r: Option<&'a T>)
	requires self.inv()
	ensures
		self.remaining().len() == 0 ==> r is None,
		self.remaining().len() > 0 ==> r == Some(&self.remaining().last()),
//@end
}

//@extract src/core/window.rs struct:ReversedWindowIterator
//@end

impl<'a, T> ReversedWindowIterator<'a, T> {
	// oldest first: yields buf[index], buf[index+1], ... (mod n); ends at the newest element
	pub open spec fn inv(&self) -> bool {
		&&& self.window.wf()
		&&& self.size <= self.window.size
		&&& (self.window.size == 0 ==> self.index == 0)
		&&& (self.window.size > 0 ==> self.index < self.window.size
			&& self.index as int == wrap(self.window.index as int + self.window.size as int - self.size as int, self.window.size as int))
	}
	pub open spec fn remaining(&self) -> Seq<T> {
		Seq::new(self.size as nat, |k: int| self.window.view()[self.window.size as int - self.size as int + k])
	}

//@extract src/core/window.rs impl[ReversedWindowIterator<'a, T>]::new
	requires window.wf()
	ensures r.inv(), r.window == window, r.remaining() =~= window.view(),
//@hint end
	proof {
	}
//@end

//@extract src/core/window.rs impl[Iterator for ReversedWindowIterator<'a, T>]::next pub
//@sig pub fn next(&mut self) -> (r: Option<&'a T>)
	requires old(self).inv()
	ensures final(self).inv(), final(self).window == old(self).window,
		old(self).remaining().len() == 0 ==> r is None && final(self).remaining() =~= old(self).remaining(),
		old(self).remaining().len() > 0 ==> r == Some(&old(self).remaining()[0]) && final(self).remaining() =~= old(self).remaining().drop_first(),
//@hint before Some(value)
	proof {
		let n = self.window.size as int;
		let wi = self.window.index as int;
		let oi = old(self).index as int;
		let os = old(self).size as int;
		let ni = self.index as int;
		lemma_mod_index(wi, n - os, n);
	}
//@end

//@extract src/core/window.rs impl[Iterator for ReversedWindowIterator<'a, T>]::size_hint pub
	requires self.inv()
	ensures r.0 == self.remaining().len(), r.1 == Some(self.remaining().len() as usize),
//@end

//@extract src/core/window.rs impl[Iterator for ReversedWindowIterator<'a, T>]::count pub
	requires self.inv()
	ensures r == self.remaining().len(),
//@end

//@extract src/core/window.rs impl[Iterator for ReversedWindowIterator<'a, T>]::last pub
//@sig pub fn last(self) -> (r: Option<&'a T>)
	requires self.inv()
	ensures
		self.remaining().len() == 0 ==> r is None,
		self.remaining().len() > 0 ==> r == Some(&self.remaining().last()),
//@end
}

//@export-end

// round trip: a window rebuilt from its exported buffer and oldest-index represents the same sequence (C01, C13)
pub fn rebuild_roundtrip<T>(w: Window<T>) -> (r: Window<T>)
	requires w.wf(), w.cap() > 0
	ensures r.wf(), r.view() =~= w.view()
{
	let Window { buf, index, size, s_1 } = w;
	let r = Window::from_parts(buf, index);
	proof {
		let n = size as int;
		assert forall|i: int| 0 <= i < n implies #[trigger] slot_of(index as int, i, n) == (if index as int + i < n { index as int + i } else { index as int + i - n }) by {
			lemma_mod_index(index as int, i, n);
		}
	}
	r
}

} // verus!
fn main() {}
