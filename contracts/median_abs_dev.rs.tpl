//@unit median_abs_dev
//@include head.rs
//@include sorted_lib.rs
use std::cmp::Ordering;
//@import smm.rs.tpl
//@include abs_dev_lib.rs

//@extract src/methods/median_abs_dev.rs struct:MedianAbsDev
//@end

// documented: the mean of |x_i - median(x)| over the last `length` inputs
pub open spec fn mad_def(view: Seq<R>, out: real) -> bool {
	exists|m: real| #[trigger] is_median(view, m) && out == abs_dev_sum(view, m) / (view.len() as real)
}

impl MedianAbsDev {
	pub open spec fn inv(&self) -> bool {
		&&& self.smm.inv()
		&&& self.divider@ * (self.smm.window.cap() as real) == 1real
	}
//@extract src/methods/median_abs_dev.rs impl[MedianAbsDev]::get_smm
	ensures r == &self.smm,
//@end

//@extract src/methods/median_abs_dev.rs impl[Peekable<<Self as Method>::Output> for MedianAbsDev]::peek pub
//@sig pub fn peek(&self) -> (r: ValueType)
	requires self.inv()
	ensures mad_def(self.smm.window.view(), r@),
		// C12: a dispersion measure is never negative
		r@ >= 0real,
//@src self.smm.get_window().as_slice().iter() ==> SliceIt::new(self.smm.get_window().as_slice())
//@hint chain 0
		invariant_except_break
			it0__.inv(), it0__.s@ == self.smm.window.buf@, is_median(self.smm.window.view(), smm@),
			acc0__@ == abs_dev_sum(it0__.s@.subrange(0, it0__.i as int), smm@),
		ensures
			acc0__@ == abs_dev_sum(self.smm.window.buf@, smm@),
		decreases it0__.s@.len() - it0__.i
//@hint chain-start 0
		proof { assert(it0__.s@.subrange(0, it0__.s@.len() as int) =~= it0__.s@); }
//@hint chain-end 0
		proof {
			let s = it0__.s@;
			let i = it0__.i as int;
			assert(s.subrange(0, i).drop_last() =~= s.subrange(0, i - 1));
			assert(s.subrange(0, i).last() == s[i - 1]);
		}
//@hint result
	proof {
		lemma_abs_dev_rot(self.smm.window, smm@);
		let n = self.smm.window.cap() as real;
		let a = abs_dev_sum(self.smm.window.view(), smm@);
		let d = self.divider@;
		assert(a * d == a / n) by(nonlinear_arith) requires d * n == 1real, n >= 1real;
		lemma_abs_dev_nonneg(self.smm.window.view(), smm@);
		assert(a / n >= 0real) by(nonlinear_arith) requires a >= 0real, n >= 1real;
		assert(is_median(self.smm.window.view(), smm@) && r@ == a / (self.smm.window.view().len() as real));
	}
//@end
}

impl Method for MedianAbsDev {
	type Params = PeriodType;
	type Input = ValueType;
	type Output = ValueType;
	open spec fn inv(&self) -> bool { MedianAbsDev::inv(self) }
	open spec fn rejects(parameters: PeriodType) -> bool { parameters == 0 || parameters == 1 }
	open spec fn new_req(parameters: PeriodType, initial_value: &ValueType) -> bool { true }
	open spec fn fresh(parameters: PeriodType, initial_value: &ValueType, s: &Self) -> bool {
		SMM::fresh(parameters, initial_value, &s.smm)
	}
	open spec fn input_ok(&self, x: &ValueType) -> bool { true }
	open spec fn step(pre: &Self, x: &ValueType, post: &Self, out: &ValueType) -> bool {
		&&& post.smm.window.view() == pre.smm.window.view().drop_first().push(*x)
		&&& mad_def(post.smm.window.view(), out@)
	}
//@extract src/methods/median_abs_dev.rs impl[Method for MedianAbsDev]::new
	ensures (r is Ok) == (length >= 2 && length != PeriodType::MAX),
//@hint before match length
	proof {
		if length > 0 {
			let n = length as real;
			assert(rdiv(1real, n) * n == 1real) by(nonlinear_arith) requires n >= 1real, rdiv(1real, n) == 1real / n;
		}
	}
//@end
//@extract src/methods/median_abs_dev.rs impl[Method for MedianAbsDev]::next
	// C12: never negative
	ensures r@ >= 0real,
//@end
}

// C08: on a constant stream the deviation is exactly zero
pub proof fn median_abs_dev_const_step(pre: MedianAbsDev, v: R, post: MedianAbsDev, out: R)
	requires pre.inv(), pre.smm.window.view() =~= konst(pre.smm.window.view().len(), v), MedianAbsDev::step(&pre, &v, &post, &out)
	ensures post.smm.window.view() =~= konst(pre.smm.window.view().len(), v), out@ == 0real
{
	let n = pre.smm.window.view().len();
	let pv = post.smm.window.view();
	assert(pv =~= konst(n, v));
	let m = choose|m: real| #[trigger] is_median(pv, m) && out@ == abs_dev_sum(pv, m) / (pv.len() as real);
	smm_range(pv, m, v@, v@);
	lemma_abs_dev_konst(n, v);
	assert(abs_dev_sum(pv, m) == 0real);
	assert(0real / (pv.len() as real) == 0real) by(nonlinear_arith) requires pv.len() as real >= 1real;
}
pub proof fn lemma_abs_dev_konst(n: nat, v: R)
	ensures abs_dev_sum(konst(n, v), v@) == 0real
	decreases n
{
	if n > 0 {
		lemma_abs_dev_konst((n - 1) as nat, v);
		assert(konst(n, v).drop_last() =~= konst((n - 1) as nat, v));
	}
}
} // verus!
fn main() {}
