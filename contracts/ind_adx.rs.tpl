//@unit ind_adx
//@include head.rs
//@import ohlcv.rs.tpl
//@import indicator_base.rs.tpl
//@include indicator_traits.rs
//@import hlc.rs.tpl

// ================================================================== AverageDirectionalIndex
//@extract src/indicators/average_directional_index.rs struct:AverageDirectionalIndex
//@end
//@extract src/indicators/average_directional_index.rs struct:AverageDirectionalIndexInstance
//@end
impl<M: MovingAverageConstructor> AverageDirectionalIndex<M> {
	pub open spec fn valid(&self) -> bool {
		&&& self.method1.period_s() >= 1 && self.method1.period_s() < PeriodType::MAX
		&&& self.method2.period_s() >= 1 && self.method2.period_s() < PeriodType::MAX
		&&& self.zone@ >= 0real && self.zone@ <= 1real
		&&& self.period1 >= 1 && self.period1 < self.method1.period_s() && self.period1 < self.method2.period_s()
	}
//@extract src/indicators/average_directional_index.rs impl[IndicatorConfig for AverageDirectionalIndex<M>]::validate pub
	ensures r == self.valid(),
//@end
//@extract src/indicators/average_directional_index.rs impl[IndicatorConfig for AverageDirectionalIndex<M>]::size pub
	ensures r == (3u8, 2u8),
//@end
//@extract src/indicators/average_directional_index.rs impl[IndicatorConfig for AverageDirectionalIndex<M>]::init pub
//@sig pub fn init<T: OHLCV>(self, candle: &T) -> (r: Result<AverageDirectionalIndexInstance<M>, Error>)
	ensures
		!self.valid() ==> r is Err,
		r is Ok ==> r->Ok_0.inv() && r->Ok_0.cfg == self,
		// documented seeds: the true-range average from the first candle's range, the directional averages and the ADX average from 0
		r is Ok ==> self.method1.seeded(rmax(candle.high_s()@, candle.close_s()@) - rmin(candle.low_s()@, candle.close_s()@), &r->Ok_0.tr_ma)
			&& self.method1.seeded(0real, &r->Ok_0.plus_di) && self.method1.seeded(0real, &r->Ok_0.minus_di) && self.method2.seeded(0real, &r->Ok_0.ma2),
		r is Ok ==> r->Ok_0.prev_close == candle.close_s() && r->Ok_0.window.view().len() == self.period1,
		// C08: for averaging kinds that cannot overshoot and an ordered candle this is the constant state for that candle (adx_const_step)
		r is Ok && self.method1.convex_kind() && self.method2.convex_kind() && candle.low_s()@ <= candle.close_s()@ <= candle.high_s()@ ==>
			exists|h: HLC| h.high == candle.high_s() && h.low == candle.low_s() && h.close == candle.close_s() && #[trigger] r->Ok_0.const_state(h),
//@replace Ok(Self::Instance { ==> Ok(AverageDirectionalIndexInstance {
//@replace window: Window::new(cfg.period1, HLC::from(candle)), ==> window: { let h0__ = HLC::from(candle); proof { h0 = h0__; } Window::new(cfg.period1, h0__) },
//@hint before let cfg = self;
	let ghost mut h0: HLC = arbitrary();
//@hint result
	proof {
		if r is Ok && self.method1.convex_kind() && self.method2.convex_kind() && candle.low_s()@ <= candle.close_s()@ <= candle.high_s()@ {
			assert(r->Ok_0.const_state(h0));
		}
	}
//@end
}
// one step of the directional-movement part (dir_mov)
pub open spec fn dir_mov_step<M: MovingAverageConstructor>(pre: &AverageDirectionalIndexInstance<M>, candle: HLC, post: &AverageDirectionalIndexInstance<M>, plus: real, minus: real,
	tr: ValueType, atr: ValueType, pdm: ValueType, mdm: ValueType, pdi: ValueType, mdi: ValueType) -> bool {
	let prev = pre.window.view()[0];
	let du = candle.high@ - prev.high@;
	let dd = prev.low@ - candle.low@;
	&&& post.window.view() == pre.window.view().drop_first().push(candle)
	&&& post.cfg == pre.cfg && post.ma2 == pre.ma2
	// documented: true range against the previous close, smoothed (ATR)
	&&& tr@ == rmax(candle.high@, pre.prev_close@) - rmin(candle.low@, pre.prev_close@)
	&&& <M::Instance as Method>::step(&pre.tr_ma, &tr, &post.tr_ma, &atr)
	&&& (atr@ == 0real ==> plus == 0real && minus == 0real && post.plus_di == pre.plus_di && post.minus_di == pre.minus_di && post.prev_close == pre.prev_close)
	// documented: +DM = up-move when it is the larger and positive, -DM likewise; +DI = MA(+DM) / ATR, -DI = MA(-DM) / ATR (moves over period1 candles)
	&&& (atr@ != 0real ==> {
		&&& post.prev_close == candle.close
		&&& pdm@ == (if du > dd && du > 0real { du } else { 0real }) && mdm@ == (if dd > du && dd > 0real { dd } else { 0real })
		&&& <M::Instance as Method>::step(&pre.plus_di, &pdm, &post.plus_di, &pdi)
		&&& <M::Instance as Method>::step(&pre.minus_di, &mdm, &post.minus_di, &mdi)
		&&& plus == pdi@ / atr@ && minus == mdi@ / atr@
	})
}
// one step of the ADX part: the average of |+DI - -DI| / (+DI + -DI), 0 fed when the sum is 0
pub open spec fn adx_step<M: MovingAverageConstructor>(pre: &AverageDirectionalIndexInstance<M>, plus: real, minus: real, post: &AverageDirectionalIndexInstance<M>, out: ValueType, t: ValueType) -> bool {
	&&& post.cfg == pre.cfg && post.window == pre.window && post.prev_close == pre.prev_close
	&&& post.tr_ma == pre.tr_ma && post.plus_di == pre.plus_di && post.minus_di == pre.minus_di
	&&& (plus + minus == 0real ==> t@ == 0real) && (plus + minus != 0real ==> t@ == rabs(plus - minus) / (plus + minus))
	&&& <M::Instance as Method>::step(&pre.ma2, &t, &post.ma2, &out)
}
impl<M: MovingAverageConstructor> AverageDirectionalIndexInstance<M> {
	pub open spec fn inv(&self) -> bool {
		self.tr_ma.inv() && self.plus_di.inv() && self.minus_di.inv() && self.ma2.inv() && self.window.wf() && self.window.cap() >= 1
	}
//@extract src/indicators/average_directional_index.rs impl[AverageDirectionalIndexInstance<M>]::dir_mov pub
	requires old(self).inv()
	ensures final(self).inv(),
		exists|tr: ValueType, atr: ValueType, pdm: ValueType, mdm: ValueType, pdi: ValueType, mdi: ValueType|
			#[trigger] dir_mov_step(old(self), candle, final(self), r.0@, r.1@, tr, atr, pdm, mdm, pdi, mdi),
//@replace let true_range = self.tr_ma.next(&candle.tr_close(self.prev_close)); ==> let tr__ = candle.tr_close(self.prev_close); proof { self.tr_ma.input_always_ok(&tr__); } let true_range = self.tr_ma.next(&tr__);
//@replace return (0.0, 0.0); ==> { let z__ = (R::lit(0, 1), R::lit(0, 1)); proof { assert(dir_mov_step(old(self), candle, self, z__.0@, z__.1@, tr__, true_range, tr__, tr__, tr__, tr__)); } return z__; }
//@hint before let plus_di_value
	proof {
		self.plus_di.input_always_ok(&plus_dm); self.minus_di.input_always_ok(&minus_dm);
		let (u, d) = (du@, dd@);
		assert(u * 1real == u && u * 0real == 0real && d * 1real == d && d * 0real == 0real) by(nonlinear_arith);
	}
//@hint result
	proof { assert(dir_mov_step(old(self), candle, self, r.0@, r.1@, tr__, true_range, plus_dm, minus_dm, plus_di_value, minus_di_value)); }
//@end
//@extract src/indicators/average_directional_index.rs impl[AverageDirectionalIndexInstance<M>]::adx pub
	requires old(self).inv()
	ensures final(self).inv(), exists|t: ValueType| #[trigger] adx_step(old(self), plus@, minus@, final(self), r, t),
//@replace return self.ma2.next(&0.); ==> { let z__ = R::lit(0, 1); proof { self.ma2.input_always_ok(&z__); } let o__ = self.ma2.next(&z__); proof { assert(adx_step(old(self), plus@, minus@, self, o__, z__)); } return o__; }
//@replace self.ma2.next(&t) ==> { proof { self.ma2.input_always_ok(&t); } let o__ = self.ma2.next(&t); proof { assert(adx_step(old(self), plus@, minus@, self, o__, t)); } o__ }
//@end
//@extract src/indicators/average_directional_index.rs impl[IndicatorInstance for AverageDirectionalIndexInstance<M>]::next pub into=action
	requires old(self).inv()
	ensures final(self).inv(), final(self).cfg == old(self).cfg,
		r.length == (3u8, 2u8),
		// values: ADX, +DI, -DI through the two verified stages
		exists|mid: AverageDirectionalIndexInstance<M>, h: HLC, tr: ValueType, atr: ValueType, pdm: ValueType, mdm: ValueType, pdi: ValueType, mdi: ValueType, t: ValueType|
			h.high == candle.high_s() && h.low == candle.low_s() && h.close == candle.close_s()
			&& #[trigger] dir_mov_step(old(self), h, &mid, r.vals()[1]@, r.vals()[2]@, tr, atr, pdm, mdm, pdi, mdi)
			&& #[trigger] adx_step(&mid, r.vals()[1]@, r.vals()[2]@, final(self), r.vals()[0], t),
		// documented signal 1: full buy when ADX is over the zone and +DI > -DI, full sell when -DI > +DI; signal 2: the difference +DI - -DI
		r.sigs()[0] == Action::of_i8(if r.vals()[0]@ > old(self).cfg.zone@ { if r.vals()[1]@ > r.vals()[2]@ { 1int } else if r.vals()[1]@ < r.vals()[2]@ { -1int } else { 0int } } else { 0int }),
		r.sigs()[1] == action_of_real(r.vals()[1]@ - r.vals()[2]@),
//@replace let (plus, minus) = self.dir_mov(HLC::from(candle)); ==> let h__ = HLC::from(candle); let (plus, minus) = self.dir_mov(h__);
//@hint before let adx
	let ghost mid__ = *self;
	let ghost dm__ = choose|a: ValueType, b: ValueType, c: ValueType, d: ValueType, e: ValueType, f: ValueType| #[trigger] dir_mov_step(old(self), h__, &mid__, plus@, minus@, a, b, c, d, e, f);
//@hint before let signal1
	let ghost t__ = choose|t: ValueType| #[trigger] adx_step(&mid__, plus@, minus@, self, adx, t);
	proof {
		let b = if adx@ > self.cfg.zone@ { 1int } else { 0int };
		let g = (if plus@ > minus@ { 1int } else { 0int }) - (if plus@ < minus@ { 1int } else { 0int });
		assert(b * g == (if b == 1 { g } else { 0int })) by(nonlinear_arith) requires b == 0 || b == 1;
	}
//@hint result
	proof {
		assert(dir_mov_step(old(self), h__, &mid__, r.vals()[1]@, r.vals()[2]@, dm__.0, dm__.1, dm__.2, dm__.3, dm__.4, dm__.5));
		assert(adx_step(&mid__, r.vals()[1]@, r.vals()[2]@, self, r.vals()[0], t__));
	}
//@end
}

// ---- C08 at indicator level (averaging kinds that cannot overshoot, ordered candle): ADX on a repeated candle: +DI = -DI = ADX = 0
impl<M: MovingAverageConstructor> AverageDirectionalIndexInstance<M> {
	pub open spec fn const_state(&self, h: HLC) -> bool {
		let d = h.high@ - h.low@;
		&&& self.inv() && h.low@ <= h.close@ <= h.high@ && self.prev_close == h.close
		&&& self.tr_ma.convex() && self.plus_di.convex() && self.minus_di.convex() && self.ma2.convex()
		&&& self.tr_ma.within(d, d) && self.plus_di.within(0real, 0real) && self.minus_di.within(0real, 0real) && self.ma2.within(0real, 0real)
		&&& forall|i: int| 0 <= i < self.window.view().len() ==> (#[trigger] self.window.view()[i]).high == h.high && self.window.view()[i].low == h.low
	}
}
pub proof fn adx_const_step<M: MovingAverageConstructor>(pre: &AverageDirectionalIndexInstance<M>, mid: &AverageDirectionalIndexInstance<M>, post: &AverageDirectionalIndexInstance<M>, h: HLC,
	plus: real, minus: real, adx: ValueType, tr: ValueType, atr: ValueType, pdm: ValueType, mdm: ValueType, pdi: ValueType, mdi: ValueType, t: ValueType)
	requires pre.const_state(h), mid.inv(), post.inv(), dir_mov_step(pre, h, mid, plus, minus, tr, atr, pdm, mdm, pdi, mdi), adx_step(mid, plus, minus, post, adx, t)
	ensures plus == 0real, minus == 0real, adx@ == 0real, post.const_state(h)
{
	let d = h.high@ - h.low@;
	assert(tr@ == d);
	<M::Instance as MovingAverage>::lemma_within_step(&pre.tr_ma, &tr, &mid.tr_ma, &atr, d, d);
	assert(pre.window.view()[0].high == h.high && pre.window.view()[0].low == h.low);
	if atr@ != 0real {
		<M::Instance as MovingAverage>::lemma_within_step(&pre.plus_di, &pdm, &mid.plus_di, &pdi, 0real, 0real);
		<M::Instance as MovingAverage>::lemma_within_step(&pre.minus_di, &mdm, &mid.minus_di, &mdi, 0real, 0real);
		assert(0real / atr@ == 0real) by(nonlinear_arith) requires atr@ != 0real;
	}
	<M::Instance as MovingAverage>::lemma_within_step(&mid.ma2, &t, &post.ma2, &adx, 0real, 0real);
	let w = post.window.view();
	assert forall|i: int| 0 <= i < w.len() implies (#[trigger] w[i]).high == h.high && w[i].low == h.low by {
		if i < w.len() - 1 { assert(w[i] == pre.window.view()[i + 1]); }
	}
}
} // verus!
fn main() {}
