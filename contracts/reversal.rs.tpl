//@unit reversal
//@include head.rs
//@import ohlcv.rs.tpl
//@import indicator_base.rs.tpl
//@include indicator_traits.rs
//@export-begin

// ---- positions: the element pushed by the k-th call (k = 0, 1, ...) has position k; `index` is the position of the NEXT push.
// A window of length w whose next push has position k holds positions k-w .. k-1 (negative ones are the construction value).
pub open spec fn at(view: Seq<R>, k: int, p: int) -> R { view[view.len() - (k - p)] }
pub open spec fn first_pos(k: int, w: int) -> int { if k - w > 0 { k - w } else { 0 } }

// documented rule: the element `right` steps back is >= every older and > every newer element of the last left+right+1 inputs
pub open spec fn peak_at(view: Seq<R>, c: int) -> bool {
	&&& forall|j: int| 0 <= j < c ==> (#[trigger] view[j])@ <= view[c]@
	&&& forall|j: int| c < j < view.len() ==> (#[trigger] view[j])@ < view[c]@
}
pub open spec fn trough_at(view: Seq<R>, c: int) -> bool {
	&&& forall|j: int| 0 <= j < c ==> (#[trigger] view[j])@ >= view[c]@
	&&& forall|j: int| c < j < view.len() ==> (#[trigger] view[j])@ > view[c]@
}

// bookkeeping of (max_index, max_value) is valid for the window of the NEXT call (next push has position k): max_value bounds
// positions [f, k), nothing newer than max_index reaches it, and (once real positions are involved) max_index is where max_value sits
pub open spec fn tracked_max(view: Seq<R>, k: int, mi: int, mv: R) -> bool {
	let w = view.len() as int;
	let f = first_pos(k + 1, w);
	mi >= f ==> {
		&&& forall|p: int| f <= p < k ==> (#[trigger] at(view, k, p))@ <= mv@
		&&& forall|p: int| mi < p < k ==> (#[trigger] at(view, k, p))@ < mv@
		&&& (mi >= 1 || f >= 1 ==> mi < k && at(view, k, mi) == mv)
	}
}
// what the update of one call leaves behind, as facts about the new window `vw` (next push k+1), whichever branch ran
pub open spec fn updated_max(vw: Seq<R>, k: int, mi: int, mv: R) -> bool {
	let w = vw.len() as int;
	let f = first_pos(k + 1, w);
	&&& f <= mi <= k
	&&& forall|p: int| f <= p <= k ==> (#[trigger] at(vw, k + 1, p))@ <= mv@
	&&& forall|p: int| mi < p <= k ==> (#[trigger] at(vw, k + 1, p))@ < mv@
	&&& (mi >= 1 || f >= 1 ==> at(vw, k + 1, mi) == mv)
}
// the tracked extremum is an element of the stream itself (not the construction value that `new` stores as a placeholder)
pub open spec fn genuine(view: Seq<R>, k: int, mi: int, mv: R) -> bool {
	k >= 1 ==> first_pos(k, view.len() as int) <= mi < k && at(view, k, mi) == mv
}
// warm-up form of the documented rule (fewer than left+right+1 real inputs so far): among the positions that exist, the element
// `right` steps back is >= every older and > every newer one
pub open spec fn warm_peak_at(vw: Seq<R>, k: int, right: int) -> bool {
	let f = first_pos(k + 1, vw.len() as int);
	let c = k - right;
	&&& forall|p: int| f <= p < c ==> (#[trigger] at(vw, k + 1, p))@ <= at(vw, k + 1, c)@
	&&& forall|p: int| c < p <= k ==> (#[trigger] at(vw, k + 1, p))@ < at(vw, k + 1, c)@
}
pub open spec fn warm_trough_at(vw: Seq<R>, k: int, right: int) -> bool {
	let f = first_pos(k + 1, vw.len() as int);
	let c = k - right;
	&&& forall|p: int| f <= p < c ==> (#[trigger] at(vw, k + 1, p))@ >= at(vw, k + 1, c)@
	&&& forall|p: int| c < p <= k ==> (#[trigger] at(vw, k + 1, p))@ > at(vw, k + 1, c)@
}
// with a genuine extremum the signal condition is the (warm-up form of the) documented one at every step
pub proof fn lemma_updated_warm_max(vw: Seq<R>, k: int, mi: int, mv: R, right: int)
	requires vw.len() >= 3, right >= 1, k >= right, updated_max(vw, k, mi, mv), at(vw, k + 1, mi) == mv, k - right >= first_pos(k + 1, vw.len() as int)
	ensures (mi == k - right) <==> warm_peak_at(vw, k, right)
{
	let c = k - right;
	if mi != c && warm_peak_at(vw, k, right) {
		if mi < c { assert(at(vw, k + 1, c)@ < mv@); assert(at(vw, k + 1, mi)@ <= at(vw, k + 1, c)@); }
		else { assert(at(vw, k + 1, mi)@ < at(vw, k + 1, c)@); assert(at(vw, k + 1, c)@ <= mv@); }
	}
}
pub proof fn lemma_shift(ov: Seq<R>, x: R, k: int)
	requires ov.len() >= 1, k >= 0
	ensures forall|p: int| first_pos(k + 1, ov.len() as int) <= p < k ==> #[trigger] at(ov.drop_first().push(x), k + 1, p) == at(ov, k, p),
		at(ov.drop_first().push(x), k + 1, k) == x
{
	let vw = ov.drop_first().push(x);
	let w = ov.len() as int;
	assert forall|p: int| first_pos(k + 1, w) <= p < k implies #[trigger] at(vw, k + 1, p) == at(ov, k, p) by {
		assert(vw[w - (k + 1 - p)] == ov[w - (k + 1 - p) + 1]);
	}
}
// branch: the tracked maximum is still inside and the new value does not reach it
pub proof fn lemma_keep(ov: Seq<R>, x: R, k: int, mi: int, mv: R)
	requires ov.len() >= 3, k >= 0, 0 <= mi <= k, tracked_max(ov, k, mi, mv), mi >= first_pos(k + 1, ov.len() as int), x@ < mv@
	ensures updated_max(ov.drop_first().push(x), k, mi, mv)
{
	lemma_shift(ov, x, k);
	let vw = ov.drop_first().push(x);
	let w = ov.len() as int;
	let f = first_pos(k + 1, w);
	assert forall|p: int| f <= p <= k implies (#[trigger] at(vw, k + 1, p))@ <= mv@ by { if p < k { assert(at(vw, k + 1, p) == at(ov, k, p)); } }
	assert forall|p: int| mi < p <= k implies (#[trigger] at(vw, k + 1, p))@ < mv@ by { if p < k { assert(at(vw, k + 1, p) == at(ov, k, p)); } }
	if mi >= 1 || f >= 1 { assert(mi < k); assert(at(vw, k + 1, mi) == at(ov, k, mi)); }
}
// branch: the new value takes over
pub proof fn lemma_take(ov: Seq<R>, x: R, k: int, mi: int, mv: R)
	requires ov.len() >= 3, k >= 0, 0 <= mi <= k, tracked_max(ov, k, mi, mv), mi >= first_pos(k + 1, ov.len() as int), x@ >= mv@
	ensures updated_max(ov.drop_first().push(x), k, k, x)
{
	lemma_shift(ov, x, k);
	let vw = ov.drop_first().push(x);
	let w = ov.len() as int;
	let f = first_pos(k + 1, w);
	assert forall|p: int| f <= p <= k implies (#[trigger] at(vw, k + 1, p))@ <= x@ by { if p < k { assert(at(vw, k + 1, p) == at(ov, k, p)); } }
}
// branch: rescan of the whole window (all positions real: f == k + 1 - w >= 1)
pub proof fn lemma_rescan(vw: Seq<R>, k: int, mi: int, mv: R)
	requires vw.len() >= 3, k + 1 - vw.len() >= 1, k + 1 - vw.len() <= mi <= k, vw[mi - (k + 1 - vw.len())] == mv,
		forall|j: int| 0 <= j < vw.len() ==> (#[trigger] vw[j])@ <= mv@,
		forall|j: int| mi - (k + 1 - vw.len()) < j < vw.len() ==> (#[trigger] vw[j])@ < mv@,
	ensures updated_max(vw, k, mi, mv)
{
	let w = vw.len() as int;
	let f = k + 1 - w;
	assert(first_pos(k + 1, w) == f);
	assert forall|p: int| f <= p <= k implies (#[trigger] at(vw, k + 1, p))@ <= mv@ by { assert(at(vw, k + 1, p) == vw[p - f]); }
	assert forall|p: int| mi < p <= k implies (#[trigger] at(vw, k + 1, p))@ < mv@ by { assert(at(vw, k + 1, p) == vw[p - f]); }
	assert(at(vw, k + 1, mi) == vw[mi - f]);
}
// after the update the bookkeeping is valid for the next call, and in the steady state the signal condition is the documented one
pub proof fn lemma_updated(vw: Seq<R>, k: int, mi: int, mv: R, left: int, right: int)
	requires vw.len() == left + right + 1, left >= 1, right >= 1, k >= 0, updated_max(vw, k, mi, mv)
	ensures tracked_max(vw, k + 1, mi, mv),
		k >= vw.len() ==> ((mi == k - right) <==> peak_at(vw, left)),
{
	let w = vw.len() as int;
	let f = first_pos(k + 1, w);
	let f2 = first_pos(k + 2, w);
	assert(f2 >= f);
	if k >= w {
		assert(f == k + 1 - w && f >= 1);
		assert forall|j: int| 0 <= j < w implies #[trigger] vw[j] == at(vw, k + 1, f + j) by {}
		let c = left;
		assert(f + c == k - right);
		if mi == k - right {
			assert(vw[c] == mv) by { assert(at(vw, k + 1, f + c) == vw[c]); }
			assert forall|j: int| 0 <= j < c implies (#[trigger] vw[j])@ <= vw[c]@ by { assert(vw[j] == at(vw, k + 1, f + j)); }
			assert forall|j: int| c < j < w implies (#[trigger] vw[j])@ < vw[c]@ by { assert(vw[j] == at(vw, k + 1, f + j)); }
		} else if peak_at(vw, c) {
			assert(vw[mi - f] == mv) by { assert(at(vw, k + 1, mi) == vw[mi - f]); }
			assert(vw[c] == at(vw, k + 1, f + c));
			if mi - f < c { assert(vw[c]@ < mv@); assert(vw[mi - f]@ <= vw[c]@); } else { assert(vw[mi - f]@ < vw[c]@); assert(vw[c]@ <= mv@); }
		}
	}
}

// bookkeeping of (max_index, max_value) is valid for the window of the NEXT call (next push has position k): max_value bounds
// positions [f, k), nothing newer than max_index reaches it, and (once real positions are involved) max_index is where max_value sits
pub open spec fn tracked_min(view: Seq<R>, k: int, mi: int, mv: R) -> bool {
	let w = view.len() as int;
	let f = first_pos(k + 1, w);
	mi >= f ==> {
		&&& forall|p: int| f <= p < k ==> (#[trigger] at(view, k, p))@ >= mv@
		&&& forall|p: int| mi < p < k ==> (#[trigger] at(view, k, p))@ > mv@
		&&& (mi >= 1 || f >= 1 ==> mi < k && at(view, k, mi) == mv)
	}
}
// what the update of one call leaves behind, as facts about the new window `vw` (next push k+1), whichever branch ran
pub open spec fn updated_min(vw: Seq<R>, k: int, mi: int, mv: R) -> bool {
	let w = vw.len() as int;
	let f = first_pos(k + 1, w);
	&&& f <= mi <= k
	&&& forall|p: int| f <= p <= k ==> (#[trigger] at(vw, k + 1, p))@ >= mv@
	&&& forall|p: int| mi < p <= k ==> (#[trigger] at(vw, k + 1, p))@ > mv@
	&&& (mi >= 1 || f >= 1 ==> at(vw, k + 1, mi) == mv)
}
// branch: the tracked maximum is still inside and the new value does not reach it
pub proof fn lemma_keep_min(ov: Seq<R>, x: R, k: int, mi: int, mv: R)
	requires ov.len() >= 3, k >= 0, 0 <= mi <= k, tracked_min(ov, k, mi, mv), mi >= first_pos(k + 1, ov.len() as int), x@ > mv@
	ensures updated_min(ov.drop_first().push(x), k, mi, mv)
{
	lemma_shift(ov, x, k);
	let vw = ov.drop_first().push(x);
	let w = ov.len() as int;
	let f = first_pos(k + 1, w);
	assert forall|p: int| f <= p <= k implies (#[trigger] at(vw, k + 1, p))@ >= mv@ by { if p < k { assert(at(vw, k + 1, p) == at(ov, k, p)); } }
	assert forall|p: int| mi < p <= k implies (#[trigger] at(vw, k + 1, p))@ > mv@ by { if p < k { assert(at(vw, k + 1, p) == at(ov, k, p)); } }
	if mi >= 1 || f >= 1 { assert(mi < k); assert(at(vw, k + 1, mi) == at(ov, k, mi)); }
}
// branch: the new value takes over
pub proof fn lemma_take_min(ov: Seq<R>, x: R, k: int, mi: int, mv: R)
	requires ov.len() >= 3, k >= 0, 0 <= mi <= k, tracked_min(ov, k, mi, mv), mi >= first_pos(k + 1, ov.len() as int), x@ <= mv@
	ensures updated_min(ov.drop_first().push(x), k, k, x)
{
	lemma_shift(ov, x, k);
	let vw = ov.drop_first().push(x);
	let w = ov.len() as int;
	let f = first_pos(k + 1, w);
	assert forall|p: int| f <= p <= k implies (#[trigger] at(vw, k + 1, p))@ >= x@ by { if p < k { assert(at(vw, k + 1, p) == at(ov, k, p)); } }
}
// branch: rescan of the whole window (all positions real: f == k + 1 - w >= 1)
pub proof fn lemma_rescan_min(vw: Seq<R>, k: int, mi: int, mv: R)
	requires vw.len() >= 3, k + 1 - vw.len() >= 1, k + 1 - vw.len() <= mi <= k, vw[mi - (k + 1 - vw.len())] == mv,
		forall|j: int| 0 <= j < vw.len() ==> (#[trigger] vw[j])@ >= mv@,
		forall|j: int| mi - (k + 1 - vw.len()) < j < vw.len() ==> (#[trigger] vw[j])@ > mv@,
	ensures updated_min(vw, k, mi, mv)
{
	let w = vw.len() as int;
	let f = k + 1 - w;
	assert(first_pos(k + 1, w) == f);
	assert forall|p: int| f <= p <= k implies (#[trigger] at(vw, k + 1, p))@ >= mv@ by { assert(at(vw, k + 1, p) == vw[p - f]); }
	assert forall|p: int| mi < p <= k implies (#[trigger] at(vw, k + 1, p))@ > mv@ by { assert(at(vw, k + 1, p) == vw[p - f]); }
	assert(at(vw, k + 1, mi) == vw[mi - f]);
}
// after the update the bookkeeping is valid for the next call, and in the steady state the signal condition is the documented one
pub proof fn lemma_updated_min(vw: Seq<R>, k: int, mi: int, mv: R, left: int, right: int)
	requires vw.len() == left + right + 1, left >= 1, right >= 1, k >= 0, updated_min(vw, k, mi, mv)
	ensures tracked_min(vw, k + 1, mi, mv),
		k >= vw.len() ==> ((mi == k - right) <==> trough_at(vw, left)),
{
	let w = vw.len() as int;
	let f = first_pos(k + 1, w);
	let f2 = first_pos(k + 2, w);
	assert(f2 >= f);
	if k >= w {
		assert(f == k + 1 - w && f >= 1);
		assert forall|j: int| 0 <= j < w implies #[trigger] vw[j] == at(vw, k + 1, f + j) by {}
		let c = left;
		assert(f + c == k - right);
		if mi == k - right {
			assert(vw[c] == mv) by { assert(at(vw, k + 1, f + c) == vw[c]); }
			assert forall|j: int| 0 <= j < c implies (#[trigger] vw[j])@ >= vw[c]@ by { assert(vw[j] == at(vw, k + 1, f + j)); }
			assert forall|j: int| c < j < w implies (#[trigger] vw[j])@ > vw[c]@ by { assert(vw[j] == at(vw, k + 1, f + j)); }
		} else if trough_at(vw, c) {
			assert(vw[mi - f] == mv) by { assert(at(vw, k + 1, mi) == vw[mi - f]); }
			assert(vw[c] == at(vw, k + 1, f + c));
			if mi - f < c { assert(vw[c]@ > mv@); assert(vw[mi - f]@ >= vw[c]@); } else { assert(vw[mi - f]@ > vw[c]@); assert(vw[c]@ >= mv@); }
		}
	}
}

pub proof fn lemma_updated_warm_min(vw: Seq<R>, k: int, mi: int, mv: R, right: int)
	requires vw.len() >= 3, right >= 1, k >= right, updated_min(vw, k, mi, mv), at(vw, k + 1, mi) == mv, k - right >= first_pos(k + 1, vw.len() as int)
	ensures (mi == k - right) <==> warm_trough_at(vw, k, right)
{
	let c = k - right;
	if mi != c && warm_trough_at(vw, k, right) {
		if mi < c { assert(at(vw, k + 1, c)@ > mv@); assert(at(vw, k + 1, mi)@ >= at(vw, k + 1, c)@); }
		else { assert(at(vw, k + 1, mi)@ > at(vw, k + 1, c)@); assert(at(vw, k + 1, c)@ >= mv@); }
	}
}
// ================================================================== UpperReversalSignal
//@extract src/methods/reversal.rs struct:UpperReversalSignal
//@end
impl UpperReversalSignal {
	pub open spec fn is_genuine(&self) -> bool { genuine(self.window.view(), self.index as int, self.max_index as int, self.max_value) }
	// the instance has only seen a stream whose first element is the construction value: either this is the first call and the input equals it, or the bookkeeping already refers to a stream element
	pub open spec fn seeded_with(&self, x: &ValueType) -> bool {
		if self.index == 0 { self.max_index == 0 && x@ == self.max_value@ } else { self.is_genuine() }
	}
// the inherent three-argument constructor (renamed: Verus resolves `new` in contracts to the trait fn)
//@extract src/methods/reversal.rs impl[UpperReversalSignal]::new pub rename=new3
	ensures r is Ok ==> r->Ok_0.inv() && UpperReversalSignal::fresh((left, right), value, &r->Ok_0),
		(left == 0 || right == 0) ==> r is Err,
//@replace Method::new((left, right), value) ==> <UpperReversalSignal as Method>::new((left, right), value)
//@end
}
impl Method for UpperReversalSignal {
	type Params = (PeriodType, PeriodType);
	type Input = ValueType;
	type Output = Action;
	open spec fn inv(&self) -> bool {
		&&& self.window.wf() && self.left >= 1 && self.right >= 1
		&&& self.window.cap() == self.left as int + self.right as int + 1
		&&& self.max_index <= self.index
		&&& tracked_max(self.window.view(), self.index as int, self.max_index as int, self.max_value)
	}
	open spec fn rejects(parameters: (PeriodType, PeriodType)) -> bool { parameters.0 == 0 || parameters.1 == 0 }
	open spec fn new_req(parameters: (PeriodType, PeriodType), initial_value: &ValueType) -> bool { true }
	open spec fn fresh(parameters: (PeriodType, PeriodType), initial_value: &ValueType, s: &Self) -> bool {
		s.index == 0 && s.left == parameters.0 && s.right == parameters.1 && s.window.view() =~= konst((parameters.0 + parameters.1 + 1) as nat, *initial_value)
			&& s.max_index == 0 && s.max_value == *initial_value
	}
	// KNOWN FINDING guard (C07/C14): the position counter saturates at PeriodType::MAX; the contract covers the calls before that
//@ifdef NO_GUARD
	open spec fn input_ok(&self, x: &ValueType) -> bool { true }
//@else
	open spec fn input_ok(&self, x: &ValueType) -> bool { self.index < PeriodType::MAX }
//@endif
	open spec fn step(pre: &Self, x: &ValueType, post: &Self, out: &Action) -> bool {
		&&& post.window.view() == pre.window.view().drop_first().push(*x)
		&&& post.index == pre.index + 1 && post.left == pre.left && post.right == pre.right
		&&& (*out == Action::Buy(255) || *out is None)
		// once the window holds real inputs only, the signal is definitional: it fires exactly `right` steps after a peak
		&&& (pre.index as int >= pre.window.cap() ==> ((*out == Action::Buy(255)) <==> peak_at(post.window.view(), pre.left as int)))
		// warm-up, for a stream that starts with the construction value (the documented way to seed a method): the tracked extremum is then always an
		// element of the stream, and the signal is the documented rule over the elements that exist; nothing fires during the first `right` steps
		&&& (pre.seeded_with(x) ==> post.is_genuine()
				&& ((*out == Action::Buy(255)) <==> (pre.index >= pre.right && warm_peak_at(post.window.view(), pre.index as int, pre.right as int))))
	}
//@extract src/methods/reversal.rs impl[Method for UpperReversalSignal]::new
//@hint result
	proof {
		if r is Ok { lemma_cloned_konst(r->Ok_0.window.view(), (left + right + 1) as nat, value); }
	}
//@end
//@extract src/methods/reversal.rs impl[Method for UpperReversalSignal]::next
//@src self.window.iter_rev() ==> self.window.iter_rev()
//@src first_index.. ==> RangeFromIt::new(first_index)
//@hint before let first_index
	let ghost vw = self.window.view();
	let ghost k = self.index as int;
	let ghost w = self.window.cap();
	let ghost ov = old(self).window.view();
	let ghost mi0 = self.max_index as int;
	let ghost mv0 = self.max_value;
//@hint before if self.max_index < first_index
	let ghost f = first_index as int;
	proof { assert(f == first_pos(k + 1, w)); }
//@hint before self.window .iter_rev()
	proof {
		assert(f >= 1 && f == k + 1 - w);
		assert(max_value == vw[0]);
	}
//@hint chain 0
		invariant_except_break
			it0__.inv(), it0__.window == &self.window, vw == self.window.view(), w == vw.len(), w >= 3,
			f >= 1, f == k + 1 - w, k < PeriodType::MAX as int,
			it0__.remaining().len() <= w,
			it0__.remaining() =~= vw.subrange(w - it0__.remaining().len(), w),
			it0z1__.cur as int == f + (w - it0__.remaining().len()),
			skipped0__ <= 1, (skipped0__ == 0) == (it0__.remaining().len() == w),
			f <= max_index as int, (max_index as int) < f + (if w - it0__.remaining().len() > 1 { w - it0__.remaining().len() } else { 1 }),
			vw[max_index as int - f] == max_value,
			forall|j: int| 0 <= j < w - it0__.remaining().len() ==> (#[trigger] vw[j])@ <= max_value@,
			forall|j: int| (max_index as int) - f < j < w - it0__.remaining().len() ==> (#[trigger] vw[j])@ < max_value@,
		ensures
			f <= max_index as int, (max_index as int) <= k, vw[max_index as int - f] == max_value,
			forall|j: int| 0 <= j < w ==> (#[trigger] vw[j])@ <= max_value@,
			forall|j: int| (max_index as int) - f < j < w ==> (#[trigger] vw[j])@ < max_value@,
		decreases it0__.remaining().len()
//@hint before#1 self.max_value =
	proof { lemma_rescan(vw, k, max_index as int, max_value); }
//@hint before let s = if
	proof {
		if mi0 >= f {
			if value@ >= mv0@ { lemma_take(ov, value, k, mi0, mv0); } else { lemma_keep(ov, value, k, mi0, mv0); }
		}
		assert(updated_max(vw, k, self.max_index as int, self.max_value));
		lemma_updated(vw, k, self.max_index as int, self.max_value, self.left as int, self.right as int);
		// warm-up: the tracked maximum stays an element of the stream
		if old(self).seeded_with(&value) {
			lemma_shift(ov, value, k);
			let mi = self.max_index as int;
			if mi0 >= f {
				if value@ >= mv0@ { assert(at(vw, k + 1, k) == value); } else { assert(at(vw, k + 1, mi0) == at(ov, k, mi0)); }
			}
			assert(at(vw, k + 1, mi) == self.max_value);
			assert(first_pos(k + 1, w) <= mi);
			if k >= self.right as int && k - (self.right as int) >= f {
				lemma_updated_warm_max(vw, k, mi, self.max_value, self.right as int);
			}
		}
	}
//@end
}
// ================================================================== LowerReversalSignal
//@extract src/methods/reversal.rs struct:LowerReversalSignal
//@end
impl LowerReversalSignal {
	pub open spec fn is_genuine(&self) -> bool { genuine(self.window.view(), self.index as int, self.min_index as int, self.min_value) }
	// the instance has only seen a stream whose first element is the construction value: either this is the first call and the input equals it, or the bookkeeping already refers to a stream element
	pub open spec fn seeded_with(&self, x: &ValueType) -> bool {
		if self.index == 0 { self.min_index == 0 && x@ == self.min_value@ } else { self.is_genuine() }
	}
// the inherent three-argument constructor (renamed: Verus resolves `new` in contracts to the trait fn)
//@extract src/methods/reversal.rs impl[LowerReversalSignal]::new pub rename=new3
	ensures r is Ok ==> r->Ok_0.inv() && LowerReversalSignal::fresh((left, right), value, &r->Ok_0),
		(left == 0 || right == 0) ==> r is Err,
//@replace Method::new((left, right), value) ==> <LowerReversalSignal as Method>::new((left, right), value)
//@end
}
impl Method for LowerReversalSignal {
	type Params = (PeriodType, PeriodType);
	type Input = ValueType;
	type Output = Action;
	open spec fn inv(&self) -> bool {
		&&& self.window.wf() && self.left >= 1 && self.right >= 1
		&&& self.window.cap() == self.left as int + self.right as int + 1
		&&& self.min_index <= self.index
		&&& tracked_min(self.window.view(), self.index as int, self.min_index as int, self.min_value)
	}
	open spec fn rejects(parameters: (PeriodType, PeriodType)) -> bool { parameters.0 == 0 || parameters.1 == 0 }
	open spec fn new_req(parameters: (PeriodType, PeriodType), initial_value: &ValueType) -> bool { true }
	open spec fn fresh(parameters: (PeriodType, PeriodType), initial_value: &ValueType, s: &Self) -> bool {
		s.index == 0 && s.left == parameters.0 && s.right == parameters.1 && s.window.view() =~= konst((parameters.0 + parameters.1 + 1) as nat, *initial_value)
			&& s.min_index == 0 && s.min_value == *initial_value
	}
	// KNOWN FINDING guard (C07/C14): the position counter saturates at PeriodType::MAX; the contract covers the calls before that
//@ifdef NO_GUARD
	open spec fn input_ok(&self, x: &ValueType) -> bool { true }
//@else
	open spec fn input_ok(&self, x: &ValueType) -> bool { self.index < PeriodType::MAX }
//@endif
	open spec fn step(pre: &Self, x: &ValueType, post: &Self, out: &Action) -> bool {
		&&& post.window.view() == pre.window.view().drop_first().push(*x)
		&&& post.index == pre.index + 1 && post.left == pre.left && post.right == pre.right
		&&& (*out == Action::Buy(255) || *out is None)
		// once the window holds real inputs only, the signal is definitional: it fires exactly `right` steps after a trough
		&&& (pre.index as int >= pre.window.cap() ==> ((*out == Action::Buy(255)) <==> trough_at(post.window.view(), pre.left as int)))
		// warm-up, for a stream that starts with the construction value (the documented way to seed a method): the tracked extremum is then always an
		// element of the stream, and the signal is the documented rule over the elements that exist; nothing fires during the first `right` steps
		&&& (pre.seeded_with(x) ==> post.is_genuine()
				&& ((*out == Action::Buy(255)) <==> (pre.index >= pre.right && warm_trough_at(post.window.view(), pre.index as int, pre.right as int))))
	}
//@extract src/methods/reversal.rs impl[Method for LowerReversalSignal]::new
//@hint result
	proof {
		if r is Ok { lemma_cloned_konst(r->Ok_0.window.view(), (left + right + 1) as nat, value); }
	}
//@end
//@extract src/methods/reversal.rs impl[Method for LowerReversalSignal]::next
//@src self.window.iter_rev() ==> self.window.iter_rev()
//@src first_index.. ==> RangeFromIt::new(first_index)
//@hint before let first_index
	let ghost vw = self.window.view();
	let ghost k = self.index as int;
	let ghost w = self.window.cap();
	let ghost ov = old(self).window.view();
	let ghost mi0 = self.min_index as int;
	let ghost mv0 = self.min_value;
//@hint before if self.min_index < first_index
	let ghost f = first_index as int;
	proof { assert(f == first_pos(k + 1, w)); }
//@hint before self.window .iter_rev()
	proof {
		assert(f >= 1 && f == k + 1 - w);
		assert(min_value == vw[0]);
	}
//@hint chain 0
		invariant_except_break
			it0__.inv(), it0__.window == &self.window, vw == self.window.view(), w == vw.len(), w >= 3,
			f >= 1, f == k + 1 - w, k < PeriodType::MAX as int,
			it0__.remaining().len() <= w,
			it0__.remaining() =~= vw.subrange(w - it0__.remaining().len(), w),
			it0z1__.cur as int == f + (w - it0__.remaining().len()),
			skipped0__ <= 1, (skipped0__ == 0) == (it0__.remaining().len() == w),
			f <= min_index as int, (min_index as int) < f + (if w - it0__.remaining().len() > 1 { w - it0__.remaining().len() } else { 1 }),
			vw[min_index as int - f] == min_value,
			forall|j: int| 0 <= j < w - it0__.remaining().len() ==> (#[trigger] vw[j])@ >= min_value@,
			forall|j: int| (min_index as int) - f < j < w - it0__.remaining().len() ==> (#[trigger] vw[j])@ > min_value@,
		ensures
			f <= min_index as int, (min_index as int) <= k, vw[min_index as int - f] == min_value,
			forall|j: int| 0 <= j < w ==> (#[trigger] vw[j])@ >= min_value@,
			forall|j: int| (min_index as int) - f < j < w ==> (#[trigger] vw[j])@ > min_value@,
		decreases it0__.remaining().len()
//@hint before#1 self.min_value =
	proof { lemma_rescan_min(vw, k, min_index as int, min_value); }
//@hint before let s = if
	proof {
		if mi0 >= f {
			if value@ <= mv0@ { lemma_take_min(ov, value, k, mi0, mv0); } else { lemma_keep_min(ov, value, k, mi0, mv0); }
		}
		assert(updated_min(vw, k, self.min_index as int, self.min_value));
		lemma_updated_min(vw, k, self.min_index as int, self.min_value, self.left as int, self.right as int);
		// warm-up: the tracked minimum stays an element of the stream
		if old(self).seeded_with(&value) {
			lemma_shift(ov, value, k);
			let mi = self.min_index as int;
			if mi0 >= f {
				if value@ <= mv0@ { assert(at(vw, k + 1, k) == value); } else { assert(at(vw, k + 1, mi0) == at(ov, k, mi0)); }
			}
			assert(at(vw, k + 1, mi) == self.min_value);
			assert(first_pos(k + 1, w) <= mi);
			if k >= self.right as int && k - (self.right as int) >= f {
				lemma_updated_warm_min(vw, k, mi, self.min_value, self.right as int);
			}
		}
	}
//@end
}

// ================================================================== ReversalSignal = lower - upper
//@extract src/methods/reversal.rs struct:ReversalSignal
//@end
pub open spec fn reversal_parts(pre: &ReversalSignal, x: &ValueType, post: &ReversalSignal, out: &Action, lo: Action, hi: Action) -> bool {
	LowerReversalSignal::step(&pre.low, x, &post.low, &lo) && UpperReversalSignal::step(&pre.high, x, &post.high, &hi) && sv(*out) == clamp255(sv(lo) - sv(hi))
}
impl ReversalSignal {
// the inherent three-argument constructor (renamed: Verus resolves `new` in contracts to the trait fn)
//@extract src/methods/reversal.rs impl[ReversalSignal]::new pub rename=new3
	ensures r is Ok ==> r->Ok_0.inv() && ReversalSignal::fresh((left, right), value, &r->Ok_0),
		(left == 0 || right == 0) ==> r is Err,
//@replace Method::new((left, right), value) ==> <ReversalSignal as Method>::new((left, right), value)
//@end
}
impl Method for ReversalSignal {
	type Params = (PeriodType, PeriodType);
	type Input = ValueType;
	type Output = Action;
	open spec fn inv(&self) -> bool { self.high.inv() && self.low.inv() }
	open spec fn rejects(parameters: (PeriodType, PeriodType)) -> bool { parameters.0 == 0 || parameters.1 == 0 }
	open spec fn new_req(parameters: (PeriodType, PeriodType), initial_value: &ValueType) -> bool { true }
	open spec fn fresh(parameters: (PeriodType, PeriodType), initial_value: &ValueType, s: &Self) -> bool {
		UpperReversalSignal::fresh(parameters, initial_value, &s.high) && LowerReversalSignal::fresh(parameters, initial_value, &s.low)
	}
	open spec fn input_ok(&self, x: &ValueType) -> bool { self.high.input_ok(x) && self.low.input_ok(x) }
	// documented: lower reversal minus upper reversal
	open spec fn step(pre: &Self, x: &ValueType, post: &Self, out: &Action) -> bool {
		exists|lo: Action, hi: Action| #[trigger] reversal_parts(pre, x, post, out, lo, hi)
	}
//@extract src/methods/reversal.rs impl[Method for ReversalSignal]::new
//@replace high: Method::new(params, value)?, ==> high: UpperReversalSignal::new(params, value)?,
//@replace low: Method::new(params, value)?, ==> low: LowerReversalSignal::new(params, value)?,
//@end
//@extract src/methods/reversal.rs impl[Method for ReversalSignal]::next
//@replace self.low.next(value) - self.high.next(value) ==> { let lo__ = self.low.next(value); let hi__ = self.high.next(value); let d__ = lo__ - hi__; proof { assert(reversal_parts(old(self), value, self, &d__, lo__, hi__)); } d__ }
//@end
}
// ---- C08: on a constant stream that starts with the construction value the detectors never fire (no element is strictly above/below its newer neighbours)
pub open spec fn all_eq_r(v: Seq<R>, s: real) -> bool { forall|i: int| 0 <= i < v.len() ==> (#[trigger] v[i])@ == s }
pub proof fn upper_reversal_const_step(pre: &UpperReversalSignal, x: ValueType, post: &UpperReversalSignal, out: Action)
	requires pre.inv(), all_eq_r(pre.window.view(), x@), pre.seeded_with(&x), UpperReversalSignal::step(pre, &x, post, &out)
	ensures out is None, all_eq_r(post.window.view(), x@), post.is_genuine(), post.index >= 1
{
	let vw = post.window.view();
	assert forall|i: int| 0 <= i < vw.len() implies (#[trigger] vw[i])@ == x@ by { if i < vw.len() - 1 { assert(vw[i] == pre.window.view()[i + 1]); } }
	let k = pre.index as int;
	let right = pre.right as int;
	if out == Action::Buy(255) {
		// the candidate would have to be strictly above the newest element, which has the same value
		assert(k >= right && warm_peak_at(vw, k, right));
		let c = k - right;
		assert(at(vw, k + 1, k)@ < at(vw, k + 1, c)@);
	}
}
pub proof fn lower_reversal_const_step(pre: &LowerReversalSignal, x: ValueType, post: &LowerReversalSignal, out: Action)
	requires pre.inv(), all_eq_r(pre.window.view(), x@), pre.seeded_with(&x), LowerReversalSignal::step(pre, &x, post, &out)
	ensures out is None, all_eq_r(post.window.view(), x@), post.is_genuine(), post.index >= 1
{
	let vw = post.window.view();
	assert forall|i: int| 0 <= i < vw.len() implies (#[trigger] vw[i])@ == x@ by { if i < vw.len() - 1 { assert(vw[i] == pre.window.view()[i + 1]); } }
	let k = pre.index as int;
	let right = pre.right as int;
	if out == Action::Buy(255) {
		assert(k >= right && warm_trough_at(vw, k, right));
		let c = k - right;
		assert(at(vw, k + 1, k)@ > at(vw, k + 1, c)@);
	}
}
pub open spec fn reversal_const_state(r: &ReversalSignal, x: real) -> bool {
	&&& r.high.inv() && r.low.inv() && all_eq_r(r.high.window.view(), x) && all_eq_r(r.low.window.view(), x)
	&&& (if r.high.index == 0 { r.high.max_index == 0 && r.high.max_value@ == x } else { r.high.is_genuine() })
	&&& (if r.low.index == 0 { r.low.min_index == 0 && r.low.min_value@ == x } else { r.low.is_genuine() })
}
pub proof fn reversal_const_step(pre: &ReversalSignal, x: ValueType, post: &ReversalSignal, out: Action)
	requires reversal_const_state(pre, x@), post.high.inv() && post.low.inv(), ReversalSignal::step(pre, &x, post, &out)
	ensures sv(out) == 0, reversal_const_state(post, x@)
{
	let (lo, hi) = choose|lo: Action, hi: Action| #[trigger] reversal_parts(pre, &x, post, &out, lo, hi);
	upper_reversal_const_step(&pre.high, x, &post.high, hi);
	lower_reversal_const_step(&pre.low, x, &post.low, lo);
}
//@export-end
} // verus!
fn main() {}
