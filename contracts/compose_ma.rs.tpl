//@unit compose_ma
//@include head.rs
//@import sma.rs.tpl
//@import wma.rs.tpl
//@export-begin

// ------------------------------------------------------------------ TRIMA = SMA(SMA(x))
//@extract src/methods/trima.rs struct:TRIMA
//@end
impl TRIMA {
//@extract src/methods/trima.rs impl[Peekable<<Self as Method>::Output> for TRIMA]::peek pub
//@sig pub fn peek(&self) -> (r: ValueType)
	// C09: peek returns the value most recently produced (the second stage's current value)
	ensures r == self.sma2.value,
//@end
}
impl Method for TRIMA {
	type Params = PeriodType;
	type Input = ValueType;
	type Output = ValueType;
	open spec fn inv(&self) -> bool { self.sma1.inv() && self.sma2.inv() }
	open spec fn rejects(parameters: PeriodType) -> bool { parameters == 0 }
	open spec fn new_req(parameters: PeriodType, initial_value: &ValueType) -> bool { true }
	open spec fn fresh(parameters: PeriodType, initial_value: &ValueType, s: &Self) -> bool {
		SMA::fresh(parameters, initial_value, &s.sma1) && SMA::fresh(parameters, initial_value, &s.sma2)
	}
	open spec fn input_ok(&self, x: &ValueType) -> bool { true }
	// documented: simple moving average of the simple moving average, both of the same length
	open spec fn step(pre: &Self, x: &ValueType, post: &Self, out: &ValueType) -> bool {
		// the intermediate value is the first stage's new value (SMA::step: out == post.value)
		SMA::step(&pre.sma1, x, &post.sma1, &post.sma1.value) && SMA::step(&pre.sma2, &post.sma1.value, &post.sma2, out)
	}
//@extract src/methods/trima.rs impl[Method for TRIMA]::new
//@end
//@extract src/methods/trima.rs impl[Method for TRIMA]::next
//@end
}

// ------------------------------------------------------------------ HMA = WMA_sqrt(n)(2*WMA_{n/2}(x) - WMA_n(x))
//@extract src/methods/hma.rs struct:HMA
//@end
pub open spec fn hma_parts(pre: &HMA, x: &ValueType, post: &HMA, out: &ValueType, w1: ValueType, w2: ValueType, d: ValueType) -> bool {
	WMA::step(&pre.wma1, x, &post.wma1, &w1) && WMA::step(&pre.wma2, x, &post.wma2, &w2)
	&& d@ == 2real * w1@ - w2@ && WMA::step(&pre.wma3, &d, &post.wma3, out)
}
impl Method for HMA {
	type Params = PeriodType;
	type Input = ValueType;
	type Output = ValueType;
	open spec fn inv(&self) -> bool { self.wma1.inv() && self.wma2.inv() && self.wma3.inv() }
	open spec fn rejects(parameters: PeriodType) -> bool { parameters == 0 || parameters == 1 }
	open spec fn new_req(parameters: PeriodType, initial_value: &ValueType) -> bool { (parameters as int) <= 0xffff_ffff }
	open spec fn fresh(parameters: PeriodType, initial_value: &ValueType, s: &Self) -> bool {
		&&& WMA::fresh((parameters / 2) as PeriodType, initial_value, &s.wma1)
		&&& WMA::fresh(parameters, initial_value, &s.wma2)
		&&& s.wma2.window.cap() == parameters as int && s.wma1.window.cap() == (parameters / 2) as int
		&&& s.wma3.window.view() =~= konst(s.wma3.window.view().len(), *initial_value)
		// length of the third average: floor(sqrt(length))
		&&& (s.wma3.window.cap() as real) * (s.wma3.window.cap() as real) <= parameters as real
		&&& (parameters as real) < (s.wma3.window.cap() as real + 1real) * (s.wma3.window.cap() as real + 1real)
	}
	open spec fn input_ok(&self, x: &ValueType) -> bool { true }
	open spec fn step(pre: &Self, x: &ValueType, post: &Self, out: &ValueType) -> bool {
		exists|w1: ValueType, w2: ValueType, d: ValueType| #[trigger] hma_parts(pre, x, post, out, w1, w2, d)
	}
//@extract src/methods/hma.rs impl[Method for HMA]::new
//@replace (length as ValueType).sqrt() as PeriodType ==> to_r(length).sqrt().to_period()
//@hint before match length
	proof {
		if length >= 2 {
			let l = length as real;
			axiom_sqrt(l);
			let s = rsqrt(l);
			assert(1real <= s && s < l) by(nonlinear_arith) requires s >= 0real, s * s == l, l >= 2real;
		}
	}
//@hint result
	proof {
		if r is Ok {
			let h = r->Ok_0;
			let c = h.wma3.window.cap() as real;
			let l = length as real;
			let s = rsqrt(l);
			assert(c * c <= l && l < (c + 1real) * (c + 1real)) by(nonlinear_arith) requires c <= s, s < c + 1real, s * s == l, c >= 0real, s >= 0real;
		}
	}
//@end
//@extract src/methods/hma.rs impl[Method for HMA]::next
//@hint result
	proof { assert(hma_parts(old(self), value, self, &r, w1, w2, tmp0__)); }
//@end
}

// C08: one inductive step for the compositions (from the components' const-step facts)
pub proof fn trima_const_step(pre: TRIMA, v: R, post: TRIMA, out: R)
	requires pre.inv(),
		pre.sma1.window.view() =~= konst(pre.sma1.window.view().len(), v),
		pre.sma2.window.view() =~= konst(pre.sma2.window.view().len(), v),
		TRIMA::step(&pre, &v, &post, &out)
	ensures out@ == v@
{
	let mid = post.sma1.value;
	let n1 = pre.sma1.window.view().len();
	lemma_sum_konst(n1, v);
	assert(post.sma1.window.view() =~= konst(n1, v));
	assert((n1 as real * v@) / (n1 as real) == v@) by(nonlinear_arith) requires n1 >= 1;
	assert(mid@ == v@);
	let n2 = pre.sma2.window.view().len();
	// the second stage sees a value numerically equal to v: its window sum is n2 * v
	let s2 = pre.sma2.window.view().drop_first().push(mid);
	lemma_sum_slide(pre.sma2.window.view(), mid);
	lemma_sum_konst(n2, v);
	assert((n2 as real * v@ - v@ + v@) / (n2 as real) == v@) by(nonlinear_arith) requires n2 >= 1;
}
//@export-end
} // verus!
fn main() {}
