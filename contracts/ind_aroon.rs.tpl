//@unit ind_aroon
//@include head.rs
//@include select_lib.rs
//@import ohlcv.rs.tpl
//@import indicator_base.rs.tpl
//@include indicator_traits.rs
//@import highest_lowest_index.rs.tpl

// ================================================================== Aroon
//@extract src/indicators/aroon.rs struct:Aroon keepderive
//@end
//@extract src/indicators/aroon.rs struct:AroonInstance
//@end
impl Aroon {
	pub open spec fn valid(&self) -> bool {
		self.signal_zone@ >= 0real && self.signal_zone@ <= 1real && self.period > 1 && self.period < PeriodType::MAX
			&& self.over_zone_period > 0 && self.over_zone_period < PeriodType::MAX
	}
//@extract src/indicators/aroon.rs impl[IndicatorConfig for Aroon]::validate pub
	ensures r == self.valid(),
//@end
//@extract src/indicators/aroon.rs impl[IndicatorConfig for Aroon]::size pub
	ensures r == (2u8, 3u8),
//@end
//@extract src/indicators/aroon.rs impl[IndicatorConfig for Aroon]::init pub
//@sig pub fn init<T: OHLCV>(self, candle: &T) -> (r: Result<AroonInstance, Error>)
	ensures
		(r is Ok) == self.valid(),
		r is Ok ==> r->Ok_0.inv() && r->Ok_0.cfg == self && r->Ok_0.uptrend == 0 && r->Ok_0.downtrend == 0,
		r is Ok ==> r->Ok_0.highest_index.window.view() =~= konst(self.period as nat, candle.high_s())
			&& r->Ok_0.lowest_index.window.view() =~= konst(self.period as nat, candle.low_s()),
		// C08: the constant state for this candle's high and low (aroon_const_step)
		r is Ok ==> r->Ok_0.const_state(candle.high_s(), candle.low_s()),
//@replace Ok(Self::Instance { ==> Ok(AroonInstance {
//@end
}
pub open spec fn aroon_step(pre: &AroonInstance, h: ValueType, l: ValueType, post: &AroonInstance, up: ValueType, down: ValueType, hi: PeriodType, li: PeriodType) -> bool {
	let p = pre.cfg.period as real;
	// documented: (period - periods since the highest high / lowest low) / period
	&&& HighestIndex::step(&pre.highest_index, &h, &post.highest_index, &hi) && LowestIndex::step(&pre.lowest_index, &l, &post.lowest_index, &li)
	&&& up@ == (p - hi as real) / p && down@ == (p - li as real) / p
}
impl AroonInstance {
	pub open spec fn inv(&self) -> bool {
		&&& self.highest_index.inv() && self.lowest_index.inv() && self.cross.inv() && self.cfg.valid()
		&&& self.highest_index.window.cap() == self.cfg.period as int && self.lowest_index.window.cap() == self.cfg.period as int
		&&& self.uptrend >= 0 && self.downtrend >= 0
	}
//@extract src/indicators/aroon.rs impl[IndicatorInstance for AroonInstance]::next pub into=action
	// the two streak counters are isize: the contract covers streaks shorter than isize::MAX steps
	requires old(self).inv(), old(self).uptrend < isize::MAX, old(self).downtrend < isize::MAX
	ensures final(self).inv(), final(self).cfg == old(self).cfg,
		r.length == (2u8, 3u8),
		exists|hi: PeriodType, li: PeriodType| #[trigger] aroon_step(old(self), candle.high_s(), candle.low_s(), final(self), r.vals()[0], r.vals()[1], hi, li)
			// signal 2: a new high (+1) / new low (-1) on this candle
			&& r.sigs()[1] == Action::of_i8((if hi == 0 { 1int } else { 0int }) - (if li == 0 { 1int } else { 0int })),
		// signal 1: Aroon-Up crossing Aroon-Down
		Cross::step(&old(self).cross, &(r.vals()[0], r.vals()[1]), &final(self).cross, &r.sigs()[0]),
		// signal 3: length of the current up-/down-trend streak relative to over_zone_period
		({
			let z = old(self).cfg.signal_zone@;
			let up_zone = r.vals()[0]@ >= 1real - z && r.vals()[1]@ <= z;
			let dn_zone = r.vals()[1]@ >= 1real - z && r.vals()[0]@ <= z;
			&&& final(self).uptrend == (if up_zone { old(self).uptrend + 1 } else { 0 })
			&&& final(self).downtrend == (if dn_zone { old(self).downtrend + 1 } else { 0 })
			&&& r.sigs()[2] == action_of_real(rdiv((final(self).uptrend - final(self).downtrend) as real, old(self).cfg.over_zone_period as real))
		}),
		// C12: both lines stay in (0, 1]
		0real < r.vals()[0]@ <= 1real && 0real < r.vals()[1]@ <= 1real,
//@hint before let aroon_up
	proof {
		assert((highest_index as int) < self.cfg.period as int && (lowest_index as int) < self.cfg.period as int);
	}
//@hint before let trend_signal
	proof {
		let p = self.cfg.period as real;
		let (a, b) = ((self.cfg.period - highest_index) as PeriodType, (self.cfg.period - lowest_index) as PeriodType);
		assert(a as real == p - highest_index as real && b as real == p - lowest_index as real);
		assert(0real < (a as real) / p && (a as real) / p <= 1real) by(nonlinear_arith) requires 1real <= a as real, a as real <= p, p >= 2real;
		assert(0real < (b as real) / p && (b as real) / p <= 1real) by(nonlinear_arith) requires 1real <= b as real, b as real <= p, p >= 2real;
	}
//@hint before self.uptrend =
	proof {
		let (u, d) = (self.uptrend as int, self.downtrend as int);
		let (a, b, c, e) = (is_up_over as int, is_down_under as int, is_down_over as int, is_up_under as int);
		assert((u + 1) * a == (if a == 1 { u + 1 } else { 0 }) && ((u + 1) * a) * b == (if a == 1 && b == 1 { u + 1 } else { 0 })) by(nonlinear_arith)
			requires a == 0 || a == 1, b == 0 || b == 1, u >= 0;
		assert((d + 1) * c == (if c == 1 { d + 1 } else { 0 }) && ((d + 1) * c) * e == (if c == 1 && e == 1 { d + 1 } else { 0 })) by(nonlinear_arith)
			requires c == 0 || c == 1, e == 0 || e == 1, d >= 0;
	}
//@hint result
	proof {
		assert(aroon_step(old(self), candle.high_s(), candle.low_s(), self, r.vals()[0], r.vals()[1], highest_index, lowest_index));
	}
//@end
}

// ---- C08 at indicator level: fed the candle it was initialised with, Aroon returns (1, 1) with no signals; the two streak counters stay equal
impl AroonInstance {
	pub open spec fn const_state(&self, h: R, l: R) -> bool {
		&&& self.inv() && self.uptrend == self.downtrend && self.cross.up.last_delta@ == 0real
		&&& self.highest_index.window.view() =~= konst(self.cfg.period as nat, h) && self.lowest_index.window.view() =~= konst(self.cfg.period as nat, l)
	}
}
pub proof fn aroon_const_step(pre: &AroonInstance, h: ValueType, l: ValueType, post: &AroonInstance, up: ValueType, down: ValueType, hi: PeriodType, li: PeriodType, s1: Action)
	requires pre.const_state(h, l), post.inv(), post.cfg == pre.cfg, aroon_step(pre, h, l, post, up, down, hi, li),
		Cross::step(&pre.cross, &(up, down), &post.cross, &s1),
		({
			let z = pre.cfg.signal_zone@;
			&&& post.uptrend == (if up@ >= 1real - z && down@ <= z { pre.uptrend + 1 } else { 0 })
			&&& post.downtrend == (if down@ >= 1real - z && up@ <= z { pre.downtrend + 1 } else { 0 })
		}),
	ensures hi == 0 && li == 0, up@ == 1real && down@ == 1real, s1 is None, post.uptrend - post.downtrend == 0, post.const_state(h, l)
{
	highest_index_const_step(pre.highest_index, h, post.highest_index, hi);
	lowest_index_const_step(pre.lowest_index, l, post.lowest_index, li);
	let p = pre.cfg.period as real;
	assert(p / p == 1real) by(nonlinear_arith) requires p >= 2real;
}
} // verus!
fn main() {}
