//@unit st_dev
//@include head.rs

//@export-begin
//@extract src/methods/st_dev.rs struct:StDev
//@end


impl StDev {
	pub open spec fn n(&self) -> real { self.window.cap() as real }
	// documented (sample standard deviation): sqrt(|Σx² − (Σx)²/n| / (n−1)) over the last n inputs
	pub open spec fn var_num(view: Seq<R>) -> real {
		fsum(view, sq_fn()) - fsum(view, id_fn()) * fsum(view, id_fn()) / (view.len() as real)
	}
	pub open spec fn def(view: Seq<R>) -> real { rsqrt(rabs(StDev::var_num(view) / ((view.len() - 1) as real))) }

//@extract src/methods/st_dev.rs impl[Peekable<<Self as Method>::Output> for StDev]::peek pub
//@sig pub fn peek(&self) -> (r: ValueType)
	requires self.inv()
	ensures r@ == StDev::def(self.window.view()), r@ >= 0real,
//@hint start
	proof {
		let n = self.n();
		let s = fsum(self.window.view(), id_fn());
		let q = fsum(self.window.view(), sq_fn());
		let m = self.mean@;
		assert(s * m + q == q - s * s / n) by(nonlinear_arith) requires m * n == -s, n >= 2real;
		let k = self.k@;
		let a = q - s * s / n;
		assert(a * k == a / (n - 1real)) by(nonlinear_arith) requires k * (n - 1real) == 1real, n >= 2real;
	}
//@end
}

impl Method for StDev {
	type Params = PeriodType;
	type Input = ValueType;
	type Output = ValueType;
	open spec fn inv(&self) -> bool {
		&&& self.window.wf() && self.window.cap() >= 2
		&&& self.val_sum@ == fsum(self.window.view(), id_fn())
		&&& self.sq_val_sum@ == fsum(self.window.view(), sq_fn())
		&&& self.mean@ * self.n() == -fsum(self.window.view(), id_fn())
		&&& self.divider@ * self.n() == -1real
		&&& self.k@ * (self.n() - 1real) == 1real
	}
	open spec fn rejects(parameters: PeriodType) -> bool { parameters == 0 || parameters == 1 }
	open spec fn new_req(parameters: PeriodType, initial_value: &ValueType) -> bool { true }
	open spec fn fresh(parameters: PeriodType, initial_value: &ValueType, s: &Self) -> bool {
		s.window.view() =~= konst(parameters as nat, *initial_value)
	}
	open spec fn input_ok(&self, x: &ValueType) -> bool { true }
	open spec fn step(pre: &Self, x: &ValueType, post: &Self, out: &ValueType) -> bool {
		&&& post.window.view() == pre.window.view().drop_first().push(*x)
		&&& out@ == StDev::def(post.window.view())
		&&& out@ >= 0real
	}
//@extract src/methods/st_dev.rs impl[Method for StDev]::new
	ensures (r is Ok) == (length != 0 && length != 1 && length != PeriodType::MAX),
//@hint before match length
	proof {
		if length > 1 {
			let n = length as real;
			let m = (length - 1) as PeriodType;
			assert(m as real == n - 1real);
			assert(rdiv(1real, n - 1real) * (n - 1real) == 1real) by(nonlinear_arith) requires n >= 2real, rdiv(1real, n - 1real) == 1real / (n - 1real);
			assert((-rdiv(1real, n)) * n == -1real) by(nonlinear_arith) requires n >= 2real, rdiv(1real, n) == 1real / n;
			lemma_fsum_konst(length as nat, value, id_fn());
			lemma_fsum_konst(length as nat, value, sq_fn());
			let v = value@;
			assert(v * n == n * v && v * v * n == n * (v * v) && (-v) * n == -(n * v)) by(nonlinear_arith);
		}
	}
//@hint result
	proof { if r is Ok { lemma_cloned_konst(r->Ok_0.window.view(), length as nat, value); assert(konst(length as nat, value) =~= Seq::new(length as nat, |i: int| value)); } }
//@end
//@extract src/methods/st_dev.rs impl[Method for StDev]::next
//@hint before self.sq_val_sum +=
	proof {
		lemma_fsum_slide(old(self).window.view(), value, id_fn());
		lemma_fsum_slide(old(self).window.view(), value, sq_fn());
		let (v, p) = (value@, prev_value@);
		assert((v - p) * (v + p) == v * v - p * p) by(nonlinear_arith);
		let (m, d, n, s) = (old(self).mean@, self.divider@, self.n(), old(self).val_sum@);
		assert((m + (v - p) * d) * n == -(s + (v - p))) by(nonlinear_arith) requires m * n == -s, d * n == -1real;
	}
//@end
}
//@export-end

pub proof fn st_dev_const_step(pre: StDev, v: R, post: StDev, out: R)
	requires pre.inv(), pre.window.view() =~= konst(pre.window.view().len(), v), StDev::step(&pre, &v, &post, &out)
	ensures post.window.view() =~= konst(pre.window.view().len(), v), out@ == 0real
{
	let n = pre.window.view().len();
	assert(post.window.view() =~= Seq::new(n, |i: int| v));
	lemma_fsum_konst(n, v, id_fn());
	lemma_fsum_konst(n, v, sq_fn());
	let (nr, x) = (n as real, v@);
	assert(nr * (x * x) - (nr * x) * (nr * x) / nr == 0real) by(nonlinear_arith) requires nr >= 2real;
	assert(0real / (nr - 1real) == 0real) by(nonlinear_arith) requires nr >= 2real;
	assert((n - 1) as real == nr - 1real);
	// sqrt(0) == 0: r >= 0 and r*r == 0
	assert(out@ * out@ == 0real ==> out@ == 0real) by(nonlinear_arith);
	axiom_sqrt(0real);
}
} // verus!
fn main() {}
