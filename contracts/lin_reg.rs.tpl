//@unit lin_reg
//@include head.rs
//@export-begin

// Σ age_i * s[i], age 0 = newest (last) element
pub open spec fn asum(s: Seq<R>) -> real decreases s.len() {
	if s.len() == 0 { 0real } else { asum(s.drop_last()) + sum(s.drop_last()) }
}
pub open spec fn sqsum(n: int) -> int decreases n { if n <= 0 { 0 } else { sqsum(n - 1) + (n - 1) * (n - 1) } }

pub proof fn lemma_asum_tail(s: Seq<R>)
	requires s.len() >= 1
	ensures asum(s.drop_first()) == asum(s) - ((s.len() - 1) as real) * s[0]@
	decreases s.len()
{
	if s.len() == 1 {
		reveal_with_fuel(asum, 2); reveal_with_fuel(sum, 2);
		assert(s.drop_first().len() == 0);
		assert(s.drop_last().len() == 0);
		assert(0real * s[0]@ == 0real) by(nonlinear_arith);
	} else {
		let t = s.drop_last();
		lemma_asum_tail(t);
		lemma_sum_tail(t);
		let u = s.drop_first();
		assert(u.drop_last() =~= t.drop_first());
		assert(t[0] == s[0]);
		let (n, x) = (s.len() as real, s[0]@);
		assert((t.len() - 1) as real == n - 2real);
		assert((s.len() - 1) as real == n - 1real);
		assert((n - 2real) * x + x == (n - 1real) * x) by(nonlinear_arith);
	}
}
pub proof fn lemma_asum_slide(s: Seq<R>, x: R)
	requires s.len() >= 1
	ensures asum(s.drop_first().push(x)) == asum(s) + sum(s) - (s.len() as real) * s[0]@
{
	let u = s.drop_first();
	assert(u.push(x).drop_last() =~= u);
	lemma_asum_tail(s);
	lemma_sum_tail(s);
	let (n, y) = (s.len() as real, s[0]@);
	assert((s.len() - 1) as real == n - 1real);
	assert((n - 1real) * y + y == n * y) by(nonlinear_arith);
}
pub proof fn lemma_asum_konst(n: nat, v: R)
	ensures asum(konst(n, v)) == (tri(n as int - 1) as real) * v@
	decreases n
{
	if n == 0 {
		assert(konst(0, v).len() == 0);
		assert(tri(-1) == 0);
		assert(0real * v@ == 0real) by(nonlinear_arith);
	} else {
		let m = (n - 1) as nat;
		lemma_asum_konst(m, v);
		lemma_sum_konst(m, v);
		assert(konst(n, v).drop_last() =~= konst(m, v));
		if m == 0 {
			assert(tri(0) == 0 && tri(-1) == 0);
			assert(0real * v@ == 0real) by(nonlinear_arith);
		} else {
			assert(tri(m as int) == tri(m as int - 1) + m);
			let (a, b, x) = (tri(m as int - 1) as real, m as real, v@);
			assert(tri(n as int - 1) as real == a + b);
			assert(a * x + b * x == (a + b) * x) by(nonlinear_arith);
		}
	}
}
pub proof fn lemma_sqsum(n: int)
	requires n >= 0
	ensures 6 * sqsum(n) == (n - 1) * n * (2 * n - 1), sqsum(n) >= 0
	decreases n
{
	if n > 0 {
		let m = n - 1;
		lemma_sqsum(m);
		let q = sqsum(m);
		assert(sqsum(n) == q + m * m);
		assert(6 * (q + m * m) == (n - 1) * n * (2 * n - 1)) by(nonlinear_arith) requires 6 * q == (m - 1) * m * (2 * m - 1), m == n - 1;
	} else {
		assert((n - 1) * n * (2 * n - 1) == 0) by(nonlinear_arith) requires n == 0;
	}
}
// the integer quantities of LinReg::new: Σx, Σx² over x = 0..n-1 and the determinant n·Σx² − (Σx)² > 0
pub proof fn lemma_linreg_ints(n: int)
	requires n >= 2
	ensures
		n * (n - 1) / 2 == tri(n - 1), tri(n - 1) >= 1,
		tri(n - 1) * (2 * (n - 1) + 1) / 3 == sqsum(n), sqsum(n) >= 1,
		n * sqsum(n) - tri(n - 1) * tri(n - 1) >= 1,
		tri(n - 1) <= n * n, sqsum(n) <= n * n * n,
{
	lemma_tri(n - 1);
	lemma_sqsum(n);
	let (t, q) = (tri(n - 1), sqsum(n));
	assert((n - 1) * n == n * (n - 1)) by(nonlinear_arith);
	assert(3 * q == t * (2 * n - 1)) by(nonlinear_arith) requires 6 * q == (n - 1) * n * (2 * n - 1), 2 * t == (n - 1) * n;
	assert(t * (2 * (n - 1) + 1) == 3 * q);
	assert(12 * (n * q - t * t) == n * n * (n * n - 1)) by(nonlinear_arith) requires 6 * q == (n - 1) * n * (2 * n - 1), 2 * t == (n - 1) * n;
	assert(n * n * (n * n - 1) >= 12) by(nonlinear_arith) requires n >= 2;
	assert(q >= 1) by(nonlinear_arith) requires 6 * q == (n - 1) * n * (2 * n - 1), n >= 2;
	assert(t <= n * n) by(nonlinear_arith) requires 2 * t == (n - 1) * n, n >= 2;
	assert(q <= n * n * n) by(nonlinear_arith) requires 6 * q == (n - 1) * n * (2 * n - 1), n >= 2;
}

//@extract src/methods/lin_reg.rs struct:LinReg
//@end
impl LinReg {
	pub open spec fn n(&self) -> int { self.window.cap() }
	pub open spec fn det(n: int) -> real { (n * sqsum(n) - tri(n - 1) * tri(n - 1)) as real }
	// documented: value at the newest point of the least-squares line through the last `length` inputs
	// (x = age: 0 for the newest point; slope k = (n·Σxy − Σx·Σy) / (n·Σx² − (Σx)²); result = (Σy − k·Σx) / n)
	pub open spec fn slope(view: Seq<R>) -> real {
		let n = view.len() as int;
		((n as real) * asum(view) - (tri(n - 1) as real) * sum(view)) / LinReg::det(n)
	}
	pub open spec fn def(view: Seq<R>) -> real {
		let n = view.len() as int;
		(sum(view) - LinReg::slope(view) * (tri(n - 1) as real)) / (n as real)
	}
	pub open spec fn inv(&self) -> bool {
		&&& self.window.wf() && self.window.cap() >= 2
		&&& self.float_length@ == self.n() as real
		&&& self.length_invert@ * (self.n() as real) == -1real
		&&& self.divider@ * LinReg::det(self.n()) == 1real && LinReg::det(self.n()) >= 1real
		&&& self.s_x@ == -(tri(self.n() - 1) as real)
		&&& self.s_y@ == -sum(self.window.view())
		&&& self.s_xy@ == -asum(self.window.view())
	}
//@extract src/methods/lin_reg.rs impl[LinReg]::tan
	requires self.inv()
	ensures r@ == -LinReg::slope(self.window.view()),
//@hint start
	proof {
		let n = self.n() as real;
		let (a, sx, sy, d, det) = (asum(self.window.view()), tri(self.n() - 1) as real, sum(self.window.view()), self.divider@, LinReg::det(self.n()));
		assert(((-a) * n + (-sx) * (-sy)) * d == -((n * a - sx * sy) / det)) by(nonlinear_arith) requires d * det == 1real, det >= 1real;
	}
//@end
//@extract src/methods/lin_reg.rs impl[LinReg]::b
	requires self.inv()
	ensures r@ == LinReg::def(self.window.view()),
//@hint start
	proof {
		let n = self.n() as real;
		let (k, sx, sy, li) = (LinReg::slope(self.window.view()), tri(self.n() - 1) as real, sum(self.window.view()), self.length_invert@);
		assert(((-sx) * (-k) + (-sy)) * li == (sy - k * sx) / n) by(nonlinear_arith) requires li * n == -1real, n >= 2real;
	}
//@end
//@extract src/methods/lin_reg.rs impl[Peekable<<Self as Method>::Output> for LinReg]::peek pub
//@sig pub fn peek(&self) -> (r: ValueType)
	requires self.inv()
	ensures r@ == LinReg::def(self.window.view()),
//@end
}
impl Method for LinReg {
	type Params = PeriodType;
	type Input = ValueType;
	type Output = ValueType;
	open spec fn inv(&self) -> bool { LinReg::inv(self) }
	open spec fn rejects(parameters: PeriodType) -> bool { parameters == 0 || parameters == 1 }
	// the integer determinant is computed in usize: lengths above 65535 (wide PeriodType only) are excluded
	open spec fn new_req(parameters: PeriodType, initial_value: &ValueType) -> bool { (parameters as int) <= 0xffff }
	open spec fn fresh(parameters: PeriodType, initial_value: &ValueType, s: &Self) -> bool {
		s.window.view() =~= konst(parameters as nat, *initial_value)
	}
	open spec fn input_ok(&self, x: &ValueType) -> bool { true }
	open spec fn step(pre: &Self, x: &ValueType, post: &Self, out: &ValueType) -> bool {
		&&& post.window.view() == pre.window.view().drop_first().push(*x)
		&&& out@ == LinReg::def(post.window.view())
	}
//@extract src/methods/lin_reg.rs impl[Method for LinReg]::new
	ensures (r is Ok) == (length != 0 && length != 1 && length != PeriodType::MAX),
//@hint before match length
	proof {
		if length >= 2 {
			let n = length as int;
			lemma_linreg_ints(n);
			lemma_sum_konst(length as nat, value);
			lemma_asum_konst(length as nat, value);
			let nr = n as real;
			assert(rdiv(1real, nr) == 1real / nr);
			assert((-(1real / nr)) * nr == -1real) by(nonlinear_arith) requires nr >= 2real;
			let det = LinReg::det(n);
			assert(rdiv(1real, det) * det == 1real) by(nonlinear_arith) requires det >= 1real, rdiv(1real, det) == 1real / det;
			assert(n * n * n * n <= 0x1_0000_0000_0000_0000) by(nonlinear_arith) requires 0 <= n <= 0xffff;
			let v = value@;
			let t = tri(n - 1) as real;
			assert((-v) * nr == -(nr * v) && v * (-t) == -(t * v)) by(nonlinear_arith);
		}
	}
//@hint before let s_x = l64
	proof {
		assert(l64 * n_1 <= 0xffff * 0xffff) by(nonlinear_arith) requires 0 <= l64 <= 0xffff, n_1 == l64 - 1;
	}
//@hint before let s_x2 =
	proof {
		let n = length as int;
		assert(l64 * n_1 == n * (n - 1)) by(nonlinear_arith) requires l64 == n, n_1 == n - 1;
		assert(s_x as int == tri(n - 1));
		assert(s_x * (2 * n_1 + 1) <= 0xffff * 0xffff * 0x2_0000) by(nonlinear_arith) requires 0 <= s_x <= 0xffff * 0xffff, 0 <= n_1 <= 0xffff;
	}
//@hint before let divider =
	proof {
		let n = length as int;
		assert(s_x2 as int == sqsum(n));
		assert(l64 * s_x2 <= 0xffff * (0xffff * 0xffff * 0xffff)) by(nonlinear_arith) requires 0 <= l64 <= 0xffff, 0 <= s_x2 <= 0xffff * 0xffff * 0xffff, s_x2 as int <= n * n * n, n <= 0xffff;
		assert(s_x * s_x <= 0xffff * 0xffff * (0xffff * 0xffff)) by(nonlinear_arith) requires 0 <= s_x <= 0xffff * 0xffff;
	}
//@hint result
	proof { if r is Ok { lemma_cloned_konst(r->Ok_0.window.view(), length as nat, value); } }
//@end
//@extract src/methods/lin_reg.rs impl[Method for LinReg]::next
//@hint before self.s_xy +=
	proof {
		lemma_asum_slide(old(self).window.view(), value);
		lemma_sum_slide(old(self).window.view(), value);
		let (p, n) = (past_value@, self.float_length@);
		assert(p * n == n * p) by(nonlinear_arith);
	}
//@end
}
// C08
pub proof fn lin_reg_const_step(pre: LinReg, v: R, post: LinReg, out: R)
	requires pre.inv(), pre.window.view() =~= konst(pre.window.view().len(), v), LinReg::step(&pre, &v, &post, &out)
	ensures post.window.view() =~= konst(pre.window.view().len(), v), out@ == v@
{
	let n = pre.window.view().len();
	assert(post.window.view() =~= konst(n, v));
	lemma_sum_konst(n, v);
	lemma_asum_konst(n, v);
	let (nr, t, x, det) = (n as real, tri(n as int - 1) as real, v@, LinReg::det(n as int));
	assert((nr * (t * x) - t * (nr * x)) / det == 0real) by(nonlinear_arith) requires det >= 1real;
	assert((nr * x - 0real * t) / nr == x) by(nonlinear_arith) requires nr >= 2real;
}
//@export-end
} // verus!
fn main() {}
