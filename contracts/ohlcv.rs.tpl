//@unit ohlcv
//@include head.rs

//@export-begin
//@extract src/core/candles.rs enum:Source keepderive
//@end

// the documented value of candle.source(kind), as a real function of the five observations
pub open spec fn src_val5(o: real, h: real, l: real, c: real, v: real, kind: Source) -> real {
	match kind {
		Source::Close => c,
		Source::High => h,
		Source::Low => l,
		Source::Open => o,
		Source::Volume => v,
		Source::TP => (h + l + c) / 3real,
		Source::HL2 => (h + l) / 2real,
		Source::VolumedPrice => (h + l + c) / 3real * v,
	}
}
pub trait OHLCV {
	// the five accessors are pure observations of the candle
	spec fn open_s(&self) -> ValueType;
	spec fn high_s(&self) -> ValueType;
	spec fn low_s(&self) -> ValueType;
	spec fn close_s(&self) -> ValueType;
	spec fn volume_s(&self) -> ValueType;

//@extract src/core/ohlcv.rs trait[OHLCV]::open
	ensures r == self.open_s(),
//@end
//@extract src/core/ohlcv.rs trait[OHLCV]::high
	ensures r == self.high_s(),
//@end
//@extract src/core/ohlcv.rs trait[OHLCV]::low
	ensures r == self.low_s(),
//@end
//@extract src/core/ohlcv.rs trait[OHLCV]::close
	ensures r == self.close_s(),
//@end
//@extract src/core/ohlcv.rs trait[OHLCV]::volume
	ensures r == self.volume_s(),
//@end

//@extract src/core/ohlcv.rs trait[OHLCV]::tp
	ensures r@ == (self.high_s()@ + self.low_s()@ + self.close_s()@) / 3real,
//@end
//@extract src/core/ohlcv.rs trait[OHLCV]::hl2
	ensures r@ == (self.high_s()@ + self.low_s()@) / 2real,
//@end
//@extract src/core/ohlcv.rs trait[OHLCV]::ohlc4
	ensures r@ == (self.high_s()@ + self.low_s()@ + self.close_s()@ + self.open_s()@) / 4real,
//@end
//@extract src/core/ohlcv.rs trait[OHLCV]::clv
	ensures
		self.high_s()@ == self.low_s()@ ==> r@ == 0real,
		self.high_s()@ != self.low_s()@ ==> r@ == ((self.close_s()@ - self.low_s()@) - (self.high_s()@ - self.close_s()@)) / (self.high_s()@ - self.low_s()@),
		self.low_s()@ <= self.close_s()@ <= self.high_s()@ ==> -1real <= r@ <= 1real,
//@hint start
	proof {
		let (h, l, c) = (self.high_s()@, self.low_s()@, self.close_s()@);
		if h != l {
			let d = h - l;
			let num = (c - l) - (h - c);
			assert(2real * c + (-l) - h == num);
			if l <= c && c <= h {
				assert(-1real <= num / d && num / d <= 1real) by(nonlinear_arith) requires d > 0real, -d <= num, num <= d;
			}
		}
	}
//@end
//@extract src/core/ohlcv.rs trait[OHLCV]::tr_close
	ensures r@ == rmax(self.high_s()@, prev_close@) - rmin(self.low_s()@, prev_close@),
		self.high_s()@ >= self.low_s()@ ==> r@ >= 0real
			&& r@ == rmax(self.high_s()@ - self.low_s()@, rmax(rabs(self.high_s()@ - prev_close@), rabs(self.low_s()@ - prev_close@))),
//@end
//@extract src/core/ohlcv.rs trait[OHLCV]::validate
	ensures r == (
		!(self.close_s()@ > self.high_s()@ || self.close_s()@ < self.low_s()@ || self.high_s()@ < self.low_s()@)
		&& self.close_s()@ > 0real && self.open_s()@ > 0real && self.high_s()@ > 0real && self.low_s()@ > 0real
		&& self.volume_s()@ >= 0real),
//@end
//@extract src/core/ohlcv.rs trait[OHLCV]::source
	ensures
		r@ == src_val5(self.open_s()@, self.high_s()@, self.low_s()@, self.close_s()@, self.volume_s()@, source),
		source == Source::Close ==> r == self.close_s(),
		source == Source::High ==> r == self.high_s(),
		source == Source::Low ==> r == self.low_s(),
		source == Source::Open ==> r == self.open_s(),
		source == Source::Volume ==> r == self.volume_s(),
		source == Source::TP ==> r@ == (self.high_s()@ + self.low_s()@ + self.close_s()@) / 3real,
		source == Source::HL2 ==> r@ == (self.high_s()@ + self.low_s()@) / 2real,
		source == Source::VolumedPrice ==> r@ == (self.high_s()@ + self.low_s()@ + self.close_s()@) / 3real * self.volume_s()@,
//@end
//@extract src/core/ohlcv.rs trait[OHLCV]::volumed_price
	ensures r@ == (self.high_s()@ + self.low_s()@ + self.close_s()@) / 3real * self.volume_s()@,
//@end
//@extract src/core/ohlcv.rs trait[OHLCV]::is_rising
	ensures r == (self.close_s()@ > self.open_s()@),
//@end
//@extract src/core/ohlcv.rs trait[OHLCV]::is_falling
	ensures r == (self.close_s()@ < self.open_s()@),
//@end
}

// `tr` takes another `dyn OHLCV`; it lives in an extension trait here because Verus rejects a provided method whose
// generic parameter is bounded by the trait being declared (R10/R12). Body unchanged.
pub trait OHLCVTr: OHLCV {
//@extract src/core/ohlcv.rs trait[OHLCV]::tr
//@sig fn tr<P: OHLCV>(&self, prev_candle: &P) -> (r: ValueType)
	ensures r@ == rmax(self.high_s()@, prev_candle.close_s()@) - rmin(self.low_s()@, prev_candle.close_s()@),
//@end
}
impl<T: OHLCV> OHLCVTr for T {}

pub open spec fn src_val<T: OHLCV>(c: &T, kind: Source) -> real {
	src_val5(c.open_s()@, c.high_s()@, c.low_s()@, c.close_s()@, c.volume_s()@, kind)
}

// R10: an arbitrary `dyn OHLCV` value: five uninterpreted, pure accessors
#[verifier::external_body]
pub struct DynOHLCV { _p: () }
pub uninterp spec fn dyn_open(c: &DynOHLCV) -> ValueType;
pub uninterp spec fn dyn_high(c: &DynOHLCV) -> ValueType;
pub uninterp spec fn dyn_low(c: &DynOHLCV) -> ValueType;
pub uninterp spec fn dyn_close(c: &DynOHLCV) -> ValueType;
pub uninterp spec fn dyn_volume(c: &DynOHLCV) -> ValueType;
impl OHLCV for DynOHLCV {
	open spec fn open_s(&self) -> ValueType { dyn_open(self) }
	open spec fn high_s(&self) -> ValueType { dyn_high(self) }
	open spec fn low_s(&self) -> ValueType { dyn_low(self) }
	open spec fn close_s(&self) -> ValueType { dyn_close(self) }
	open spec fn volume_s(&self) -> ValueType { dyn_volume(self) }
	#[verifier::external_body] fn open(&self) -> (r: ValueType) { unimplemented!() }
	#[verifier::external_body] fn high(&self) -> (r: ValueType) { unimplemented!() }
	#[verifier::external_body] fn low(&self) -> (r: ValueType) { unimplemented!() }
	#[verifier::external_body] fn close(&self) -> (r: ValueType) { unimplemented!() }
	#[verifier::external_body] fn volume(&self) -> (r: ValueType) { unimplemented!() }
}

//@extract src/core/candles.rs struct:Candle keepderive
//@end
impl OHLCV for Candle {
	open spec fn open_s(&self) -> ValueType { self.open }
	open spec fn high_s(&self) -> ValueType { self.high }
	open spec fn low_s(&self) -> ValueType { self.low }
	open spec fn close_s(&self) -> ValueType { self.close }
	open spec fn volume_s(&self) -> ValueType { self.volume }
//@extract src/core/candles.rs impl[OHLCV for Candle]::open
//@end
//@extract src/core/candles.rs impl[OHLCV for Candle]::high
//@end
//@extract src/core/candles.rs impl[OHLCV for Candle]::low
//@end
//@extract src/core/candles.rs impl[OHLCV for Candle]::close
//@end
//@extract src/core/candles.rs impl[OHLCV for Candle]::volume
//@end
}
// aggregation of candles: first open, highest high, lowest low, last close, summed volume (core/candles.rs)
pub open spec fn candle_add_spec<T: OHLCV>(a: Candle, b: &T, r: Candle) -> bool {
	&&& r.open == a.open && r.close == b.close_s()
	&&& r.high@ == rmax(a.high@, b.high_s()@) && r.low@ == rmin(a.low@, b.low_s()@)
	&&& r.volume@ == a.volume@ + b.volume_s()@
}
impl<T: OHLCV> AddSpecImpl<T> for Candle {
	open spec fn obeys_add_spec() -> bool { false }
	open spec fn add_req(self, rhs: T) -> bool { true }
	open spec fn add_spec(self, rhs: T) -> Candle { arbitrary() }
}
impl<T: OHLCV> core::ops::Add<T> for Candle {
	type Output = Candle;
//@extract src/core/candles.rs impl[std::ops::Add<T> for Candle]::add
//@sig fn add(self, rhs: T) -> (r: Candle)
	ensures candle_add_spec(self, &rhs, r),
//@end
}
//@export-end

// C18: aggregation by + is associative (over reals: float addition of volumes is not associative, so this is the honest reading)
pub proof fn candle_add_assoc(a: Candle, b: Candle, c: Candle, ab: Candle, bc: Candle, l: Candle, r: Candle)
	requires candle_add_spec(a, &b, ab), candle_add_spec(ab, &c, l), candle_add_spec(b, &c, bc), candle_add_spec(a, &bc, r)
	ensures l.open == r.open, l.close == r.close, l.high@ == r.high@, l.low@ == r.low@, l.volume@ == r.volume@
{
}

// valid candle, as the properties use the term (C05, C12, C17)
pub open spec fn valid_candle<T: OHLCV>(c: &T) -> bool {
	c.low_s()@ <= c.open_s()@ <= c.high_s()@ && c.low_s()@ <= c.close_s()@ <= c.high_s()@ && c.low_s()@ > 0real && c.volume_s()@ >= 0real
}
} // verus!
fn main() {}
