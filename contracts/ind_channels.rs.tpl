//@unit ind_channels
//@include head.rs
//@include select_lib.rs
//@import ohlcv.rs.tpl
//@import indicator_base.rs.tpl
//@include indicator_traits.rs
//@import highest_lowest.rs.tpl
//@import sma.rs.tpl
//@import st_dev.rs.tpl

// ================================================================== DonchianChannel
//@extract src/indicators/donchian_channel.rs struct:DonchianChannel keepderive
//@end
//@extract src/indicators/donchian_channel.rs struct:DonchianChannelInstance
//@end
impl DonchianChannel {
	pub open spec fn valid(&self) -> bool { self.period > 1 }
//@extract src/indicators/donchian_channel.rs impl[IndicatorConfig for DonchianChannel]::validate pub
	ensures r == self.valid(),
//@end
//@extract src/indicators/donchian_channel.rs impl[IndicatorConfig for DonchianChannel]::size pub
	ensures r == (3u8, 1u8),
//@end
//@extract src/indicators/donchian_channel.rs impl[IndicatorConfig for DonchianChannel]::init pub
//@sig pub fn init<T: OHLCV>(self, candle: &T) -> (r: Result<DonchianChannelInstance, Error>)
	ensures
		!self.valid() ==> r is Err,
		r is Ok ==> r->Ok_0.inv() && r->Ok_0.cfg == self,
		r is Ok ==> r->Ok_0.highest.window.view() =~= konst(self.period as nat, candle.high_s())
			&& r->Ok_0.lowest.window.view() =~= konst(self.period as nat, candle.low_s()),
		// C08: the constant state for the candle's high and low (donchian_const_step)
		r is Ok ==> r->Ok_0.const_state(candle.high_s()@, candle.low_s()@),
//@replace Ok(Self::Instance { ==> Ok(DonchianChannelInstance {
//@end
}
impl DonchianChannelInstance {
	pub open spec fn inv(&self) -> bool { self.highest.inv() && self.lowest.inv() }
//@extract src/indicators/donchian_channel.rs impl[IndicatorInstance for DonchianChannelInstance]::next pub into=action
	requires old(self).inv()
	ensures final(self).inv(), final(self).cfg == old(self).cfg,
		r.length == (3u8, 1u8),
		// documented: highest high and lowest low of the last `period` candles and their midpoint
		Highest::step(&old(self).highest, &candle.high_s(), &final(self).highest, &r.vals()[2]),
		Lowest::step(&old(self).lowest, &candle.low_s(), &final(self).lowest, &r.vals()[0]),
		r.vals()[1]@ == (r.vals()[2]@ + r.vals()[0]@) / 2real,
		// signal: +1 when the candle makes the new highest high, -1 when it makes the new lowest low
		r.sigs()[0] == Action::of_i8((if candle.high_s()@ >= r.vals()[2]@ { 1int } else { 0int }) - (if candle.low_s()@ <= r.vals()[0]@ { 1int } else { 0int })),
		// C12: the channel contains the highs and lows it is built from; upper >= middle >= lower for an ordered candle
		r.vals()[2]@ >= candle.high_s()@ && r.vals()[0]@ <= candle.low_s()@,
		candle.high_s()@ >= candle.low_s()@ ==> r.vals()[2]@ >= r.vals()[1]@ && r.vals()[1]@ >= r.vals()[0]@,
//@hint before let middle
	proof {
		let hv = self.highest.window.view();
		let lv = self.lowest.window.view();
		assert(hv[hv.len() - 1] == high && lv[lv.len() - 1] == low);
	}
//@end
}

// ---- C08 at indicator level: DonchianChannel fed the candle it was initialised with: lower = low, upper = high, middle their mean, no signal (both edges are touched at once)
pub open spec fn all_eq(v: Seq<R>, s: real) -> bool { forall|i: int| 0 <= i < v.len() ==> (#[trigger] v[i])@ == s }
impl DonchianChannelInstance {
	pub open spec fn const_state(&self, h: real, l: real) -> bool { self.inv() && all_eq(self.highest.window.view(), h) && all_eq(self.lowest.window.view(), l) }
}
pub proof fn donchian_const_step(pre: &DonchianChannelInstance, high: ValueType, low: ValueType, post: &DonchianChannelInstance, upper: ValueType, lower: ValueType)
	requires pre.const_state(high@, low@), post.inv(), Highest::step(&pre.highest, &high, &post.highest, &upper), Lowest::step(&pre.lowest, &low, &post.lowest, &lower)
	ensures upper@ == high@, lower@ == low@, post.const_state(high@, low@)
{
	let (a, b) = (post.highest.window.view(), post.lowest.window.view());
	assert forall|i: int| 0 <= i < a.len() implies (#[trigger] a[i])@ == high@ by { if i < a.len() - 1 { assert(a[i] == pre.highest.window.view()[i + 1]); } }
	assert forall|i: int| 0 <= i < b.len() implies (#[trigger] b[i])@ == low@ by { if i < b.len() - 1 { assert(b[i] == pre.lowest.window.view()[i + 1]); } }
}

// ================================================================== PriceChannelStrategy
//@extract src/indicators/price_channel_strategy.rs struct:PriceChannelStrategy keepderive
//@end
//@extract src/indicators/price_channel_strategy.rs struct:PriceChannelStrategyInstance
//@end
impl PriceChannelStrategy {
	pub open spec fn valid(&self) -> bool { self.period > 1 && self.sigma@ > 0real && self.sigma@ <= 1real }
//@extract src/indicators/price_channel_strategy.rs impl[IndicatorConfig for PriceChannelStrategy]::validate pub
	ensures r == self.valid(),
//@end
//@extract src/indicators/price_channel_strategy.rs impl[IndicatorConfig for PriceChannelStrategy]::size pub
	ensures r == (2u8, 1u8),
//@end
//@extract src/indicators/price_channel_strategy.rs impl[IndicatorConfig for PriceChannelStrategy]::init pub
//@sig pub fn init<T: OHLCV>(self, candle: &T) -> (r: Result<PriceChannelStrategyInstance, Error>)
	ensures
		!self.valid() ==> r is Err,
		r is Ok ==> r->Ok_0.inv() && r->Ok_0.cfg == self,
		r is Ok ==> r->Ok_0.highest.window.view() =~= konst(self.period as nat, candle.high_s())
			&& r->Ok_0.lowest.window.view() =~= konst(self.period as nat, candle.low_s()),
		// C08: the constant state for the candle's high and low (pcs_const_step)
		r is Ok ==> r->Ok_0.const_state(candle.high_s()@, candle.low_s()@),
//@replace Ok(Self::Instance { ==> Ok(PriceChannelStrategyInstance {
//@end
}
pub open spec fn pcs_step(pre: &PriceChannelStrategyInstance, h: ValueType, l: ValueType, post: &PriceChannelStrategyInstance, up: real, lo: real, hi: ValueType, lw: ValueType) -> bool {
	&&& Highest::step(&pre.highest, &h, &post.highest, &hi) && Lowest::step(&pre.lowest, &l, &post.lowest, &lw)
	// documented: middle +- sigma * (highest - middle)
	&&& up == (hi@ + lw@) / 2real + pre.cfg.sigma@ * (hi@ - (hi@ + lw@) / 2real)
	&&& lo == (hi@ + lw@) / 2real - pre.cfg.sigma@ * (hi@ - (hi@ + lw@) / 2real)
}
impl PriceChannelStrategyInstance {
	pub open spec fn inv(&self) -> bool { self.highest.inv() && self.lowest.inv() && self.cfg.valid() }
//@extract src/indicators/price_channel_strategy.rs impl[IndicatorInstance for PriceChannelStrategyInstance]::next pub into=action
	requires old(self).inv()
	ensures final(self).inv(), final(self).cfg == old(self).cfg,
		r.length == (2u8, 1u8),
		exists|hi: ValueType, lw: ValueType| #[trigger] pcs_step(old(self), candle.high_s(), candle.low_s(), final(self), r.vals()[0]@, r.vals()[1]@, hi, lw)
			// C12: the channel lies inside [lowest low, highest high] and upper >= lower for an ordered candle
			&& (candle.high_s()@ >= candle.low_s()@ ==> r.vals()[0]@ >= r.vals()[1]@ && r.vals()[0]@ <= hi@ && r.vals()[1]@ >= lw@),
		r.sigs()[0] == Action::of_i8((if candle.high_s()@ >= r.vals()[0]@ { 1int } else { 0int }) - (if candle.low_s()@ <= r.vals()[1]@ { 1int } else { 0int })),
//@hint result
	proof {
		let hv = self.highest.window.view();
		let lv = self.lowest.window.view();
		assert(hv[hv.len() - 1] == high && lv[lv.len() - 1] == low);
		let (h, l, s) = (highest@, lowest@, self.cfg.sigma@);
		let m = (h + l) / 2real;
		assert(delta@ == h - m);
		assert((h - m) * s + m == m + s * (h - m)) by(nonlinear_arith);
		assert((h - m) * (-s) + m == m - s * (h - m)) by(nonlinear_arith);
		if candle.high_s()@ >= candle.low_s()@ {
			assert(h >= l);
			assert(s * (h - m) >= 0real && s * (h - m) <= h - m) by(nonlinear_arith) requires 0real < s <= 1real, h - m >= 0real;
		}
		assert(pcs_step(old(self), candle.high_s(), candle.low_s(), self, r.vals()[0]@, r.vals()[1]@, highest, lowest));
	}
//@end
}

// ---- C08 at indicator level: PriceChannelStrategy on a repeated candle: the channel is built from that candle's high and low at every step
impl PriceChannelStrategyInstance {
	pub open spec fn const_state(&self, h: real, l: real) -> bool { self.inv() && all_eq(self.highest.window.view(), h) && all_eq(self.lowest.window.view(), l) }
}
pub proof fn pcs_const_step(pre: &PriceChannelStrategyInstance, h: ValueType, l: ValueType, post: &PriceChannelStrategyInstance, up: real, lo: real, hi: ValueType, lw: ValueType)
	requires pre.const_state(h@, l@), post.inv(), post.cfg == pre.cfg, pcs_step(pre, h, l, post, up, lo, hi, lw)
	ensures hi@ == h@, lw@ == l@, up == (h@ + l@) / 2real + pre.cfg.sigma@ * (h@ - (h@ + l@) / 2real), post.const_state(h@, l@)
{
	let (a, b) = (post.highest.window.view(), post.lowest.window.view());
	assert forall|i: int| 0 <= i < a.len() implies (#[trigger] a[i])@ == h@ by { if i < a.len() - 1 { assert(a[i] == pre.highest.window.view()[i + 1]); } }
	assert forall|i: int| 0 <= i < b.len() implies (#[trigger] b[i])@ == l@ by { if i < b.len() - 1 { assert(b[i] == pre.lowest.window.view()[i + 1]); } }
}

// ================================================================== BollingerBands
//@extract src/indicators/bollinger_bands.rs struct:BollingerBands keepderive
//@end
//@extract src/indicators/bollinger_bands.rs struct:BollingerBandsInstance
//@end
impl BollingerBands {
	pub open spec fn valid(&self) -> bool { self.sigma@ > 0real && self.avg_size > 2 && self.avg_size < PeriodType::MAX }
//@extract src/indicators/bollinger_bands.rs impl[IndicatorConfig for BollingerBands]::validate pub
	ensures r == self.valid(),
//@end
//@extract src/indicators/bollinger_bands.rs impl[IndicatorConfig for BollingerBands]::size pub
	ensures r == (3u8, 1u8),
//@end
//@extract src/indicators/bollinger_bands.rs impl[IndicatorConfig for BollingerBands]::init pub
//@sig pub fn init<T: OHLCV>(self, candle: &T) -> (r: Result<BollingerBandsInstance, Error>)
	ensures
		(self.valid() <==> r is Ok),
		r is Ok ==> r->Ok_0.inv() && r->Ok_0.cfg == self,
		r is Ok ==> (exists|src: ValueType| src@ == src_val(candle, self.source)
			&& #[trigger] konst(self.avg_size as nat, src) =~= r->Ok_0.ma.window.view() && r->Ok_0.st_dev.window.view() =~= konst(self.avg_size as nat, src)),
		// C08: the constant state for the candle's source price (bb_const_step)
		r is Ok ==> r->Ok_0.const_state(src_val(candle, self.source)),
//@replace Ok(Self::Instance { ==> Ok(BollingerBandsInstance {
//@end
}
pub open spec fn bb_step(pre: &BollingerBandsInstance, src: ValueType, post: &BollingerBandsInstance, upper: real, middle: ValueType, lower: real, sd: ValueType) -> bool {
	// documented: mean +- sigma standard deviations of the last avg_size source values
	&&& SMA::step(&pre.ma, &src, &post.ma, &middle) && StDev::step(&pre.st_dev, &src, &post.st_dev, &sd)
	&&& upper == middle@ + pre.cfg.sigma@ * sd@ && lower == middle@ - pre.cfg.sigma@ * sd@
}
impl BollingerBandsInstance {
	pub open spec fn inv(&self) -> bool { self.ma.inv() && self.st_dev.inv() && self.cfg.valid() }
//@extract src/indicators/bollinger_bands.rs impl[IndicatorInstance for BollingerBandsInstance]::next pub into=action
	requires old(self).inv()
	ensures final(self).inv(), final(self).cfg == old(self).cfg,
		r.length == (3u8, 1u8),
		exists|src: ValueType, sd: ValueType| src@ == src_val(candle, old(self).cfg.source)
			&& #[trigger] bb_step(old(self), src, final(self), r.vals()[0]@, r.vals()[1], r.vals()[2]@, sd)
			// signal: position of the source inside the band mapped to [-1, 1]; 0 on a zero-width band
			&& (r.vals()[0]@ - r.vals()[2]@ == 0real ==> r.sigs()[0] == action_of_real(0real))
			&& (r.vals()[0]@ - r.vals()[2]@ != 0real ==> r.sigs()[0] == action_of_real((src@ - r.vals()[2]@) / (r.vals()[0]@ - r.vals()[2]@) * 2real - 1real)),
		// C12: upper >= middle >= lower
		r.vals()[0]@ >= r.vals()[1]@ && r.vals()[1]@ >= r.vals()[2]@,
//@hint result
	proof {
		let (sd, s, m) = (sq_error@, self.cfg.sigma@, middle@);
		assert(sd * s + m == m + s * sd && sd * (-s) + m == m - s * sd) by(nonlinear_arith);
		assert(s * sd >= 0real) by(nonlinear_arith) requires s > 0real, sd >= 0real;
		assert(0.5real * 2real + (-1real) == 0real);
		assert(bb_step(old(self), source, self, r.vals()[0]@, r.vals()[1], r.vals()[2]@, sq_error));
	}
//@end
}

// ---- C08 at indicator level: BollingerBands on a repeated candle: middle = the source price, deviation 0, both bands on the middle, signal "none" (zero-width band)
pub proof fn lemma_fsum_all_val(v: Seq<R>, f: spec_fn(R) -> real, c: real)
	requires forall|i: int| 0 <= i < v.len() ==> f(#[trigger] v[i]) == c
	ensures fsum(v, f) == (v.len() as real) * c
	decreases v.len()
{
	if v.len() > 0 {
		assert forall|i: int| 0 <= i < v.drop_last().len() implies f(#[trigger] v.drop_last()[i]) == c by { assert(v.drop_last()[i] == v[i]); }
		lemma_fsum_all_val(v.drop_last(), f, c);
		assert(f(v.last()) == c) by { assert(v.last() == v[v.len() - 1]); }
		let n = v.len() as real;
		assert((n - 1real) * c + c == n * c) by(nonlinear_arith);
		assert(v.drop_last().len() as real == n - 1real);
	} else {
		assert(0real * c == 0real) by(nonlinear_arith);
	}
}
impl BollingerBandsInstance {
	pub open spec fn const_state(&self, s: real) -> bool { self.inv() && all_eq(self.ma.window.view(), s) && all_eq(self.st_dev.window.view(), s) }
}
pub proof fn bb_const_step(pre: &BollingerBandsInstance, src: ValueType, post: &BollingerBandsInstance, upper: real, middle: ValueType, lower: real, sd: ValueType)
	requires pre.const_state(src@), post.inv(), post.cfg == pre.cfg, bb_step(pre, src, post, upper, middle, lower, sd)
	ensures middle@ == src@, sd@ == 0real, upper == src@, lower == src@, post.const_state(src@)
{
	let (a, b) = (post.ma.window.view(), post.st_dev.window.view());
	assert forall|i: int| 0 <= i < a.len() implies (#[trigger] a[i])@ == src@ by { if i < a.len() - 1 { assert(a[i] == pre.ma.window.view()[i + 1]); } }
	assert forall|i: int| 0 <= i < b.len() implies (#[trigger] b[i])@ == src@ by { if i < b.len() - 1 { assert(b[i] == pre.st_dev.window.view()[i + 1]); } }
	let x = src@;
	// mean
	lemma_sum_all_eq(a, x);
	let na = a.len() as real;
	assert((na * x) / na == x) by(nonlinear_arith) requires na >= 1real;
	// deviation
	assert forall|i: int| 0 <= i < b.len() implies id_fn()(#[trigger] b[i]) == x by {}
	assert forall|i: int| 0 <= i < b.len() implies sq_fn()(#[trigger] b[i]) == x * x by {}
	lemma_fsum_all_val(b, id_fn(), x);
	lemma_fsum_all_val(b, sq_fn(), x * x);
	let nr = b.len() as real;
	assert(nr * (x * x) - (nr * x) * (nr * x) / nr == 0real) by(nonlinear_arith) requires nr >= 2real;
	assert(0real / (nr - 1real) == 0real) by(nonlinear_arith) requires nr >= 2real;
	assert((b.len() - 1) as real == nr - 1real);
	axiom_sqrt(0real);
	assert(sd@ * sd@ == 0real ==> sd@ == 0real) by(nonlinear_arith);
	assert(pre.cfg.sigma@ * 0real == 0real) by(nonlinear_arith);
}
} // verus!
fn main() {}
