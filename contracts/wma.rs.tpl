//@unit wma
//@include head.rs

//@export-begin
//@extract src/methods/wma.rs struct:WMA
//@end

impl WMA {
	pub open spec fn n(&self) -> int { self.window.cap() }
	// documented: sum of the last `length` inputs weighted 1 (oldest) .. length (newest), divided by length*(length+1)/2
	pub open spec fn def(view: Seq<R>) -> real { wsum(view) / (tri(view.len() as int) as real) }
//@extract src/methods/wma.rs impl[Peekable<<Self as Method>::Output> for WMA]::peek pub
//@sig pub fn peek(&self) -> (r: ValueType)
	requires self.inv()
	ensures r@ == WMA::def(self.window.view()),
//@hint start
	proof {
		lemma_tri(self.n());
		let t = tri(self.n()) as real;
		let (a, d) = (self.numerator@, self.invert_sum@);
		assert(a * d == a / t) by(nonlinear_arith) requires d * t == 1real, t >= 1real;
	}
//@end
}

impl Method for WMA {
	type Params = PeriodType;
	type Input = ValueType;
	type Output = ValueType;
	open spec fn inv(&self) -> bool {
		&&& self.window.wf() && self.window.cap() >= 1
		&&& self.float_length@ == self.window.cap() as real
		&&& self.invert_sum@ * (tri(self.window.cap()) as real) == 1real
		&&& self.total@ == -sum(self.window.view())
		&&& self.numerator@ == wsum(self.window.view())
	}
	open spec fn rejects(parameters: PeriodType) -> bool { parameters == 0 }
	open spec fn new_req(parameters: PeriodType, initial_value: &ValueType) -> bool { (parameters as int) <= 0xffff_ffff }
	open spec fn fresh(parameters: PeriodType, initial_value: &ValueType, s: &Self) -> bool {
		s.window.view() =~= konst(parameters as nat, *initial_value)
	}
	open spec fn input_ok(&self, x: &ValueType) -> bool { true }
	open spec fn step(pre: &Self, x: &ValueType, post: &Self, out: &ValueType) -> bool {
		&&& post.window.view() == pre.window.view().drop_first().push(*x)
		&&& out@ == WMA::def(post.window.view())
	}
//@extract src/methods/wma.rs impl[Method for WMA]::new
	ensures (r is Ok) == (length != 0 && length != PeriodType::MAX),
//@hint before match length
	proof {
		if length > 0 {
			lemma_tri(length as int);
			let l = length as int;
			assert(l * (l + 1) <= 0x1_0000_0000 * 0x1_0000_0001) by(nonlinear_arith) requires 0 <= l <= 0xffff_ffff;
			let t = tri(length as int) as real;
			assert(rdiv(1real, t) * t == 1real) by(nonlinear_arith) requires t >= 1real, rdiv(1real, t) == 1real / t;
			lemma_sum_konst(length as nat, value);
			lemma_wsum_konst(length as nat, value);
			assert(-value@ * (length as real) == -((length as nat) as real * value@)) by(nonlinear_arith);
			assert(value@ * t == t * value@) by(nonlinear_arith);
		}
	}
//@hint before let sum =
	proof {
		assert(length2 * (length2 + 1) <= 0xffff_ffff * 0x1_0000_0000) by(nonlinear_arith) requires 0 <= length2 <= 0xffff_ffff;
	}
//@hint result
	proof { if r is Ok { lemma_cloned_konst(r->Ok_0.window.view(), length as nat, value); } }
//@end
//@extract src/methods/wma.rs impl[Method for WMA]::next
//@hint before self.numerator +=
	proof {
		lemma_wsum_slide(old(self).window.view(), value);
		lemma_sum_slide(old(self).window.view(), value);
	}
//@hint before self.numerator * self.invert_sum
	proof {
		lemma_tri(self.n());
		let t = tri(self.n()) as real;
		let (a, d) = (self.numerator@, self.invert_sum@);
		assert(a * d == a / t) by(nonlinear_arith) requires d * t == 1real, t >= 1real;
	}
//@end
}
//@export-end

pub proof fn wma_const_step(pre: WMA, v: R, post: WMA, out: R)
	requires pre.inv(), pre.window.view() =~= konst(pre.window.view().len(), v), WMA::step(&pre, &v, &post, &out)
	ensures post.window.view() =~= konst(pre.window.view().len(), v), out@ == v@
{
	let n = pre.window.view().len();
	assert(post.window.view() =~= konst(n, v));
	lemma_wsum_konst(n, v);
	lemma_tri(n as int);
	let t = tri(n as int) as real;
	assert((t * v@) / t == v@) by(nonlinear_arith) requires t >= 1real;
}
} // verus!
fn main() {}
