//@unit ind_osc
//@include head.rs
//@import ohlcv.rs.tpl
//@import indicator_base.rs.tpl
//@include indicator_traits.rs

// ================================================================== DetrendedPriceOscillator
//@extract src/indicators/detrended_price_oscillator.rs struct:DetrendedPriceOscillator
//@end
//@extract src/indicators/detrended_price_oscillator.rs struct:DetrendedPriceOscillatorInstance
//@end
impl<M: MovingAverageConstructor> DetrendedPriceOscillator<M> {
	pub open spec fn valid(&self) -> bool { self.ma.period_s() > 1 && self.ma.period_s() < PeriodType::MAX }
//@extract src/indicators/detrended_price_oscillator.rs impl[IndicatorConfig for DetrendedPriceOscillator<M>]::validate pub
	ensures r == self.valid(),
//@end
//@extract src/indicators/detrended_price_oscillator.rs impl[IndicatorConfig for DetrendedPriceOscillator<M>]::size pub
	ensures r == (1u8, 0u8),
//@end
//@extract src/indicators/detrended_price_oscillator.rs impl[IndicatorConfig for DetrendedPriceOscillator<M>]::init pub
//@sig pub fn init<T: OHLCV>(self, candle: &T) -> (r: Result<DetrendedPriceOscillatorInstance<M>, Error>)
	ensures
		!self.valid() ==> r is Err,
		r is Ok ==> r->Ok_0.inv() && r->Ok_0.cfg == self,
		// documented seeds: the average and the delay line (X/2 + 1 prices) start from the source price
		r is Ok ==> self.ma.seeded(src_val(candle, self.source), &r->Ok_0.sma)
			&& r->Ok_0.window.view().len() == self.ma.period_s() / 2 + 1
			&& (forall|i: int| 0 <= i < r->Ok_0.window.view().len() ==> (#[trigger] r->Ok_0.window.view()[i])@ == src_val(candle, self.source)),
		// C08: for an averaging kind that cannot overshoot this is the constant state for the candle's source price (dpo_const_step)
		r is Ok && self.ma.convex_kind() ==> r->Ok_0.const_state(src_val(candle, self.source)),
//@replace Ok(Self::Instance { ==> Ok(DetrendedPriceOscillatorInstance {
//@end
}
pub open spec fn dpo_step<M: MovingAverageConstructor>(pre: &DetrendedPriceOscillatorInstance<M>, src: ValueType, post: &DetrendedPriceOscillatorInstance<M>, dpo: real, ma: ValueType) -> bool {
	// documented: DPO = price from X/2 + 1 periods ago - X-period moving average
	&&& <M::Instance as Method>::step(&pre.sma, &src, &post.sma, &ma)
	&&& post.window.view() == pre.window.view().drop_first().push(src)
	&&& dpo == pre.window.view()[0]@ - ma@
}
impl<M: MovingAverageConstructor> DetrendedPriceOscillatorInstance<M> {
	pub open spec fn inv(&self) -> bool {
		self.sma.inv() && self.window.wf() && self.window.cap() == self.cfg.ma.period_s() as int / 2 + 1
	}
//@extract src/indicators/detrended_price_oscillator.rs impl[IndicatorInstance for DetrendedPriceOscillatorInstance<M>]::next pub
	requires old(self).inv()
	ensures final(self).inv(), final(self).cfg == old(self).cfg,
		r.length == (1u8, 0u8),
		exists|src: ValueType, ma: ValueType| src@ == src_val(candle, old(self).cfg.source)
			&& #[trigger] dpo_step(old(self), src, final(self), r.vals()[0]@, ma),
//@hint before let sma
	proof { self.sma.input_always_ok(&src); }
//@hint result
	proof { assert(dpo_step(old(self), src, self, r.vals()[0]@, sma)); }
//@end
}

// ---- C08 at indicator level (averaging kinds that cannot overshoot): fed the candle it was initialised with, DPO stays 0
impl<M: MovingAverageConstructor> DetrendedPriceOscillatorInstance<M> {
	pub open spec fn const_state(&self, s: real) -> bool {
		&&& self.inv() && self.sma.convex() && self.sma.within(s, s)
		&&& forall|i: int| 0 <= i < self.window.view().len() ==> (#[trigger] self.window.view()[i])@ == s
	}
}
pub proof fn dpo_const_step<M: MovingAverageConstructor>(pre: &DetrendedPriceOscillatorInstance<M>, src: ValueType, post: &DetrendedPriceOscillatorInstance<M>, dpo: real, ma: ValueType)
	requires pre.const_state(src@), post.inv(), post.cfg == pre.cfg, dpo_step(pre, src, post, dpo, ma)
	ensures dpo == 0real, post.const_state(src@)
{
	<M::Instance as MovingAverage>::lemma_within_step(&pre.sma, &src, &post.sma, &ma, src@, src@);
	let v = post.window.view();
	assert forall|i: int| 0 <= i < v.len() implies (#[trigger] v[i])@ == src@ by {
		if i < v.len() - 1 { assert(v[i] == pre.window.view()[i + 1]); }
	}
	assert(pre.window.view()[0]@ == src@);
}
} // verus!
fn main() {}
