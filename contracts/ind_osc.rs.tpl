//@unit ind_osc
//@include head.rs
//@import ohlcv.rs.tpl
//@import indicator_base.rs.tpl
//@include indicator_traits.rs

// ================================================================== DetrendedPriceOscillator
//@extract src/indicators/detrended_price_oscillator.rs struct:DetrendedPriceOscillator
//@end
//@extract src/indicators/detrended_price_oscillator.rs struct:DetrendedPriceOscillatorInstance
//@end
impl<M: MovingAverageConstructor> DetrendedPriceOscillator<M> {
	pub open spec fn valid(&self) -> bool { self.ma.period_s() > 1 && self.ma.period_s() < PeriodType::MAX }
//@extract src/indicators/detrended_price_oscillator.rs impl[IndicatorConfig for DetrendedPriceOscillator<M>]::validate pub
	ensures r == self.valid(),
//@end
//@extract src/indicators/detrended_price_oscillator.rs impl[IndicatorConfig for DetrendedPriceOscillator<M>]::size pub
	ensures r == (1u8, 0u8),
//@end
//@extract src/indicators/detrended_price_oscillator.rs impl[IndicatorConfig for DetrendedPriceOscillator<M>]::init pub
//@sig pub fn init<T: OHLCV>(self, candle: &T) -> (r: Result<DetrendedPriceOscillatorInstance<M>, Error>)
	ensures
		!self.valid() ==> r is Err,
		r is Ok ==> r->Ok_0.inv() && r->Ok_0.cfg == self,
		// documented seeds: the average and the delay line (X/2 + 1 prices) start from the source price
		r is Ok ==> self.ma.seeded(src_val(candle, self.source), &r->Ok_0.sma)
			&& r->Ok_0.window.view().len() == self.ma.period_s() / 2 + 1
			&& (forall|i: int| 0 <= i < r->Ok_0.window.view().len() ==> (#[trigger] r->Ok_0.window.view()[i])@ == src_val(candle, self.source)),
//@replace Ok(Self::Instance { ==> Ok(DetrendedPriceOscillatorInstance {
//@end
}
pub open spec fn dpo_step<M: MovingAverageConstructor>(pre: &DetrendedPriceOscillatorInstance<M>, src: ValueType, post: &DetrendedPriceOscillatorInstance<M>, dpo: real, ma: ValueType) -> bool {
	// documented: DPO = price from X/2 + 1 periods ago - X-period moving average
	&&& <M::Instance as Method>::step(&pre.sma, &src, &post.sma, &ma)
	&&& post.window.view() == pre.window.view().drop_first().push(src)
	&&& dpo == pre.window.view()[0]@ - ma@
}
impl<M: MovingAverageConstructor> DetrendedPriceOscillatorInstance<M> {
	pub open spec fn inv(&self) -> bool {
		self.sma.inv() && self.window.wf() && self.window.cap() == self.cfg.ma.period_s() as int / 2 + 1
	}
//@extract src/indicators/detrended_price_oscillator.rs impl[IndicatorInstance for DetrendedPriceOscillatorInstance<M>]::next pub
	requires old(self).inv()
	ensures final(self).inv(), final(self).cfg == old(self).cfg,
		r.length == (1u8, 0u8),
		exists|src: ValueType, ma: ValueType| src@ == src_val(candle, old(self).cfg.source)
			&& #[trigger] dpo_step(old(self), src, final(self), r.vals()[0]@, ma),
//@hint before let sma
	proof { self.sma.input_always_ok(&src); }
//@hint result
	proof { assert(dpo_step(old(self), src, self, r.vals()[0]@, sma)); }
//@end
}
} // verus!
fn main() {}
