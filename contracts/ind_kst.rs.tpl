//@unit ind_kst
//@include head.rs
//@import ohlcv.rs.tpl
//@import indicator_base.rs.tpl
//@include indicator_traits.rs
//@import simple_window.rs.tpl
//@import candle_methods.rs.tpl

// ================================================================== KnowSureThing
//@extract src/indicators/know_sure_thing.rs struct:KnowSureThing
//@end
//@extract src/indicators/know_sure_thing.rs struct:KnowSureThingInstance
//@end
impl<M: MovingAverageConstructor> KnowSureThing<M> {
	pub open spec fn valid(&self) -> bool {
		&&& self.ma1.similar_s(&self.ma2) && self.ma1.similar_s(&self.ma3) && self.ma1.similar_s(&self.ma4)
		&&& self.period1 < self.period2 && self.period2 < self.period3 && self.period3 < self.period4
	}
//@extract src/indicators/know_sure_thing.rs impl[IndicatorConfig for KnowSureThing<M>]::validate pub
	ensures r == self.valid(),
//@end
//@extract src/indicators/know_sure_thing.rs impl[IndicatorConfig for KnowSureThing<M>]::size pub
	ensures r == (2u8, 1u8),
//@end
//@extract src/indicators/know_sure_thing.rs impl[IndicatorConfig for KnowSureThing<M>]::init pub
//@sig pub fn init<T: OHLCV>(self, candle: &T) -> (r: Result<KnowSureThingInstance<M>, Error>)
	ensures
		!self.valid() ==> r is Err,
		self.period1 == 0 ==> r is Err,
		r is Ok ==> r->Ok_0.inv() && r->Ok_0.cfg == self,
		// documented seeds: four rates of change of the close price over period1..period4, every average from 0
		r is Ok ==> r->Ok_0.roc1v.0.view().len() == self.period1 && r->Ok_0.roc2v.0.view().len() == self.period2
			&& r->Ok_0.roc3v.0.view().len() == self.period3 && r->Ok_0.roc4v.0.view().len() == self.period4,
		r is Ok ==> self.ma1.seeded(0real, &r->Ok_0.ma1) && self.ma2.seeded(0real, &r->Ok_0.ma2) && self.ma3.seeded(0real, &r->Ok_0.ma3)
			&& self.ma4.seeded(0real, &r->Ok_0.ma4) && self.signal.seeded(0real, &r->Ok_0.ma5),
		// C08: for averaging kinds that cannot overshoot and a non-zero close, the constant state for that close (kst_const_step)
		r is Ok && candle.close_s()@ != 0real && self.ma1.convex_kind() && self.ma2.convex_kind() && self.ma3.convex_kind() && self.ma4.convex_kind() && self.signal.convex_kind()
			==> r->Ok_0.const_state(candle.close_s()@),
//@replace Ok(Self::Instance { ==> Ok(KnowSureThingInstance {
//@end
}
pub open spec fn kst_step<M: MovingAverageConstructor>(pre: &KnowSureThingInstance<M>, close: ValueType, post: &KnowSureThingInstance<M>, kst: ValueType, sl: ValueType, sig: Action,
	r1: ValueType, r2: ValueType, r3: ValueType, r4: ValueType, m1: ValueType, m2: ValueType, m3: ValueType, m4: ValueType) -> bool {
	// documented: KST = MA1(ROC1) + 2 MA2(ROC2) + 3 MA3(ROC3) + 4 MA4(ROC4); signal line = MA5(KST); signal: KST crossing its signal line
	&&& RateOfChange::step(&pre.roc1v, &close, &post.roc1v, &r1) && RateOfChange::step(&pre.roc2v, &close, &post.roc2v, &r2)
	&&& RateOfChange::step(&pre.roc3v, &close, &post.roc3v, &r3) && RateOfChange::step(&pre.roc4v, &close, &post.roc4v, &r4)
	&&& <M::Instance as Method>::step(&pre.ma1, &r1, &post.ma1, &m1) && <M::Instance as Method>::step(&pre.ma2, &r2, &post.ma2, &m2)
	&&& <M::Instance as Method>::step(&pre.ma3, &r3, &post.ma3, &m3) && <M::Instance as Method>::step(&pre.ma4, &r4, &post.ma4, &m4)
	&&& kst@ == m1@ + 2real * m2@ + 3real * m3@ + 4real * m4@
	&&& <M::Instance as Method>::step(&pre.ma5, &kst, &post.ma5, &sl)
	&&& Cross::step(&pre.cross, &(kst, sl), &post.cross, &sig)
}
impl<M: MovingAverageConstructor> KnowSureThingInstance<M> {
	pub open spec fn inv(&self) -> bool {
		&&& self.roc1v.inv() && self.roc2v.inv() && self.roc3v.inv() && self.roc4v.inv()
		&&& self.ma1.inv() && self.ma2.inv() && self.ma3.inv() && self.ma4.inv() && self.ma5.inv() && self.cross.inv()
	}
//@extract src/indicators/know_sure_thing.rs impl[IndicatorInstance for KnowSureThingInstance<M>]::next pub
	requires old(self).inv()
	ensures final(self).inv(), final(self).cfg == old(self).cfg,
		r.length == (2u8, 1u8),
		exists|close: ValueType, r1: ValueType, r2: ValueType, r3: ValueType, r4: ValueType, m1: ValueType, m2: ValueType, m3: ValueType, m4: ValueType|
			close == candle.close_s()
			&& #[trigger] kst_step(old(self), close, final(self), r.vals()[0], r.vals()[1], r.sigs()[0], r1, r2, r3, r4, m1, m2, m3, m4),
//@hint before let rcma1
	proof { self.ma1.input_always_ok(&roc1); self.ma2.input_always_ok(&roc2); self.ma3.input_always_ok(&roc3); self.ma4.input_always_ok(&roc4); }
//@hint before let sl
	proof { self.ma5.input_always_ok(&kst); }
//@hint result
	proof { assert(kst_step(old(self), *close, self, r.vals()[0], r.vals()[1], r.sigs()[0], roc1, roc2, roc3, roc4, rcma1, rcma2, rcma3, rcma4)); }
//@end
}

// ================================================================== ChaikinOscillator
//@extract src/indicators/chaikin_oscillator.rs struct:ChaikinOscillator
//@end
//@extract src/indicators/chaikin_oscillator.rs struct:ChaikinOscillatorInstance
//@end
impl<M: MovingAverageConstructor> ChaikinOscillator<M> {
	pub open spec fn valid(&self) -> bool {
		&&& self.ma1.similar_s(&self.ma2)
		&&& self.ma1.period_s() > 0 && self.ma1.period_s() < self.ma2.period_s() && self.ma2.period_s() < PeriodType::MAX
	}
//@extract src/indicators/chaikin_oscillator.rs impl[IndicatorConfig for ChaikinOscillator<M>]::validate pub
	ensures r == self.valid(),
//@end
//@extract src/indicators/chaikin_oscillator.rs impl[IndicatorConfig for ChaikinOscillator<M>]::size pub
	ensures r == (1u8, 1u8),
//@end
//@extract src/indicators/chaikin_oscillator.rs impl[IndicatorConfig for ChaikinOscillator<M>]::init pub
//@sig pub fn init<T: OHLCV>(self, candle: &T) -> (r: Result<ChaikinOscillatorInstance<M>, Error>)
	ensures
		!self.valid() ==> r is Err,
		r is Ok ==> r->Ok_0.inv() && r->Ok_0.cfg == self,
		// documented seeds: the accumulation/distribution index over `window` candles, both averages from its first value
		r is Ok ==> ADI::fresh(self.window, as_dyn_spec(candle), &r->Ok_0.adi)
			&& self.ma1.seeded(r->Ok_0.adi.cmf_sum@, &r->Ok_0.ma1) && self.ma2.seeded(r->Ok_0.adi.cmf_sum@, &r->Ok_0.ma2),
		r is Ok ==> r->Ok_0.cross_over.up.last_delta@ == 0real && r->Ok_0.cross_over.down.last_delta@ == 0real,
//@replace Ok(Self::Instance { ==> Ok(ChaikinOscillatorInstance {
//@replace ADI::new(cfg.window, candle)? ==> ADI::new(cfg.window, as_dyn(candle))?
//@end
}
pub open spec fn chaikin_step<M: MovingAverageConstructor, T: OHLCV>(pre: &ChaikinOscillatorInstance<M>, candle: &T, post: &ChaikinOscillatorInstance<M>, value: ValueType, sig: Action, adi: ValueType, d1: ValueType, d2: ValueType, zero: ValueType) -> bool {
	// documented: fast average of the accumulation/distribution index minus its slow average; signal: crossing zero
	&&& ADI::step(&pre.adi, as_dyn_spec(candle), &post.adi, &adi)
	&&& <M::Instance as Method>::step(&pre.ma1, &adi, &post.ma1, &d1)
	&&& <M::Instance as Method>::step(&pre.ma2, &adi, &post.ma2, &d2)
	&&& value@ == d1@ - d2@
	&&& zero@ == 0real && Cross::step(&pre.cross_over, &(value, zero), &post.cross_over, &sig)
}
impl<M: MovingAverageConstructor> ChaikinOscillatorInstance<M> {
	pub open spec fn inv(&self) -> bool { self.adi.inv() && self.ma1.inv() && self.ma2.inv() && self.cross_over.inv() }
//@extract src/indicators/chaikin_oscillator.rs impl[IndicatorInstance for ChaikinOscillatorInstance<M>]::next pub
	requires old(self).inv()
	ensures final(self).inv(), final(self).cfg == old(self).cfg,
		r.length == (1u8, 1u8),
		exists|adi: ValueType, d1: ValueType, d2: ValueType, zero: ValueType|
			#[trigger] chaikin_step(old(self), candle, final(self), r.vals()[0], r.sigs()[0], adi, d1, d2, zero),
//@replace self.adi.next(candle) ==> self.adi.next(as_dyn(candle))
//@hint before let data1
	proof { self.ma1.input_always_ok(&adi); self.ma2.input_always_ok(&adi); }
//@hint result
	proof { assert(chaikin_step(old(self), candle, self, r.vals()[0], r.sigs()[0], adi, data1, data2, mk(0real))); }
//@end
}

// ---- C08 at indicator level (averaging kinds that cannot overshoot, non-zero close): KnowSureThing on a repeated candle returns 0, 0, no signal
pub open spec fn all_eq(v: Seq<R>, s: real) -> bool { forall|i: int| 0 <= i < v.len() ==> (#[trigger] v[i])@ == s }
impl<M: MovingAverageConstructor> KnowSureThingInstance<M> {
	pub open spec fn const_state(&self, s: real) -> bool {
		&&& self.inv() && s != 0real
		&&& all_eq(self.roc1v.0.view(), s) && all_eq(self.roc2v.0.view(), s) && all_eq(self.roc3v.0.view(), s) && all_eq(self.roc4v.0.view(), s)
		&&& self.ma1.convex() && self.ma2.convex() && self.ma3.convex() && self.ma4.convex() && self.ma5.convex()
		&&& self.ma1.within(0real, 0real) && self.ma2.within(0real, 0real) && self.ma3.within(0real, 0real) && self.ma4.within(0real, 0real) && self.ma5.within(0real, 0real)
		&&& self.cross.up.last_delta@ == 0real
	}
}
pub proof fn lemma_roc_const(pre: &RateOfChange, x: ValueType, post: &RateOfChange, out: ValueType)
	requires pre.inv(), all_eq(pre.0.view(), x@), x@ != 0real, RateOfChange::step(pre, &x, post, &out)
	ensures out@ == 0real, all_eq(post.0.view(), x@)
{
	let v = post.0.view();
	assert forall|i: int| 0 <= i < v.len() implies (#[trigger] v[i])@ == x@ by { if i < v.len() - 1 { assert(v[i] == pre.0.view()[i + 1]); } }
	assert(pre.0.view()[0]@ == x@);
	assert(0real / x@ == 0real) by(nonlinear_arith) requires x@ != 0real;
}
pub proof fn kst_const_step<M: MovingAverageConstructor>(pre: &KnowSureThingInstance<M>, close: ValueType, post: &KnowSureThingInstance<M>, kst: ValueType, sl: ValueType, sig: Action,
	r1: ValueType, r2: ValueType, r3: ValueType, r4: ValueType, m1: ValueType, m2: ValueType, m3: ValueType, m4: ValueType)
	requires pre.const_state(close@), post.inv(), kst_step(pre, close, post, kst, sl, sig, r1, r2, r3, r4, m1, m2, m3, m4)
	ensures kst@ == 0real, sl@ == 0real, sig is None, post.const_state(close@)
{
	lemma_roc_const(&pre.roc1v, close, &post.roc1v, r1); lemma_roc_const(&pre.roc2v, close, &post.roc2v, r2);
	lemma_roc_const(&pre.roc3v, close, &post.roc3v, r3); lemma_roc_const(&pre.roc4v, close, &post.roc4v, r4);
	<M::Instance as MovingAverage>::lemma_within_step(&pre.ma1, &r1, &post.ma1, &m1, 0real, 0real);
	<M::Instance as MovingAverage>::lemma_within_step(&pre.ma2, &r2, &post.ma2, &m2, 0real, 0real);
	<M::Instance as MovingAverage>::lemma_within_step(&pre.ma3, &r3, &post.ma3, &m3, 0real, 0real);
	<M::Instance as MovingAverage>::lemma_within_step(&pre.ma4, &r4, &post.ma4, &m4, 0real, 0real);
	<M::Instance as MovingAverage>::lemma_within_step(&pre.ma5, &kst, &post.ma5, &sl, 0real, 0real);
}
} // verus!
fn main() {}
