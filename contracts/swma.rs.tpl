//@unit swma
//@include head.rs
//@export-begin

// descending weights: Σ (len - j) * s[j] (oldest has weight len, newest weight 1)
pub open spec fn dsum(s: Seq<R>) -> real decreases s.len() {
	if s.len() == 0 { 0real } else { (s.len() as real) * s[0]@ + dsum(s.drop_first()) }
}
pub proof fn lemma_dsum_push(t: Seq<R>, x: R)
	ensures dsum(t.push(x)) == dsum(t) + sum(t) + x@
	decreases t.len()
{
	if t.len() == 0 {
		reveal_with_fuel(dsum, 2);
		assert(t.push(x).drop_first().len() == 0);
		assert(t.push(x)[0] == x);
		assert(1real * x@ == x@) by(nonlinear_arith);
	} else {
		let u = t.drop_first();
		lemma_dsum_push(u, x);
		lemma_sum_tail(t);
		assert(t.push(x).drop_first() =~= u.push(x));
		assert(t.push(x)[0] == t[0]);
		let (n, a) = (t.len() as real, t[0]@);
		assert(t.push(x).len() as real == n + 1real);
		assert((n + 1real) * a == n * a + a) by(nonlinear_arith);
	}
}
pub proof fn lemma_dsum_slide(s: Seq<R>, x: R)
	requires s.len() >= 1
	ensures dsum(s.drop_first().push(x)) == dsum(s) - (s.len() as real) * s[0]@ + sum(s.drop_first().push(x))
{
	let t = s.drop_first();
	lemma_dsum_push(t, x);
	lemma_sum_push(t, x);
}
pub proof fn lemma_dsum_konst(n: nat, v: R)
	ensures dsum(konst(n, v)) == (tri(n as int) as real) * v@
	decreases n
{
	if n == 0 {
		assert(konst(0, v).len() == 0);
		assert(tri(0) == 0);
		assert(0real * v@ == 0real) by(nonlinear_arith);
	} else {
		let m = (n - 1) as nat;
		lemma_dsum_konst(m, v);
		assert(konst(n, v).drop_first() =~= konst(m, v));
		assert(tri(n as int) == tri(m as int) + n);
		let (a, b, x) = (tri(m as int) as real, n as real, v@);
		assert(tri(n as int) as real == a + b);
		assert(b * x + a * x == (a + b) * x) by(nonlinear_arith);
	}
}

//@extract src/methods/swma.rs struct:SWMA
//@end
impl SWMA {
	pub open spec fn l(&self) -> int { self.left_window.cap() }
	pub open spec fn r(&self) -> int { self.right_window.cap() }
	pub open spec fn norm(&self) -> real { (tri(self.l()) + tri(self.r())) as real }
	// documented (triangular weights 1, 2, ..., k, ..., 2, 1 over the last `length` inputs): the older half is weighted ascending, the newer half descending
	pub open spec fn def(left: Seq<R>, right: Seq<R>) -> real {
		(wsum(left) + dsum(right)) / ((tri(left.len() as int) + tri(right.len() as int)) as real)
	}
	pub open spec fn inv(&self) -> bool {
		&&& self.left_window.wf() && self.right_window.wf()
		&&& self.l() >= 1 && (self.l() == self.r() || self.l() == self.r() + 1)
		&&& self.invert_sum@ * self.norm() == 1real
		&&& (self.r() >= 1 ==> {
			&&& self.right_float_length@ == -(self.r() as real) && self.left_float_length@ == self.l() as real
			&&& self.right_total@ == sum(self.right_window.view())
			&&& self.left_total@ == -sum(self.left_window.view())
			&&& self.numerator@ == wsum(self.left_window.view()) + dsum(self.right_window.view())
		})
	}
//@extract src/methods/swma.rs impl[Peekable<<Self as Method>::Output> for SWMA]::peek pub
//@sig pub fn peek(&self) -> (r: ValueType)
	requires self.inv()
	ensures self.r() >= 1 ==> r@ == SWMA::def(self.left_window.view(), self.right_window.view()),
		r@ == self.numerator@ * self.invert_sum@,
//@hint start
	proof {
		lemma_tri(self.l()); lemma_tri(self.r());
		let (a, d, t) = (self.numerator@, self.invert_sum@, self.norm());
		assert(a * d == a / t) by(nonlinear_arith) requires d * t == 1real, t >= 1real;
	}
//@end
}
impl Method for SWMA {
	type Params = PeriodType;
	type Input = ValueType;
	type Output = ValueType;
	open spec fn inv(&self) -> bool { SWMA::inv(self) }
	open spec fn rejects(parameters: PeriodType) -> bool { parameters == 0 }
	open spec fn new_req(parameters: PeriodType, initial_value: &ValueType) -> bool { (parameters as int) <= 0xffff_ffff }
	open spec fn fresh(parameters: PeriodType, initial_value: &ValueType, s: &Self) -> bool {
		&&& s.l() + s.r() == parameters as int
		&&& s.left_window.view() =~= konst(s.l() as nat, *initial_value) && s.right_window.view() =~= konst(s.r() as nat, *initial_value)
	}
	open spec fn input_ok(&self, x: &ValueType) -> bool { true }
	open spec fn step(pre: &Self, x: &ValueType, post: &Self, out: &ValueType) -> bool {
		// the shape never changes
		&&& post.l() == pre.l() && post.r() == pre.r()
		// length 1: the single weight is 1, the output is the input
		&&& (pre.r() == 0 ==> out@ == x@)
		// C09: peek (numerator * invert_sum) returns the value just produced, for every length
		&&& out@ == post.numerator@ * post.invert_sum@
		// otherwise the two halves slide together: the value leaving the newer half enters the older half
		&&& (pre.r() >= 1 ==> post.right_window.view() == pre.right_window.view().drop_first().push(*x)
				&& post.left_window.view() == pre.left_window.view().drop_first().push(pre.right_window.view()[0])
				&& out@ == SWMA::def(post.left_window.view(), post.right_window.view()))
	}
//@extract src/methods/swma.rs impl[Method for SWMA]::new
	ensures (r is Ok) == (length != 0),
//@hint before let sum =
	proof {
		let (l, r) = (left_length as int, right_length as int);
		assert(l + r == length as int && (l == r || l == r + 1) && l >= 1);
		lemma_tri(l); lemma_tri(r);
		assert(left_length2 * (left_length2 + 1) <= 0xffff_ffff * 0x1_0000_0000) by(nonlinear_arith) requires 0 <= left_length2 <= 0xffff_ffff;
		assert(right_length2 * (right_length2 + 1) <= 0xffff_ffff * 0x1_0000_0000) by(nonlinear_arith) requires 0 <= right_length2 <= 0xffff_ffff;
	}
//@hint before Ok(Self
	proof {
		let (l, r) = (left_length as int, right_length as int);
		let t = (tri(l) + tri(r)) as real;
		assert(sum@ == t);
		assert(rdiv(1real, t) * t == 1real) by(nonlinear_arith) requires t >= 1real, rdiv(1real, t) == 1real / t;
		lemma_sum_konst(l as nat, value); lemma_sum_konst(r as nat, value);
		lemma_wsum_konst(l as nat, value); lemma_dsum_konst(r as nat, value);
		let v = value@;
		let (tl, tr, lr, rr) = (tri(l) as real, tri(r) as real, l as real, r as real);
		assert((-v) * lr == -(lr * v) && v * rr == rr * v && v * (tl + tr) == tl * v + tr * v) by(nonlinear_arith);
	}
//@hint result
	proof {
		if r is Ok {
			lemma_cloned_konst(r->Ok_0.left_window.view(), r->Ok_0.l() as nat, value);
			lemma_cloned_konst(r->Ok_0.right_window.view(), r->Ok_0.r() as nat, value);
		}
	}
//@end
//@extract src/methods/swma.rs impl[Method for SWMA]::next
//@hint before return value;
	proof {
		lemma_tri(1);
		assert(tri(0) == 0 && tri(1) == 1);
		let (v, d) = (value@, self.invert_sum@);
		assert(v * d == v) by(nonlinear_arith) requires d * 1real == 1real;
	}
//@hint before self.right_total +=
	proof {
		lemma_dsum_slide(old(self).right_window.view(), value);
		lemma_sum_slide(old(self).right_window.view(), value);
		let (p, n) = (right_prev_value@, self.right_float_length@);
		assert(p * n == -((self.r() as real) * p)) by(nonlinear_arith) requires n == -(self.r() as real);
	}
//@hint before self.numerator += right_value
	proof {
		lemma_wsum_slide(old(self).left_window.view(), right_value);
		lemma_sum_slide(old(self).left_window.view(), right_value);
		let (p, n) = (right_value@, self.left_float_length@);
		assert(p * n == n * p) by(nonlinear_arith);
	}
//@end
}
//@export-end
} // verus!
fn main() {}
