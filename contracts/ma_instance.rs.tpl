//@unit ma_instance
//@include head.rs
//@include sorted_lib.rs
//@include select_lib.rs
use std::cmp::Ordering;
//@import ohlcv.rs.tpl
//@import indicator_base.rs.tpl
//@include indicator_traits.rs
//@import sma.rs.tpl
//@import wma.rs.tpl
//@import compose_ma.rs.tpl
//@import ema.rs.tpl
//@import smm.rs.tpl
//@import swma.rs.tpl
//@import lin_reg.rs.tpl
//@import derived_window.rs.tpl
//@import ma_laws.rs.tpl
//@import ma_dispatch.rs.tpl

// ================================================================== the crate's own constructor satisfies the trait contract the generic indicators are verified against
// (1) every kind is a MovingAverage: it accepts every input; the kinds with non-negative weights cannot overshoot (within/convex)
impl MovingAverage for SMA {
	proof fn input_always_ok(&self, x: &ValueType) {}
	open spec fn convex(&self) -> bool { true }
	open spec fn within(&self, lo: real, hi: real) -> bool { all_within(self.window.view(), lo, hi) && lo <= hi }
	proof fn lemma_within_step(pre: &Self, x: &ValueType, post: &Self, out: &ValueType, lo: real, hi: real) {
		let v = post.window.view();
		assert forall|i: int| 0 <= i < v.len() implies lo <= (#[trigger] v[i])@ <= hi by {
			if i < v.len() - 1 { assert(v[i] == pre.window.view()[i + 1]); }
		}
		sma_range(v, lo, hi);
	}
	proof fn lemma_within_weaken(&self, lo: real, hi: real, lo2: real, hi2: real) {}
}

impl MovingAverage for WMA {
	proof fn input_always_ok(&self, x: &ValueType) {}
	open spec fn convex(&self) -> bool { true }
	open spec fn within(&self, lo: real, hi: real) -> bool { all_within(self.window.view(), lo, hi) && lo <= hi }
	proof fn lemma_within_step(pre: &Self, x: &ValueType, post: &Self, out: &ValueType, lo: real, hi: real) {
		let v = post.window.view();
		assert forall|i: int| 0 <= i < v.len() implies lo <= (#[trigger] v[i])@ <= hi by {
			if i < v.len() - 1 { assert(v[i] == pre.window.view()[i + 1]); }
		}
		wma_range(v, lo, hi);
	}
	proof fn lemma_within_weaken(&self, lo: real, hi: real, lo2: real, hi2: real) {}
}

impl MovingAverage for EMA {
	proof fn input_always_ok(&self, x: &ValueType) {}
	open spec fn convex(&self) -> bool { true }
	open spec fn within(&self, lo: real, hi: real) -> bool { lo <= self.value@ <= hi }
	proof fn lemma_within_step(pre: &Self, x: &ValueType, post: &Self, out: &ValueType, lo: real, hi: real) {
		ema_range_step(*pre, *x, *post, *out, lo, hi);
	}
	proof fn lemma_within_weaken(&self, lo: real, hi: real, lo2: real, hi2: real) {}
}

impl MovingAverage for DMA {
	proof fn input_always_ok(&self, x: &ValueType) {}
	open spec fn convex(&self) -> bool { true }
	open spec fn within(&self, lo: real, hi: real) -> bool { lo <= self.ema.value@ <= hi && lo <= self.dma.value@ <= hi }
	proof fn lemma_within_step(pre: &Self, x: &ValueType, post: &Self, out: &ValueType, lo: real, hi: real) {
		let mid = post.ema.value;
		ema_range_step(pre.ema, *x, post.ema, mid, lo, hi);
		ema_range_step(pre.dma, mid, post.dma, *out, lo, hi);
	}
	proof fn lemma_within_weaken(&self, lo: real, hi: real, lo2: real, hi2: real) {}
}

impl MovingAverage for TMA {
	proof fn input_always_ok(&self, x: &ValueType) {}
	open spec fn convex(&self) -> bool { true }
	open spec fn within(&self, lo: real, hi: real) -> bool { lo <= self.dma.ema.value@ <= hi && lo <= self.dma.dma.value@ <= hi && lo <= self.tma.value@ <= hi }
	proof fn lemma_within_step(pre: &Self, x: &ValueType, post: &Self, out: &ValueType, lo: real, hi: real) {
		let m1 = post.dma.ema.value;
		let m2 = post.dma.dma.value;
		ema_range_step(pre.dma.ema, *x, post.dma.ema, m1, lo, hi);
		ema_range_step(pre.dma.dma, m1, post.dma.dma, m2, lo, hi);
		ema_range_step(pre.tma, m2, post.tma, *out, lo, hi);
	}
	proof fn lemma_within_weaken(&self, lo: real, hi: real, lo2: real, hi2: real) {}
}

impl MovingAverage for WSMA {
	proof fn input_always_ok(&self, x: &ValueType) {}
	open spec fn convex(&self) -> bool { true }
	open spec fn within(&self, lo: real, hi: real) -> bool { lo <= self.0.value@ <= hi }
	proof fn lemma_within_step(pre: &Self, x: &ValueType, post: &Self, out: &ValueType, lo: real, hi: real) {
		ema_range_step(pre.0, *x, post.0, *out, lo, hi);
	}
	proof fn lemma_within_weaken(&self, lo: real, hi: real, lo2: real, hi2: real) {}
}

impl MovingAverage for RMA {
	proof fn input_always_ok(&self, x: &ValueType) {}
	open spec fn convex(&self) -> bool { true }
	open spec fn within(&self, lo: real, hi: real) -> bool { lo <= self.prev_value@ <= hi }
	proof fn lemma_within_step(pre: &Self, x: &ValueType, post: &Self, out: &ValueType, lo: real, hi: real) {
		let (a, p, xx) = (pre.alpha@, pre.prev_value@, x@);
		assert(lo <= a * xx + (1real - a) * p <= hi) by(nonlinear_arith) requires 0real < a <= 1real, lo <= p <= hi, lo <= xx <= hi;
	}
	proof fn lemma_within_weaken(&self, lo: real, hi: real, lo2: real, hi2: real) {}
}

impl MovingAverage for TRIMA {
	proof fn input_always_ok(&self, x: &ValueType) {}
	open spec fn convex(&self) -> bool { true }
	open spec fn within(&self, lo: real, hi: real) -> bool { all_within(self.sma1.window.view(), lo, hi) && all_within(self.sma2.window.view(), lo, hi) && lo <= hi }
	proof fn lemma_within_step(pre: &Self, x: &ValueType, post: &Self, out: &ValueType, lo: real, hi: real) {
		let v1 = post.sma1.window.view();
		assert forall|i: int| 0 <= i < v1.len() implies lo <= (#[trigger] v1[i])@ <= hi by {
			if i < v1.len() - 1 { assert(v1[i] == pre.sma1.window.view()[i + 1]); }
		}
		sma_range(v1, lo, hi);
		let v2 = post.sma2.window.view();
		assert forall|i: int| 0 <= i < v2.len() implies lo <= (#[trigger] v2[i])@ <= hi by {
			if i < v2.len() - 1 { assert(v2[i] == pre.sma2.window.view()[i + 1]); }
		}
		sma_range(v2, lo, hi);
	}
	proof fn lemma_within_weaken(&self, lo: real, hi: real, lo2: real, hi2: real) {}
}

impl MovingAverage for SMM {
	proof fn input_always_ok(&self, x: &ValueType) {}
	open spec fn convex(&self) -> bool { true }
	open spec fn within(&self, lo: real, hi: real) -> bool { all_within(self.window.view(), lo, hi) && lo <= hi }
	proof fn lemma_within_step(pre: &Self, x: &ValueType, post: &Self, out: &ValueType, lo: real, hi: real) {
		let v = post.window.view();
		assert forall|i: int| 0 <= i < v.len() implies lo <= (#[trigger] v[i])@ <= hi by {
			if i < v.len() - 1 { assert(v[i] == pre.window.view()[i + 1]); }
		}
		smm_range(v, out@, lo, hi);
	}
	proof fn lemma_within_weaken(&self, lo: real, hi: real, lo2: real, hi2: real) {}
}

impl MovingAverage for Vidya {
	proof fn input_always_ok(&self, x: &ValueType) {}
	open spec fn convex(&self) -> bool { true }
	open spec fn within(&self, lo: real, hi: real) -> bool { lo <= self.last_output@ <= hi }
	proof fn lemma_within_step(pre: &Self, x: &ValueType, post: &Self, out: &ValueType, lo: real, hi: real) {
		let up = fsum(post.window.view(), pos_fn());
		let dn = fsum(post.window.view(), neg_fn());
		if up + dn != 0real {
			let k = pre.f@ * rabs((up - dn) / (up + dn));
			let (p, xx) = (pre.last_output@, x@);
			assert(lo <= xx * k + (1real - k) * p <= hi) by(nonlinear_arith) requires 0real <= k <= 1real, lo <= p <= hi, lo <= xx <= hi;
		}
	}
	proof fn lemma_within_weaken(&self, lo: real, hi: real, lo2: real, hi2: real) {}
}

// HMA can overshoot its inputs: no range fact is claimed for it
impl MovingAverage for HMA {
	proof fn input_always_ok(&self, x: &ValueType) {}
	open spec fn convex(&self) -> bool { false }
	open spec fn within(&self, lo: real, hi: real) -> bool { true }
	proof fn lemma_within_step(pre: &Self, x: &ValueType, post: &Self, out: &ValueType, lo: real, hi: real) {}
	proof fn lemma_within_weaken(&self, lo: real, hi: real, lo2: real, hi2: real) {}
}

// DEMA can overshoot its inputs: no range fact is claimed for it
impl MovingAverage for DEMA {
	proof fn input_always_ok(&self, x: &ValueType) {}
	open spec fn convex(&self) -> bool { false }
	open spec fn within(&self, lo: real, hi: real) -> bool { true }
	proof fn lemma_within_step(pre: &Self, x: &ValueType, post: &Self, out: &ValueType, lo: real, hi: real) {}
	proof fn lemma_within_weaken(&self, lo: real, hi: real, lo2: real, hi2: real) {}
}

// TEMA can overshoot its inputs: no range fact is claimed for it
impl MovingAverage for TEMA {
	proof fn input_always_ok(&self, x: &ValueType) {}
	open spec fn convex(&self) -> bool { false }
	open spec fn within(&self, lo: real, hi: real) -> bool { true }
	proof fn lemma_within_step(pre: &Self, x: &ValueType, post: &Self, out: &ValueType, lo: real, hi: real) {}
	proof fn lemma_within_weaken(&self, lo: real, hi: real, lo2: real, hi2: real) {}
}

// SWMA: triangular (non-negative) weights over the two half windows
pub proof fn lemma_dsum_bounds(s: Seq<R>, lo: real, hi: real)
	requires all_within(s, lo, hi)
	ensures (tri(s.len() as int) as real) * lo <= dsum(s) <= (tri(s.len() as int) as real) * hi
	decreases s.len()
{
	if s.len() == 0 {
		assert(0real * lo == 0real && 0real * hi == 0real) by(nonlinear_arith);
	} else {
		let u = s.drop_first();
		assert forall|i: int| 0 <= i < u.len() implies lo <= (#[trigger] u[i])@ <= hi by { assert(u[i] == s[i + 1]); }
		lemma_dsum_bounds(u, lo, hi);
		let n = s.len() as int;
		let (t1, t, nr, x) = (tri(n - 1) as real, tri(n) as real, n as real, s[0]@);
		assert(t == t1 + nr);
		assert(t1 * lo + nr * lo == t * lo && t1 * hi + nr * hi == t * hi) by(nonlinear_arith) requires t == t1 + nr;
		assert(nr * lo <= nr * x && nr * x <= nr * hi) by(nonlinear_arith) requires nr >= 1real, lo <= x, x <= hi;
	}
}
impl MovingAverage for SWMA {
	proof fn input_always_ok(&self, x: &ValueType) {}
	open spec fn convex(&self) -> bool { true }
	open spec fn within(&self, lo: real, hi: real) -> bool { (self.r() >= 1 ==> all_within(self.left_window.view(), lo, hi) && all_within(self.right_window.view(), lo, hi)) && lo <= hi }
	proof fn lemma_within_step(pre: &Self, x: &ValueType, post: &Self, out: &ValueType, lo: real, hi: real) {
		if pre.r() >= 1 {
			let (l, r) = (post.left_window.view(), post.right_window.view());
			assert forall|i: int| 0 <= i < r.len() implies lo <= (#[trigger] r[i])@ <= hi by {
				if i < r.len() - 1 { assert(r[i] == pre.right_window.view()[i + 1]); }
			}
			assert forall|i: int| 0 <= i < l.len() implies lo <= (#[trigger] l[i])@ <= hi by {
				if i < l.len() - 1 { assert(l[i] == pre.left_window.view()[i + 1]); } else { assert(l[i] == pre.right_window.view()[0]); }
			}
			lemma_wsum_bounds(l, lo, hi);
			lemma_dsum_bounds(r, lo, hi);
			lemma_tri(l.len() as int); lemma_tri(r.len() as int);
			let (t1, t2, a, b) = (tri(l.len() as int) as real, tri(r.len() as int) as real, wsum(l), dsum(r));
			assert(lo <= (a + b) / (t1 + t2) <= hi) by(nonlinear_arith)
				requires t1 * lo <= a <= t1 * hi, t2 * lo <= b <= t2 * hi, t1 >= 1real, t2 >= 1real;
		}
	}
	proof fn lemma_within_weaken(&self, lo: real, hi: real, lo2: real, hi2: real) {}
}
// LinReg can overshoot its inputs: no range fact is claimed for it
impl MovingAverage for LinReg {
	proof fn input_always_ok(&self, x: &ValueType) {}
	open spec fn convex(&self) -> bool { false }
	open spec fn within(&self, lo: real, hi: real) -> bool { true }
	proof fn lemma_within_step(pre: &Self, x: &ValueType, post: &Self, out: &ValueType, lo: real, hi: real) {}
	proof fn lemma_within_weaken(&self, lo: real, hi: real, lo2: real, hi2: real) {}
}

// (2) the dispatch enum is a Method and a MovingAverage, kind by kind
impl Method for MAInstance {
	type Params = std::convert::Infallible;
	type Input = ValueType;
	type Output = ValueType;
	open spec fn inv(&self) -> bool { MAInstance::inv(self) }
	open spec fn rejects(parameters: std::convert::Infallible) -> bool { true }
	open spec fn new_req(parameters: std::convert::Infallible, initial_value: &ValueType) -> bool { true }
	open spec fn fresh(parameters: std::convert::Infallible, initial_value: &ValueType, s: &Self) -> bool { false }
	open spec fn input_ok(&self, x: &ValueType) -> bool { MAInstance::input_ok(self, x) }
	open spec fn step(pre: &Self, x: &ValueType, post: &Self, out: &ValueType) -> bool { MAInstance::step(pre, x, post, out) }
	// `MAInstance` cannot be constructed directly
//@extract src/helpers/methods.rs impl[Method for MAInstance]::new
//@replace Err(Error::Other("`MAInstance` cannot be constructed directly. You should use `MA::init` to instantiate it.".into())) ==> Err(Error::Other(String::new()))
//@end
	fn next(&mut self, value: &ValueType) -> (r: ValueType) { MAInstance::next(self, value) }
}
impl MovingAverage for MAInstance {
	proof fn input_always_ok(&self, x: &ValueType) {}
	open spec fn convex(&self) -> bool {
		match *self {
			MAInstance::SMA(i) => i.convex(),
			MAInstance::WMA(i) => i.convex(),
			MAInstance::HMA(i) => i.convex(),
			MAInstance::RMA(i) => i.convex(),
			MAInstance::EMA(i) => i.convex(),
			MAInstance::DMA(i) => i.convex(),
			MAInstance::DEMA(i) => i.convex(),
			MAInstance::TMA(i) => i.convex(),
			MAInstance::TEMA(i) => i.convex(),
			MAInstance::WSMA(i) => i.convex(),
			MAInstance::SMM(i) => i.convex(),
			MAInstance::SWMA(i) => i.convex(),
			MAInstance::TRIMA(i) => i.convex(),
			MAInstance::LinReg(i) => i.convex(),
			MAInstance::Vidya(i) => i.convex(),
		}
	}
	open spec fn within(&self, lo: real, hi: real) -> bool {
		match *self {
			MAInstance::SMA(i) => i.within(lo, hi),
			MAInstance::WMA(i) => i.within(lo, hi),
			MAInstance::HMA(i) => i.within(lo, hi),
			MAInstance::RMA(i) => i.within(lo, hi),
			MAInstance::EMA(i) => i.within(lo, hi),
			MAInstance::DMA(i) => i.within(lo, hi),
			MAInstance::DEMA(i) => i.within(lo, hi),
			MAInstance::TMA(i) => i.within(lo, hi),
			MAInstance::TEMA(i) => i.within(lo, hi),
			MAInstance::WSMA(i) => i.within(lo, hi),
			MAInstance::SMM(i) => i.within(lo, hi),
			MAInstance::SWMA(i) => i.within(lo, hi),
			MAInstance::TRIMA(i) => i.within(lo, hi),
			MAInstance::LinReg(i) => i.within(lo, hi),
			MAInstance::Vidya(i) => i.within(lo, hi),
		}
	}
	proof fn lemma_within_step(pre: &Self, x: &ValueType, post: &Self, out: &ValueType, lo: real, hi: real) {
		match (pre, post) {
			(MAInstance::SMA(a), MAInstance::SMA(b)) => { <SMA as MovingAverage>::lemma_within_step(a, x, b, out, lo, hi); }
			(MAInstance::WMA(a), MAInstance::WMA(b)) => { <WMA as MovingAverage>::lemma_within_step(a, x, b, out, lo, hi); }
			(MAInstance::HMA(a), MAInstance::HMA(b)) => { <HMA as MovingAverage>::lemma_within_step(a, x, b, out, lo, hi); }
			(MAInstance::RMA(a), MAInstance::RMA(b)) => { <RMA as MovingAverage>::lemma_within_step(a, x, b, out, lo, hi); }
			(MAInstance::EMA(a), MAInstance::EMA(b)) => { <EMA as MovingAverage>::lemma_within_step(a, x, b, out, lo, hi); }
			(MAInstance::DMA(a), MAInstance::DMA(b)) => { <DMA as MovingAverage>::lemma_within_step(a, x, b, out, lo, hi); }
			(MAInstance::DEMA(a), MAInstance::DEMA(b)) => { <DEMA as MovingAverage>::lemma_within_step(a, x, b, out, lo, hi); }
			(MAInstance::TMA(a), MAInstance::TMA(b)) => { <TMA as MovingAverage>::lemma_within_step(a, x, b, out, lo, hi); }
			(MAInstance::TEMA(a), MAInstance::TEMA(b)) => { <TEMA as MovingAverage>::lemma_within_step(a, x, b, out, lo, hi); }
			(MAInstance::WSMA(a), MAInstance::WSMA(b)) => { <WSMA as MovingAverage>::lemma_within_step(a, x, b, out, lo, hi); }
			(MAInstance::SMM(a), MAInstance::SMM(b)) => { <SMM as MovingAverage>::lemma_within_step(a, x, b, out, lo, hi); }
			(MAInstance::SWMA(a), MAInstance::SWMA(b)) => { <SWMA as MovingAverage>::lemma_within_step(a, x, b, out, lo, hi); }
			(MAInstance::TRIMA(a), MAInstance::TRIMA(b)) => { <TRIMA as MovingAverage>::lemma_within_step(a, x, b, out, lo, hi); }
			(MAInstance::LinReg(a), MAInstance::LinReg(b)) => { <LinReg as MovingAverage>::lemma_within_step(a, x, b, out, lo, hi); }
			(MAInstance::Vidya(a), MAInstance::Vidya(b)) => { <Vidya as MovingAverage>::lemma_within_step(a, x, b, out, lo, hi); }
			_ => {}
		}
	}
	proof fn lemma_within_weaken(&self, lo: real, hi: real, lo2: real, hi2: real) {
		match *self {
			MAInstance::SMA(i) => { i.lemma_within_weaken(lo, hi, lo2, hi2); }
			MAInstance::WMA(i) => { i.lemma_within_weaken(lo, hi, lo2, hi2); }
			MAInstance::HMA(i) => { i.lemma_within_weaken(lo, hi, lo2, hi2); }
			MAInstance::RMA(i) => { i.lemma_within_weaken(lo, hi, lo2, hi2); }
			MAInstance::EMA(i) => { i.lemma_within_weaken(lo, hi, lo2, hi2); }
			MAInstance::DMA(i) => { i.lemma_within_weaken(lo, hi, lo2, hi2); }
			MAInstance::DEMA(i) => { i.lemma_within_weaken(lo, hi, lo2, hi2); }
			MAInstance::TMA(i) => { i.lemma_within_weaken(lo, hi, lo2, hi2); }
			MAInstance::TEMA(i) => { i.lemma_within_weaken(lo, hi, lo2, hi2); }
			MAInstance::WSMA(i) => { i.lemma_within_weaken(lo, hi, lo2, hi2); }
			MAInstance::SMM(i) => { i.lemma_within_weaken(lo, hi, lo2, hi2); }
			MAInstance::SWMA(i) => { i.lemma_within_weaken(lo, hi, lo2, hi2); }
			MAInstance::TRIMA(i) => { i.lemma_within_weaken(lo, hi, lo2, hi2); }
			MAInstance::LinReg(i) => { i.lemma_within_weaken(lo, hi, lo2, hi2); }
			MAInstance::Vidya(i) => { i.lemma_within_weaken(lo, hi, lo2, hi2); }
		}
	}
}
// (3) MA is a MovingAverageConstructor
pub open spec fn ma_convex_kind(c: MA) -> bool {
	match c { MA::SMA(_) => true, MA::WMA(_) => true, MA::HMA(_) => false, MA::RMA(_) => true, MA::EMA(_) => true, MA::DMA(_) => true, MA::DEMA(_) => false, MA::TMA(_) => true, MA::TEMA(_) => false, MA::WSMA(_) => true, MA::SMM(_) => true, MA::SWMA(_) => true, MA::TRIMA(_) => true, MA::LinReg(_) => false, MA::Vidya(_) => true, }
}
impl MovingAverageConstructor for MA {
	type Instance = MAInstance;
	open spec fn period_s(&self) -> PeriodType { MA::period_s(self) }
	open spec fn seeded(&self, v: real, inst: &MAInstance) -> bool { exists|x: ValueType| x@ == v && #[trigger] ma_seeded(*self, &x, inst) }
	open spec fn convex_kind(&self) -> bool { ma_convex_kind(*self) }
	open spec fn similar_s(&self, other: &MA) -> bool { same_kind(*self, *other) }
	fn init(&self, initial_value: ValueType) -> (r: Result<MAInstance, Error>) {
		let r = MA::init(self, initial_value);
		proof {
			if r is Ok {
				assert(ma_seeded(*self, &initial_value, &r->Ok_0));
				lemma_fresh_within(*self, initial_value, r->Ok_0);
			}
		}
		r
	}
	fn ma_period(&self) -> (r: PeriodType) { MA::ma_period(self) }
	fn is_similar_to(&self, other: &MA) -> (r: bool) {
		let (a, b) = (MA::ma_type(self), MA::ma_type(other));
		proof { lemma_tag_kind(*self, *other); }
		a == b
	}
}
// a freshly built instance holds only the seed value, and is of the configured kind
pub proof fn lemma_fresh_within(c: MA, v: ValueType, inst: MAInstance)
	requires ma_seeded(c, &v, &inst)
	ensures inst.within(v@, v@), inst.convex() == ma_convex_kind(c)
{
}
} // verus!
fn main() {}
