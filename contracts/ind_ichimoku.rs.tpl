//@unit ind_ichimoku
//@include head.rs
//@import ohlcv.rs.tpl
//@import indicator_base.rs.tpl
//@include indicator_traits.rs
//@include select_lib.rs
//@import highest_lowest.rs.tpl

// Action's hand-written equality (core/action.rs): equal signed strength, the three spellings of "nothing" coincide
pub open spec fn action_eq(a: Action, b: Action) -> bool { sv(a) == sv(b) && ((a is None) == (b is None) || sv(a) == 0) }
impl PartialEqSpecImpl for Action {
	open spec fn obeys_eq_spec() -> bool { false }
	open spec fn eq_spec(&self, other: &Action) -> bool { arbitrary() }
}
impl PartialEq for Action {
//@extract src/core/action.rs impl[PartialEq for Action]::eq
	ensures r == (match (*self, *other) {
		(Action::None, Action::None) => true,
		(Action::Buy(a), Action::Buy(b)) => a == b,
		(Action::Sell(a), Action::Sell(b)) => a == b,
		(Action::Buy(a), Action::Sell(b)) => a == 0 && b == 0,
		(Action::Sell(a), Action::Buy(b)) => a == 0 && b == 0,
		_ => false,
	}),
//@end
}

// ================================================================== IchimokuCloud
//@extract src/indicators/ichimoku_cloud.rs struct:IchimokuCloud
//@end
//@extract src/indicators/ichimoku_cloud.rs struct:IchimokuCloudInstance
//@end
impl IchimokuCloud {
	pub open spec fn valid(&self) -> bool { self.l1 < self.l2 && self.l2 < self.l3 && self.m > 0 && self.m < PeriodType::MAX }
//@extract src/indicators/ichimoku_cloud.rs impl[IndicatorConfig for IchimokuCloud]::validate pub
	ensures r == self.valid(),
//@end
//@extract src/indicators/ichimoku_cloud.rs impl[IndicatorConfig for IchimokuCloud]::size pub
	ensures r == (4u8, 2u8),
//@end
//@extract src/indicators/ichimoku_cloud.rs impl[IndicatorConfig for IchimokuCloud]::init pub
//@sig pub fn init<T: OHLCV>(self, candle: &T) -> (r: Result<IchimokuCloudInstance, Error>)
	ensures
		!self.valid() ==> r is Err,
		self.l1 == 0 ==> r is Err,
		r is Ok ==> r->Ok_0.inv() && r->Ok_0.cfg == self,
		// documented seeds: highs/lows over l1, l2, l3 candles; both spans delayed by m candles, starting from (high + low) / 2
		r is Ok ==> r->Ok_0.highest1.window.view().len() == self.l1 && r->Ok_0.highest2.window.view().len() == self.l2 && r->Ok_0.highest3.window.view().len() == self.l3
			&& r->Ok_0.lowest1.window.view().len() == self.l1 && r->Ok_0.lowest2.window.view().len() == self.l2 && r->Ok_0.lowest3.window.view().len() == self.l3,
		r is Ok ==> r->Ok_0.window1.view().len() == self.m && r->Ok_0.window2.view().len() == self.m,
		// C08: the constant state for this candle (ichimoku_const_step)
		r is Ok ==> r->Ok_0.const_state(candle),
//@replace Ok(Self::Instance { ==> Ok(IchimokuCloudInstance {
//@end
}
pub open spec fn ichimoku_values<T: OHLCV>(pre: &IchimokuCloudInstance, candle: &T, post: &IchimokuCloudInstance, tenkan: ValueType, kijun: ValueType, span_a: ValueType, span_b: ValueType,
	h1: ValueType, l1: ValueType, h2: ValueType, l2: ValueType, h3: ValueType, l3: ValueType) -> bool {
	let (high, low) = (candle.high_s(), candle.low_s());
	// documented (Wikipedia): Tenkan = (highest high + lowest low) / 2 over l1 candles, Kijun over l2;
	// Senkou A = (Tenkan + Kijun) / 2 and Senkou B = (highest high + lowest low) / 2 over l3, both plotted m candles ahead
	&&& Highest::step(&pre.highest1, &high, &post.highest1, &h1) && Lowest::step(&pre.lowest1, &low, &post.lowest1, &l1)
	&&& Highest::step(&pre.highest2, &high, &post.highest2, &h2) && Lowest::step(&pre.lowest2, &low, &post.lowest2, &l2)
	&&& Highest::step(&pre.highest3, &high, &post.highest3, &h3) && Lowest::step(&pre.lowest3, &low, &post.lowest3, &l3)
	&&& tenkan@ == (h1@ + l1@) * 0.5real && kijun@ == (h2@ + l2@) * 0.5real
	&&& span_a == pre.window1.view()[0] && span_b == pre.window2.view()[0]
	&&& post.window1.view().len() == pre.window1.view().len() && post.window1.view().drop_last() =~= pre.window1.view().drop_first()
		&& post.window1.view().last()@ == (tenkan@ + kijun@) * 0.5real
	&&& post.window2.view().len() == pre.window2.view().len() && post.window2.view().drop_last() =~= pre.window2.view().drop_first()
		&& post.window2.view().last()@ == (h3@ + l3@) * 0.5real
}
pub open spec fn ichimoku_signals(pre: &IchimokuCloudInstance, src: ValueType, post: &IchimokuCloudInstance, tenkan: ValueType, kijun: ValueType, a: ValueType, b: ValueType, s1: Action, s2: Action, c1: Action, c2: Action) -> bool {
	let above = src@ > a@ && src@ > b@ && a@ > b@;
	let below = src@ < a@ && src@ < b@ && a@ < b@;
	// documented signal 1: Tenkan crossing Kijun upwards above a green cloud: full buy; downwards below a red cloud: full sell
	&&& Cross::step(&pre.cross1, &(tenkan, kijun), &post.cross1, &c1)
	&&& s1 == Action::of_i8((if above && sv(c1) > 0 { 1int } else { 0int }) - (if below && sv(c1) < 0 { 1int } else { 0int }))
	// documented signal 2: the source crossing Kijun under the same conditions
	&&& Cross::step(&pre.cross2, &(src, kijun), &post.cross2, &c2)
	&&& s2 == Action::of_i8((if above && sv(c2) > 0 { 1int } else { 0int }) - (if below && sv(c2) < 0 { 1int } else { 0int }))
}
impl IchimokuCloudInstance {
	pub open spec fn inv(&self) -> bool {
		&&& self.highest1.inv() && self.highest2.inv() && self.highest3.inv() && self.lowest1.inv() && self.lowest2.inv() && self.lowest3.inv()
		&&& self.window1.wf() && self.window1.cap() >= 1 && self.window2.wf() && self.window2.cap() >= 1 && self.cross1.inv() && self.cross2.inv()
	}
//@extract src/indicators/ichimoku_cloud.rs impl[IndicatorInstance for IchimokuCloudInstance]::next pub into=action
	requires old(self).inv()
	ensures final(self).inv(), final(self).cfg == old(self).cfg,
		r.length == (4u8, 2u8),
		exists|h1: ValueType, l1: ValueType, h2: ValueType, l2: ValueType, h3: ValueType, l3: ValueType|
			#[trigger] ichimoku_values(old(self), candle, final(self), r.vals()[0], r.vals()[1], r.vals()[2], r.vals()[3], h1, l1, h2, l2, h3, l3),
		exists|src: ValueType, c1: Action, c2: Action| src@ == src_val(candle, old(self).cfg.source)
			&& #[trigger] ichimoku_signals(old(self), src, final(self), r.vals()[0], r.vals()[1], r.vals()[2], r.vals()[3], r.sigs()[0], r.sigs()[1], c1, c2),
//@hint result
	proof {
		assert(ichimoku_values(old(self), candle, self, r.vals()[0], r.vals()[1], r.vals()[2], r.vals()[3], highest1, lowest1, highest2, lowest2, highest3, lowest3));
		assert(ichimoku_signals(old(self), src, self, r.vals()[0], r.vals()[1], r.vals()[2], r.vals()[3], r.sigs()[0], r.sigs()[1], s1_cross, s2_cross));
	}
//@end
}

// ---- C08 at indicator level: IchimokuCloud on a repeated candle: all four lines equal (high + low) / 2, no signals
pub open spec fn all_eq(v: Seq<R>, s: real) -> bool { forall|i: int| 0 <= i < v.len() ==> (#[trigger] v[i])@ == s }
impl IchimokuCloudInstance {
	pub open spec fn const_state<T: OHLCV>(&self, c: &T) -> bool {
		let (h, l, m) = (c.high_s()@, c.low_s()@, (c.high_s()@ + c.low_s()@) / 2real);
		&&& self.inv()
		&&& all_eq(self.highest1.window.view(), h) && all_eq(self.highest2.window.view(), h) && all_eq(self.highest3.window.view(), h)
		&&& all_eq(self.lowest1.window.view(), l) && all_eq(self.lowest2.window.view(), l) && all_eq(self.lowest3.window.view(), l)
		&&& all_eq(self.window1.view(), m) && all_eq(self.window2.view(), m)
		&&& self.cross1.up.last_delta@ == 0real
		&&& (self.cross2.up.last_delta@ == 0real || self.cross2.up.last_delta@ == src_val(c, self.cfg.source) - m)
	}
}
pub proof fn lemma_shift_all_eq(pre: Seq<R>, post: Seq<R>, x: real, s: real)
	requires all_eq(pre, s), post.len() == pre.len(), post.len() >= 1, post.drop_last() =~= pre.drop_first(), post.last()@ == x, x == s
	ensures all_eq(post, s)
{
	assert forall|i: int| 0 <= i < post.len() implies (#[trigger] post[i])@ == s by {
		if i < post.len() - 1 { assert(post[i] == post.drop_last()[i] && post.drop_last()[i] == pre.drop_first()[i] && pre.drop_first()[i] == pre[i + 1]); }
		else { assert(post[i] == post.last()); }
	}
}
pub proof fn ichimoku_const_step<T: OHLCV>(pre: &IchimokuCloudInstance, c: &T, src: ValueType, post: &IchimokuCloudInstance, tenkan: ValueType, kijun: ValueType, span_a: ValueType, span_b: ValueType,
	h1: ValueType, l1: ValueType, h2: ValueType, l2: ValueType, h3: ValueType, l3: ValueType, s1: Action, s2: Action, c1: Action, c2: Action)
	requires pre.const_state(c), post.inv(), post.cfg == pre.cfg, src@ == src_val(c, pre.cfg.source),
		ichimoku_values(pre, c, post, tenkan, kijun, span_a, span_b, h1, l1, h2, l2, h3, l3),
		ichimoku_signals(pre, src, post, tenkan, kijun, span_a, span_b, s1, s2, c1, c2)
	ensures tenkan@ == (c.high_s()@ + c.low_s()@) / 2real, kijun@ == tenkan@, span_a@ == tenkan@, span_b@ == tenkan@, s1 is None, s2 is None, post.const_state(c)
{
	let (h, l) = (c.high_s()@, c.low_s()@);
	let m = (h + l) / 2real;
	let hv = c.high_s(); let lv = c.low_s();
	lemma_shift_all_eq(pre.highest1.window.view(), post.highest1.window.view(), h, h);
	lemma_shift_all_eq(pre.highest2.window.view(), post.highest2.window.view(), h, h);
	lemma_shift_all_eq(pre.highest3.window.view(), post.highest3.window.view(), h, h);
	lemma_shift_all_eq(pre.lowest1.window.view(), post.lowest1.window.view(), l, l);
	lemma_shift_all_eq(pre.lowest2.window.view(), post.lowest2.window.view(), l, l);
	lemma_shift_all_eq(pre.lowest3.window.view(), post.lowest3.window.view(), l, l);
	assert(h1@ == h && h2@ == h && h3@ == h && l1@ == l && l2@ == l && l3@ == l);
	assert(pre.window1.view()[0]@ == m && pre.window2.view()[0]@ == m);
	lemma_shift_all_eq(pre.window1.view(), post.window1.view(), (tenkan@ + kijun@) * 0.5real, m);
	lemma_shift_all_eq(pre.window2.view(), post.window2.view(), (h3@ + l3@) * 0.5real, m);
}
} // verus!
fn main() {}
