//@unit ind_kvo
//@include head.rs
//@import ohlcv.rs.tpl
//@import indicator_base.rs.tpl
//@include indicator_traits.rs
//@import sma.rs.tpl
//@import mean_abs_dev.rs.tpl

// ---- helpers::{signi, sign}
//@extract src/helpers/mod.rs fn:signi pub
	ensures r as int == (if value@ > 0real { 1int } else if value@ < 0real { -1int } else { 0int }),
//@end
//@extract src/helpers/mod.rs fn:sign pub
	ensures r@ == (if value@ > 0real { 1real } else if value@ < 0real { -1real } else { 0real }),
//@end

// ================================================================== KlingerVolumeOscillator
//@extract src/indicators/klinger_volume_oscillator.rs struct:KlingerVolumeOscillator
//@end
//@extract src/indicators/klinger_volume_oscillator.rs struct:KlingerVolumeOscillatorInstance
//@end
impl<M: MovingAverageConstructor> KlingerVolumeOscillator<M> {
	pub open spec fn valid(&self) -> bool {
		self.ma1.similar_s(&self.ma2) && self.ma1.period_s() > 1 && self.signal.period_s() > 1 && self.ma1.period_s() < self.ma2.period_s()
	}
//@extract src/indicators/klinger_volume_oscillator.rs impl[IndicatorConfig for KlingerVolumeOscillator<M>]::validate pub
	ensures r == self.valid(),
//@end
//@extract src/indicators/klinger_volume_oscillator.rs impl[IndicatorConfig for KlingerVolumeOscillator<M>]::size pub
	ensures r == (2u8, 2u8),
//@end
//@extract src/indicators/klinger_volume_oscillator.rs impl[IndicatorConfig for KlingerVolumeOscillator<M>]::init pub
//@sig pub fn init<T: OHLCV>(self, candle: &T) -> (r: Result<KlingerVolumeOscillatorInstance<M>, Error>)
	ensures
		!self.valid() ==> r is Err,
		r is Ok ==> r->Ok_0.inv() && r->Ok_0.cfg == self,
		// documented seeds: all three averages from 0, the previous typical price is the first candle's
		r is Ok ==> self.ma1.seeded(0real, &r->Ok_0.ma1) && self.ma2.seeded(0real, &r->Ok_0.ma2) && self.signal.seeded(0real, &r->Ok_0.ma3),
		r is Ok ==> r->Ok_0.last_tp@ == (candle.high_s()@ + candle.low_s()@ + candle.close_s()@) / 3real,
		r is Ok ==> r->Ok_0.cross1.up.last_delta@ == 0real && r->Ok_0.cross2.up.last_delta@ == 0real,
		// C08: for averaging kinds that cannot overshoot, the constant state for this candle (kvo_const_step)
		r is Ok && self.ma1.convex_kind() && self.ma2.convex_kind() && self.signal.convex_kind() ==> r->Ok_0.const_state(candle),
//@replace Ok(Self::Instance { ==> Ok(KlingerVolumeOscillatorInstance {
//@end
}
pub open spec fn kvo_step<M: MovingAverageConstructor, T: OHLCV>(pre: &KlingerVolumeOscillatorInstance<M>, candle: &T, post: &KlingerVolumeOscillatorInstance<M>, ko: ValueType, sigl: ValueType, s1: Action, s2: Action, vol: ValueType, m1: ValueType, m2: ValueType, zero: ValueType) -> bool {
	let tp = (candle.high_s()@ + candle.low_s()@ + candle.close_s()@) / 3real;
	// documented: volume signed by the direction of the typical price, fast average minus slow average; signal line = MA(KO)
	&&& post.last_tp@ == tp
	&&& vol@ == (if tp > pre.last_tp@ { candle.volume_s()@ } else if tp < pre.last_tp@ { -candle.volume_s()@ } else { 0real })
	&&& <M::Instance as Method>::step(&pre.ma1, &vol, &post.ma1, &m1) && <M::Instance as Method>::step(&pre.ma2, &vol, &post.ma2, &m2)
	&&& ko@ == m1@ - m2@
	&&& <M::Instance as Method>::step(&pre.ma3, &ko, &post.ma3, &sigl)
	// signals: KO crossing zero; KO crossing its signal line
	&&& zero@ == 0real && Cross::step(&pre.cross1, &(ko, zero), &post.cross1, &s1)
	&&& Cross::step(&pre.cross2, &(ko, sigl), &post.cross2, &s2)
}
impl<M: MovingAverageConstructor> KlingerVolumeOscillatorInstance<M> {
	pub open spec fn inv(&self) -> bool { self.ma1.inv() && self.ma2.inv() && self.ma3.inv() && self.cross1.inv() && self.cross2.inv() }
//@extract src/indicators/klinger_volume_oscillator.rs impl[IndicatorInstance for KlingerVolumeOscillatorInstance<M>]::next pub
	requires old(self).inv()
	ensures final(self).inv(), final(self).cfg == old(self).cfg,
		r.length == (2u8, 2u8),
		exists|vol: ValueType, m1: ValueType, m2: ValueType, zero: ValueType|
			#[trigger] kvo_step(old(self), candle, final(self), r.vals()[0], r.vals()[1], r.sigs()[0], r.sigs()[1], vol, m1, m2, zero),
//@hint before let ma1
	proof {
		self.ma1.input_always_ok(&vol); self.ma2.input_always_ok(&vol);
		let v = candle.volume_s()@;
		assert(1real * v == v && (-1real) * v == -v && 0real * v == 0real) by(nonlinear_arith);
	}
//@hint before let ma3
	proof { self.ma3.input_always_ok(&ko); }
//@hint result
	proof { assert(kvo_step(old(self), candle, self, r.vals()[0], r.vals()[1], r.sigs()[0], r.sigs()[1], vol, ma1, ma2, mk(0real))); }
//@end
}

// ---- C08 at indicator level (averaging kinds that cannot overshoot): KlingerVolumeOscillator on a repeated candle: the typical price does not move, signed volume 0, KO 0, signal line 0, no signals
impl<M: MovingAverageConstructor> KlingerVolumeOscillatorInstance<M> {
	pub open spec fn const_state<T: OHLCV>(&self, c: &T) -> bool {
		&&& self.inv() && self.last_tp@ == (c.high_s()@ + c.low_s()@ + c.close_s()@) / 3real
		&&& self.ma1.convex() && self.ma2.convex() && self.ma3.convex()
		&&& self.ma1.within(0real, 0real) && self.ma2.within(0real, 0real) && self.ma3.within(0real, 0real)
		&&& self.cross1.up.last_delta@ == 0real && self.cross2.up.last_delta@ == 0real
	}
}
pub proof fn kvo_const_step<M: MovingAverageConstructor, T: OHLCV>(pre: &KlingerVolumeOscillatorInstance<M>, candle: &T, post: &KlingerVolumeOscillatorInstance<M>, ko: ValueType, sigl: ValueType, s1: Action, s2: Action, vol: ValueType, m1: ValueType, m2: ValueType, zero: ValueType)
	requires pre.const_state(candle), post.inv(), kvo_step(pre, candle, post, ko, sigl, s1, s2, vol, m1, m2, zero)
	ensures ko@ == 0real, sigl@ == 0real, s1 is None, s2 is None, post.const_state(candle)
{
	<M::Instance as MovingAverage>::lemma_within_step(&pre.ma1, &vol, &post.ma1, &m1, 0real, 0real);
	<M::Instance as MovingAverage>::lemma_within_step(&pre.ma2, &vol, &post.ma2, &m2, 0real, 0real);
	<M::Instance as MovingAverage>::lemma_within_step(&pre.ma3, &ko, &post.ma3, &sigl, 0real, 0real);
}

// ================================================================== WoodiesCCI
//@extract src/indicators/woodies_cci.rs const:SCALE
	ensures r@ == 1real / 1.5real,
//@end
//@extract src/indicators/woodies_cci.rs struct:WoodiesCCI
//@end
//@extract src/indicators/woodies_cci.rs struct:WoodiesCCIInstance
//@end
impl WoodiesCCI {
	pub open spec fn valid(&self) -> bool {
		self.period1 < self.period2 && self.s1_lag > 0 && self.period2 < PeriodType::MAX && self.s1_lag < PeriodType::MAX
	}
//@extract src/indicators/woodies_cci.rs impl[IndicatorConfig for WoodiesCCI]::validate pub
	ensures r == self.valid(),
//@end
//@extract src/indicators/woodies_cci.rs impl[IndicatorConfig for WoodiesCCI]::size pub
	ensures r == (2u8, 1u8),
//@end
//@extract src/indicators/woodies_cci.rs impl[IndicatorConfig for WoodiesCCI]::init pub
//@sig pub fn init<T: OHLCV>(self, candle: &T) -> (r: Result<WoodiesCCIInstance, Error>)
	requires (self.s1_lag as int) <= isize::MAX as int
	ensures
		!self.valid() ==> r is Err,
		r is Ok ==> r->Ok_0.inv() && r->Ok_0.cfg == self,
		// documented seeds: turbo CCI(period1) and trend CCI(period2) from the source price; no bars counted
		r is Ok ==> r->Ok_0.s1_count == 0 && r->Ok_0.turbo.0.0.window.view().len() == self.period1 && r->Ok_0.trend.0.0.window.view().len() == self.period2,
		// C08: the constant state for the candle's source price (woodies_const_step)
		r is Ok ==> r->Ok_0.const_state(src_val(candle, self.source)),
//@replace Ok(Self::Instance { ==> Ok(WoodiesCCIInstance {
//@end
}
pub open spec fn woodies_step(pre: &WoodiesCCIInstance, src: ValueType, post: &WoodiesCCIInstance, turbo: ValueType, trend: ValueType, sig: Action, t1: ValueType, t2: ValueType, c: Action, zero: ValueType) -> bool {
	// documented values: turbo CCI and trend CCI of the source (scaled by 1/1.5 like CommodityChannelIndex)
	&&& CCI::step(&pre.turbo, &src, &post.turbo, &t1) && turbo@ == t1@ * (1real / 1.5real)
	&&& CCI::step(&pre.trend, &src, &post.trend, &t2) && trend@ == t2@ * (1real / 1.5real)
	// bars on the same side of zero are counted (signed); a crossing restarts the count at +-1
	&&& zero@ == 0real && Cross::step(&pre.s1_cross, &(trend, zero), &post.s1_cross, &c)
	&&& post.s1_count as int == (if sv(c) > 0 { 1int } else if sv(c) < 0 { -1int } else {
			pre.s1_count as int + (if trend@ > 0real { 1int } else if trend@ < 0real { -1int } else { 0int }) })
	// documented signal: full buy when the trend CCI has stayed above zero for s1_lag bars, full sell when below; otherwise none
	&&& sig == Action::of_i8(if post.s1_count as int == pre.cfg.s1_lag as int { 1int } else if post.s1_count as int == -(pre.cfg.s1_lag as int) { -1int } else { 0int })
}
impl WoodiesCCIInstance {
	// the bar counter is an isize: the contract covers fewer than isize::MAX bars on one side of zero
	// (s1_lag is compared as an isize: lags above isize::MAX exist only under period_type_u64)
	pub open spec fn inv(&self) -> bool { self.cfg.valid() && (self.cfg.s1_lag as int) <= isize::MAX as int && self.turbo.inv() && self.trend.inv() && self.s1_cross.inv() && -(isize::MAX as int) + 1 < self.s1_count as int && (self.s1_count as int) < isize::MAX as int - 1 }
//@extract src/indicators/woodies_cci.rs impl[IndicatorInstance for WoodiesCCIInstance]::next pub into=action
	requires old(self).inv()
	ensures final(self).cfg == old(self).cfg, final(self).turbo.inv() && final(self).trend.inv() && final(self).s1_cross.inv(),
		r.length == (2u8, 1u8),
		exists|src: ValueType, t1: ValueType, t2: ValueType, c: Action, zero: ValueType| src@ == src_val(candle, old(self).cfg.source)
			&& #[trigger] woodies_step(old(self), src, final(self), r.vals()[0], r.vals()[1], r.sigs()[0], t1, t2, c, zero),
//@replace let turbo = self.turbo.next(src) * SCALE; ==> let t1__ = self.turbo.next(src); let turbo = t1__ * SCALE();
//@replace let trend = self.trend.next(src) * SCALE; ==> let t2__ = self.trend.next(src); let trend = t2__ * SCALE();
//@replace let s1_cross = self.s1_cross.next(&(trend, 0.0)).analog(); ==> let c__ = self.s1_cross.next(&(trend, R::lit(0, 1))); let s1_cross = c__.analog();
//@hint before let s1 =
	proof {
		let c = self.s1_count as int;
		let b = if (if c < 0 { -c } else { c }) == self.cfg.s1_lag as int { 1int } else { 0int };
		let g = if self.s1_count > 0 { 1int } else if self.s1_count < 0 { -1int } else { 0int };
		assert(b * g == (if b == 1 { g } else { 0int })) by(nonlinear_arith) requires b == 0 || b == 1;
	}
//@hint result
	proof { assert(woodies_step(old(self), *src, self, r.vals()[0], r.vals()[1], r.sigs()[0], t1__, t2__, c__, mk(0real))); }
//@end
}

// ---- C08 at indicator level: WoodiesCCI on a repeated candle: both CCIs 0, nothing counted, no signal
pub open spec fn all_eq(v: Seq<R>, s: real) -> bool { forall|i: int| 0 <= i < v.len() ==> (#[trigger] v[i])@ == s }
pub proof fn lemma_abs_dev_all_eq(v: Seq<R>, s: real)
	requires all_eq(v, s)
	ensures abs_dev_sum(v, s) == 0real
	decreases v.len()
{
	if v.len() > 0 {
		assert forall|i: int| 0 <= i < v.drop_last().len() implies (#[trigger] v.drop_last()[i])@ == s by { assert(v.drop_last()[i] == v[i]); }
		lemma_abs_dev_all_eq(v.drop_last(), s);
		assert(v.last()@ == s) by { assert(v.last() == v[v.len() - 1]); }
	}
}
pub proof fn lemma_cci_const(pre: &CCI, x: ValueType, post: &CCI, out: ValueType)
	requires pre.inv(), all_eq(pre.0.0.window.view(), x@), CCI::step(pre, &x, post, &out)
	ensures out@ == 0real, all_eq(post.0.0.window.view(), x@)
{
	let v = post.0.0.window.view();
	assert forall|i: int| 0 <= i < v.len() implies (#[trigger] v[i])@ == x@ by { if i < v.len() - 1 { assert(v[i] == pre.0.0.window.view()[i + 1]); } }
	lemma_sum_all_eq(v, x@);
	let n = v.len() as real;
	assert((n * x@) / n == x@) by(nonlinear_arith) requires n >= 1real;
	lemma_abs_dev_all_eq(v, x@);
	assert(0real / n == 0real) by(nonlinear_arith) requires n >= 1real;
}
impl WoodiesCCIInstance {
	pub open spec fn const_state(&self, s: real) -> bool {
		self.inv() && all_eq(self.turbo.0.0.window.view(), s) && all_eq(self.trend.0.0.window.view(), s) && self.s1_count == 0 && self.s1_cross.up.last_delta@ == 0real
	}
}
pub proof fn woodies_const_step(pre: &WoodiesCCIInstance, src: ValueType, post: &WoodiesCCIInstance, turbo: ValueType, trend: ValueType, sig: Action, t1: ValueType, t2: ValueType, c: Action, zero: ValueType)
	requires pre.const_state(src@), post.turbo.inv() && post.trend.inv() && post.s1_cross.inv(), post.cfg == pre.cfg, woodies_step(pre, src, post, turbo, trend, sig, t1, t2, c, zero)
	ensures turbo@ == 0real, trend@ == 0real, sig is None, post.const_state(src@)
{
	lemma_cci_const(&pre.turbo, src, &post.turbo, t1);
	lemma_cci_const(&pre.trend, src, &post.trend, t2);
	assert(0real * (1real / 1.5real) == 0real) by(nonlinear_arith);
}
} // verus!
fn main() {}
