//@unit ind_mfi
//@include head.rs
//@import ohlcv.rs.tpl
//@import indicator_base.rs.tpl
//@include indicator_traits.rs

pub open spec fn tp_of(c: Candle) -> real { (c.high@ + c.low@ + c.close@) / 3real }
// positive / negative money flow of candle c whose predecessor is p
pub open spec fn pf(c: Candle, p: Candle) -> real { if tp_of(c) > tp_of(p) { c.volume@ } else { 0real } }
pub open spec fn nf(c: Candle, p: Candle) -> real { if tp_of(c) < tp_of(p) { c.volume@ } else { 0real } }
// Σ_j f(v[j], pred_j) with pred_0 = fp, pred_j = v[j-1]
pub open spec fn cf(fp: Candle, v: Seq<Candle>, f: spec_fn(Candle, Candle) -> real) -> real decreases v.len() {
	if v.len() == 0 { 0real } else { cf(fp, v.drop_last(), f) + f(v.last(), if v.len() == 1 { fp } else { v[v.len() - 2] }) }
}
pub open spec fn pred(fp: Candle, v: Seq<Candle>, i: int) -> Candle { if i == 0 { fp } else { v[i - 1] } }
pub open spec fn pf_fn() -> spec_fn(Candle, Candle) -> real { |c: Candle, p: Candle| pf(c, p) }
pub open spec fn nf_fn() -> spec_fn(Candle, Candle) -> real { |c: Candle, p: Candle| nf(c, p) }

pub proof fn lemma_cf_tail(fp: Candle, v: Seq<Candle>, f: spec_fn(Candle, Candle) -> real)
	requires v.len() >= 1
	ensures cf(v[0], v.drop_first(), f) == cf(fp, v, f) - f(v[0], fp)
	decreases v.len()
{
	if v.len() == 1 {
		reveal_with_fuel(cf, 2);
		assert(v.drop_first().len() == 0);
		assert(v.drop_last().len() == 0);
		assert(v.last() == v[0]);
	} else {
		let t = v.drop_last();
		lemma_cf_tail(fp, t, f);
		let u = v.drop_first();
		assert(u.drop_last() =~= t.drop_first());
		assert(t[0] == v[0]);
		assert(u.last() == v.last());
		if u.len() == 1 {
			assert(v.len() == 2);
			assert(v[v.len() - 2] == v[0]);
		} else {
			assert(u[u.len() - 2] == v[v.len() - 2]);
		}
	}
}
pub proof fn lemma_cf_slide(fp: Candle, v: Seq<Candle>, c: Candle, f: spec_fn(Candle, Candle) -> real)
	requires v.len() >= 1
	ensures cf(v[0], v.drop_first().push(c), f) == cf(fp, v, f) - f(v[0], fp) + f(c, v.last())
{
	lemma_cf_tail(fp, v, f);
	let t = v.drop_first();
	let u = t.push(c);
	assert(u.drop_last() =~= t);
	assert(u.last() == c);
	if u.len() == 1 { assert(v.len() == 1 && v.last() == v[0]); } else { assert(u[u.len() - 2] == v.last()); }
}
pub proof fn lemma_cf_const(n: nat, c: Candle, f: spec_fn(Candle, Candle) -> real)
	requires f(c, c) == 0real
	ensures cf(c, Seq::new(n, |i: int| c), f) == 0real
	decreases n
{
	let s = Seq::new(n, |i: int| c);
	if n > 0 {
		lemma_cf_const((n - 1) as nat, c, f);
		assert(s.drop_last() =~= Seq::new((n - 1) as nat, |i: int| c));
	}
}
pub proof fn lemma_cf_nonneg(fp: Candle, v: Seq<Candle>, f: spec_fn(Candle, Candle) -> real)
	requires forall|i: int| 0 <= i < v.len() ==> f(#[trigger] v[i], pred(fp, v, i)) >= 0real
	ensures cf(fp, v, f) >= 0real
	decreases v.len()
{
	if v.len() > 0 {
		let t = v.drop_last();
		assert forall|i: int| 0 <= i < t.len() implies f(#[trigger] t[i], pred(fp, t, i)) >= 0real by {
			assert(t[i] == v[i]);
			assert(pred(fp, t, i) == pred(fp, v, i));
			assert(f(v[i], pred(fp, v, i)) >= 0real);
		}
		lemma_cf_nonneg(fp, t, f);
		let i = v.len() - 1;
		assert(f(v[i], pred(fp, v, i)) >= 0real);
	}
}

// ================================================================== MoneyFlowIndex
//@extract src/indicators/money_flow_index.rs struct:MoneyFlowIndex keepderive
//@end
//@extract src/indicators/money_flow_index.rs struct:MoneyFlowIndexInstance
//@end
impl Candle {
//@extract src/core/candles.rs impl[Candle]::from
	ensures r.open == src.open_s() && r.high == src.high_s() && r.low == src.low_s() && r.close == src.close_s() && r.volume == src.volume_s(),
//@end
}
//@extract src/indicators/money_flow_index.rs fn:tfunc
	ensures r.0@ == pf(*candle, *last_candle), r.1@ == nf(*candle, *last_candle),
//@hint start
	proof {
		let v = candle.volume@;
		assert(1real * v == v && 0real * v == 0real) by(nonlinear_arith);
	}
//@end
impl MoneyFlowIndex {
	pub open spec fn valid(&self) -> bool { self.zone@ >= 0real && self.zone@ <= 0.5real && self.period > 0 && self.period < PeriodType::MAX }
//@extract src/indicators/money_flow_index.rs impl[IndicatorConfig for MoneyFlowIndex]::validate pub
	ensures r == self.valid(),
//@end
//@extract src/indicators/money_flow_index.rs impl[IndicatorConfig for MoneyFlowIndex]::size pub
	ensures r == (3u8, 2u8),
//@end
//@extract src/indicators/money_flow_index.rs impl[IndicatorConfig for MoneyFlowIndex]::init pub
//@sig pub fn init<T: OHLCV>(self, candle: &T) -> (r: Result<MoneyFlowIndexInstance, Error>)
	ensures
		(r is Ok) == self.valid(),
		r is Ok ==> r->Ok_0.inv() && r->Ok_0.cfg == self && r->Ok_0.pmf@ == 0real && r->Ok_0.nmf@ == 0real,
		// C08: the constant state for this candle (mfi_const_step)
		r is Ok ==> exists|c: Candle| c.high == candle.high_s() && c.low == candle.low_s() && c.close == candle.close_s() && c.volume == candle.volume_s()
			&& #[trigger] r->Ok_0.const_state(c),
//@replace Ok(Self::Instance { ==> Ok(MoneyFlowIndexInstance {
//@hint before Ok(Self::Instance
	proof {
		lemma_cf_const(cfg.period as nat, static_candle, pf_fn());
		lemma_cf_const(cfg.period as nat, static_candle, nf_fn());
	}
//@hint result
	proof {
		if r is Ok {
			let v = r->Ok_0.window.view();
			assert(v =~= Seq::new(self.period as nat, |i: int| static_candle));
			assert(r->Ok_0.const_state(static_candle));
		}
	}
//@end
}
impl MoneyFlowIndexInstance {
	// the window holds the last `period` candles; pmf / nmf are the sums of their positive / negative money flows, each candle
	// compared with its predecessor (the predecessor of the oldest one is kept in last_prev_candle)
	pub open spec fn inv(&self) -> bool {
		&&& self.window.wf() && self.window.cap() >= 1
		&&& self.prev_candle == self.window.view().last()
		&&& self.pmf@ == cf(self.last_prev_candle, self.window.view(), pf_fn())
		&&& self.nmf@ == cf(self.last_prev_candle, self.window.view(), nf_fn())
		&&& self.cross_lower.inv() && self.cross_upper.inv()
	}
	pub open spec fn vols_nonneg(&self) -> bool { forall|i: int| 0 <= i < self.window.view().len() ==> (#[trigger] self.window.view()[i]).volume@ >= 0real }
//@extract src/indicators/money_flow_index.rs impl[IndicatorInstance for MoneyFlowIndexInstance]::next pub into=action
	requires old(self).inv()
	ensures final(self).inv(), final(self).cfg == old(self).cfg,
		r.length == (3u8, 2u8),
		// the window slides by the new candle
		exists|c: Candle| c.high == candle.high_s() && c.low == candle.low_s() && c.close == candle.close_s() && c.volume == candle.volume_s()
			&& #[trigger] old(self).window.view().drop_first().push(c) == final(self).window.view(),
		// the candle that left the window becomes the predecessor of the oldest remaining one
		final(self).last_prev_candle == old(self).window.view()[0],
		// documented: MFI = 1 - 1/(1 + positive flow / negative flow) over the last `period` candles; 0.5 when there is no negative flow
		({
			let (p, n) = (final(self).pmf@, final(self).nmf@);
			&&& (n != 0real && 1real + p / n != 0real ==> r.vals()[1]@ == 1real - 1real / (1real + p / n))
			&&& (n == 0real ==> r.vals()[1]@ == 0.5real)
			&&& r.vals()[0]@ == 1real - old(self).cfg.zone@ && r.vals()[2]@ == old(self).cfg.zone@
		}),
		// C12: with non-negative volumes the index stays in [0, 1]
		old(self).vols_nonneg() && candle.volume_s()@ >= 0real ==> final(self).vols_nonneg() && 0real <= r.vals()[1]@ <= 1real,
		// signals (C06): entering (+ below the lower zone / - above the upper zone) and leaving the zones
		exists|lo: Action, hi: Action| #[trigger] mfi_signals(old(self), r.vals()[1], final(self), r.sigs()[0], r.sigs()[1], lo, hi),
//@replace let cross_upper: i8 = self.cross_upper.next(&(value, upper)).into(); ==> let hi_act__ = self.cross_upper.next(&(value, upper)); let cross_upper: i8 = <i8 as FromAction>::from_action(hi_act__);
//@replace let cross_lower: i8 = self.cross_lower.next(&(value, lower)).into(); ==> let lo_act__ = self.cross_lower.next(&(value, lower)); let cross_lower: i8 = <i8 as FromAction>::from_action(lo_act__);
//@hint before self.last_prev_candle = last_candle;
	proof {
		lemma_cf_slide(old(self).last_prev_candle, old(self).window.view(), static_candle, pf_fn());
		lemma_cf_slide(old(self).last_prev_candle, old(self).window.view(), static_candle, nf_fn());
		assert(last_candle == old(self).window.view()[0]);
	}
//@hint before let upper =
	proof {
		let (p, n) = (self.pmf@, self.nmf@);
		if old(self).vols_nonneg() && candle.volume_s()@ >= 0real {
			let v = self.window.view();
			assert forall|i: int| 0 <= i < v.len() implies (#[trigger] v[i]).volume@ >= 0real by {
				if i < v.len() - 1 { assert(v[i] == old(self).window.view()[i + 1]); }
			}
			assert forall|i: int| 0 <= i < v.len() implies pf_fn()(#[trigger] v[i], pred(self.last_prev_candle, v, i)) >= 0real by {}
			assert forall|i: int| 0 <= i < v.len() implies nf_fn()(#[trigger] v[i], pred(self.last_prev_candle, v, i)) >= 0real by {}
			lemma_cf_nonneg(self.last_prev_candle, v, pf_fn());
			lemma_cf_nonneg(self.last_prev_candle, v, nf_fn());
			if n != 0real {
				let q = p / n;
				assert(q >= 0real) by(nonlinear_arith) requires p >= 0real, n > 0real, q == p / n;
				assert(0real <= 1real - 1real / (1real + q) && 1real - 1real / (1real + q) <= 1real) by(nonlinear_arith) requires q >= 0real;
			}
		}
		assert(1real - 1real / (1real + 1real) == 0.5real);
	}
//@hint result
	proof {
		assert(old(self).window.view().drop_first().push(static_candle) == self.window.view());
		assert(mfi_signals(old(self), r.vals()[1], self, r.sigs()[0], r.sigs()[1], lo_act__, hi_act__));
	}
//@end
}
pub open spec fn mfi_signals(pre: &MoneyFlowIndexInstance, value: ValueType, post: &MoneyFlowIndexInstance, s1: Action, s2: Action, lo: Action, hi: Action) -> bool {
	&&& Cross::step(&pre.cross_lower, &(value, pre.cfg.zone), &post.cross_lower, &lo)
	&&& Cross::step(&pre.cross_upper, &(value, mk(1real - pre.cfg.zone@)), &post.cross_upper, &hi)
	&&& s1 == Action::of_i8((if sv(lo) < 0 { 1int } else { 0int }) - (if sv(hi) > 0 { 1int } else { 0int }))
	&&& s2 == Action::of_i8((if sv(lo) > 0 { 1int } else { 0int }) - (if sv(hi) < 0 { 1int } else { 0int }))
}

// ---- C08 at indicator level: fed the candle it was initialised with, MoneyFlowIndex returns 0.5 between its two fixed zones and never signals
// (the cross detectors' remembered difference moves once, from 0 to the constant distance to the zone, which cannot produce a crossing)
impl MoneyFlowIndexInstance {
	pub open spec fn const_state(&self, c: Candle) -> bool {
		let z = self.cfg.zone@;
		&&& self.inv() && 0real <= z <= 0.5real && self.last_prev_candle == c
		&&& self.window.view() =~= Seq::new(self.window.view().len(), |i: int| c)
		&&& (self.cross_lower.up.last_delta@ == 0real || self.cross_lower.up.last_delta@ == 0.5real - z)
		&&& (self.cross_upper.up.last_delta@ == 0real || self.cross_upper.up.last_delta@ == z - 0.5real)
	}
}
pub proof fn mfi_const_step(pre: &MoneyFlowIndexInstance, c: Candle, post: &MoneyFlowIndexInstance, value: ValueType, s1: Action, s2: Action, lo: Action, hi: Action)
	requires pre.const_state(c), post.inv(), post.cfg == pre.cfg,
		post.window.view() == pre.window.view().drop_first().push(c), post.last_prev_candle == pre.window.view()[0],
		post.nmf@ == 0real ==> value@ == 0.5real,
		mfi_signals(pre, value, post, s1, s2, lo, hi)
	ensures value@ == 0.5real, s1 is None, s2 is None, post.const_state(c)
{
	let n = pre.window.view().len();
	assert(pre.window.view()[0] == c);
	assert(post.window.view() =~= Seq::new(n, |i: int| c));
	lemma_cf_const(n, c, pf_fn());
	lemma_cf_const(n, c, nf_fn());
}
} // verus!
fn main() {}
