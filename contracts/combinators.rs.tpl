//@unit combinators
//@include head.rs

// the element-by-element run: a chain of states st[0] = pre, ..., st[n] = post with
// step(st[i], inputs[i], st[i+1], outs[i]) — outs[i] is what next(inputs[i]) returns after inputs[0..i]
pub open spec fn chain<T, M: Method<Input = T>>(st: Seq<M>, inputs: Seq<T>, outs: Seq<M::Output>) -> bool {
	&&& st.len() == inputs.len() + 1 && outs.len() == inputs.len()
	&&& forall|i: int| 0 <= i < inputs.len() ==> (#[trigger] st[i]).inv() && M::step(&st[i], &inputs[i], &st[i + 1], &outs[i])
}
pub open spec fn run<T, M: Method<Input = T>>(pre: M, inputs: Seq<T>, outs: Seq<M::Output>, post: M) -> bool {
	exists|st: Seq<M>| #[trigger] chain(st, inputs, outs) && st[0] == pre && st.last() == post
}
pub open spec fn inputs_ok<T, M: Method<Input = T>>(inputs: Seq<T>) -> bool {
	forall|m: M, i: int| 0 <= i < inputs.len() ==> #[trigger] m.input_ok(&inputs[i])
}
pub proof fn lemma_run_empty<T, M: Method<Input = T>>(pre: M)
	ensures run(pre, Seq::<T>::empty(), Seq::<M::Output>::empty(), pre)
{
	let st = seq![pre];
	assert(chain(st, Seq::<T>::empty(), Seq::<M::Output>::empty()));
	assert(st[0] == pre && st.last() == pre);
}
pub proof fn lemma_run_extend<T, M: Method<Input = T>>(pre: M, inputs: Seq<T>, outs: Seq<M::Output>, mid: M, x: T, post: M, out: M::Output)
	requires run(pre, inputs, outs, mid), mid.inv(), M::step(&mid, &x, &post, &out)
	ensures run(pre, inputs.push(x), outs.push(out), post)
{
	let st = choose|st: Seq<M>| #[trigger] chain(st, inputs, outs) && st[0] == pre && st.last() == mid;
	let st2 = st.push(post);
	assert forall|i: int| 0 <= i < inputs.push(x).len() implies (#[trigger] st2[i]).inv() && M::step(&st2[i], &inputs.push(x)[i], &st2[i + 1], &outs.push(out)[i]) by {
		if i < inputs.len() { assert(st2[i] == st[i] && st2[i + 1] == st[i + 1]); } else { assert(st2[i] == mid && st2[i + 1] == post); }
	}
	assert(chain(st2, inputs.push(x), outs.push(out)));
	assert(st2[0] == pre && st2.last() == post);
}
pub proof fn lemma_run_len<T, M: Method<Input = T>>(pre: M, inputs: Seq<T>, outs: Seq<M::Output>, post: M)
	requires run(pre, inputs, outs, post)
	ensures outs.len() == inputs.len()
{
}
// chunking: running xs then ys from the state left by xs is running xs ++ ys (any split, empty chunks included)
pub proof fn lemma_run_concat<T, M: Method<Input = T>>(a: M, xs: Seq<T>, os: Seq<M::Output>, b: M, ys: Seq<T>, ps: Seq<M::Output>, c: M)
	requires run(a, xs, os, b), run(b, ys, ps, c)
	ensures run(a, xs + ys, os + ps, c)
{
	let s1 = choose|st: Seq<M>| #[trigger] chain(st, xs, os) && st[0] == a && st.last() == b;
	let s2 = choose|st: Seq<M>| #[trigger] chain(st, ys, ps) && st[0] == b && st.last() == c;
	let st = s1 + s2.drop_first();
	let n = xs.len() as int;
	assert forall|i: int| 0 <= i < (xs + ys).len() implies (#[trigger] st[i]).inv() && M::step(&st[i], &(xs + ys)[i], &st[i + 1], &(os + ps)[i]) by {
		if i < n {
			assert(st[i] == s1[i]);
			if i + 1 <= n { assert(st[i + 1] == s1[i + 1]); }
		} else {
			let j = i - n;
			assert(s2[j].inv() && M::step(&s2[j], &ys[j], &s2[j + 1], &ps[j]));
			if j == 0 { assert(st[i] == s1[n] && s1[n] == b && s2[0] == b); } else { assert(st[i] == s2.drop_first()[j - 1]); }
			assert(st[i + 1] == s2.drop_first()[j]);
		}
	}
	assert(chain(st, xs + ys, os + ps));
	assert(st[0] == a);
	if ys.len() == 0 { assert(st.last() == s1.last()); } else { assert(st.last() == s2.last()); }
}
// splitting: a run over xs ++ ys passes through some state b after xs
pub proof fn lemma_run_split<T, M: Method<Input = T>>(a: M, xs: Seq<T>, ys: Seq<T>, outs: Seq<M::Output>, c: M)
	requires run(a, xs + ys, outs, c)
	ensures exists|b: M| #[trigger] run(a, xs, outs.subrange(0, xs.len() as int), b) && run(b, ys, outs.subrange(xs.len() as int, outs.len() as int), c)
{
	let st = choose|st: Seq<M>| #[trigger] chain(st, xs + ys, outs) && st[0] == a && st.last() == c;
	let n = xs.len() as int;
	let s1 = st.subrange(0, n + 1);
	let s2 = st.subrange(n, st.len() as int);
	let b = st[n];
	assert forall|i: int| 0 <= i < xs.len() implies (#[trigger] s1[i]).inv() && M::step(&s1[i], &xs[i], &s1[i + 1], &outs.subrange(0, n)[i]) by {
		assert(st[i].inv() && M::step(&st[i], &(xs + ys)[i], &st[i + 1], &outs[i]));
	}
	assert(chain(s1, xs, outs.subrange(0, n)));
	assert forall|i: int| 0 <= i < ys.len() implies (#[trigger] s2[i]).inv() && M::step(&s2[i], &ys[i], &s2[i + 1], &outs.subrange(n, outs.len() as int)[i]) by {
		assert(st[n + i].inv() && M::step(&st[n + i], &(xs + ys)[n + i], &st[n + i + 1], &outs[n + i]));
	}
	assert(chain(s2, ys, outs.subrange(n, outs.len() as int)));
	assert(s1[0] == a && s1.last() == b && s2[0] == b && s2.last() == c);
	assert(run(a, xs, outs.subrange(0, n), b));
	assert(run(b, ys, outs.subrange(n, outs.len() as int), c));
}

// ------------------------------------------------------------------ Sequence::call (core/sequence.rs)
//@extract src/core/sequence.rs trait[Sequence]::call pub
//@sig pub fn call<T, M: Method<Input = T>>(seq: &[T], method: &mut M) -> (r: Vec<M::Output>)
	requires old(method).inv(), inputs_ok::<T, M>(seq@)
	ensures final(method).inv(), run(*old(method), seq@, r@, *final(method)), r@.len() == seq@.len(),
//@src self.as_ref().iter() ==> SliceIt::new(seq)
//@hint before self.as_ref()
	proof { lemma_run_empty::<T, M>(*method); assert(seq@.subrange(0, 0) =~= Seq::<T>::empty()); }
//@hint chain 0
		invariant_except_break
			it0__.inv(), it0__.s == seq, method.inv(), inputs_ok::<T, M>(seq@),
			acc0__@.len() == it0__.i,
			run(*old(method), seq@.subrange(0, it0__.i as int), acc0__@, *method),
		ensures
			run(*old(method), seq@, acc0__@, *method), method.inv(), acc0__@.len() == seq@.len(),
		decreases seq@.len() - it0__.i
//@hint chain-start 0
		let ghost mid = *method;
		let ghost outs0 = acc0__@;
		proof { assert(seq@.subrange(0, seq@.len() as int) =~= seq@); }
//@hint chain-end 0
		proof {
			let i = it0__.i as int;
			lemma_run_extend(*old(method), seq@.subrange(0, i - 1), outs0, mid, seq@[i - 1], *method, item__);
			assert(seq@.subrange(0, i - 1).push(seq@[i - 1]) =~= seq@.subrange(0, i));
		}
//@end

// ------------------------------------------------------------------ Sequence::apply (core/sequence.rs): in-place run
//@extract src/core/sequence.rs trait[Sequence]::apply pub
//@sig pub fn seq_apply<T, M: Method<Input = T, Output = T>>(seq: &mut [T], method: &mut M)
	requires old(method).inv(), inputs_ok::<T, M>(old(seq)@)
	ensures final(method).inv(), final(seq)@.len() == old(seq)@.len(), run(*old(method), old(seq)@, final(seq)@, *final(method)),
//@src self.as_mut().iter_mut() ==> seq
//@hint start
	proof { lemma_run_empty::<T, M>(*method); assert(seq@.subrange(0, 0) =~= Seq::<T>::empty()); }
//@hint chain 0
		invariant_except_break
			idx0__ <= seq@.len(), seq@.len() == old(seq)@.len(), method.inv(), inputs_ok::<T, M>(old(seq)@),
			seq@.subrange(idx0__ as int, seq@.len() as int) =~= old(seq)@.subrange(idx0__ as int, seq@.len() as int),
			run(*old(method), old(seq)@.subrange(0, idx0__ as int), seq@.subrange(0, idx0__ as int), *method),
		ensures
			seq@.len() == old(seq)@.len(), method.inv(), run(*old(method), old(seq)@, seq@, *method),
		decreases seq@.len() - idx0__
//@hint chain-start 0
		let ghost mid = *method;
		let ghost cur = seq@;
		proof {
			assert(seq@.subrange(0, seq@.len() as int) =~= seq@);
			assert(old(seq)@.subrange(0, seq@.len() as int) =~= old(seq)@);
		}
//@hint chain-item 0
		proof {
			let i = idx0__ as int;
			assert(seq@[i] == seq@.subrange(i, seq@.len() as int)[0]);
			assert(seq@[i] == old(seq)@[i]);
		}
//@hint chain-end 0
		proof {
			let i = idx0__ as int;
			assert(cur[i - 1] == cur.subrange(i - 1, cur.len() as int)[0]);
			assert(cur[i - 1] == old(seq)@[i - 1]);
			lemma_run_extend(*old(method), old(seq)@.subrange(0, i - 1), cur.subrange(0, i - 1), mid, old(seq)@[i - 1], *method, seq@[i - 1]);
			assert(old(seq)@.subrange(0, i - 1).push(old(seq)@[i - 1]) =~= old(seq)@.subrange(0, i));
			assert(cur.subrange(0, i - 1).push(seq@[i - 1]) =~= seq@.subrange(0, i));
			assert forall|j: int| i <= j < seq@.len() implies seq@[j] == old(seq)@[j] by {
				assert(cur.subrange(i - 1, cur.len() as int)[j - i + 1] == old(seq)@.subrange(i - 1, cur.len() as int)[j - i + 1]);
			}
		}
//@end

// a freshly constructed instance (seeded with the first input) run over all inputs
pub open spec fn fresh_run<T, M: Method<Input = T>>(parameters: M::Params, inputs: Seq<T>, outs: Seq<M::Output>, s0: M, s1: M) -> bool {
	run(s0, inputs, outs, s1) && M::fresh(parameters, &inputs[0], &s0) && s0.inv()
}
// ------------------------------------------------------------------ Method::over / new_over (core/method.rs)
//@extract src/core/method.rs trait[Method]::over pub
//@sig pub fn over<T, M: Method<Input = T>>(this: &mut M, inputs: &[T]) -> (r: Vec<M::Output>)
	requires old(this).inv(), inputs_ok::<T, M>(inputs@)
	ensures final(this).inv(), run(*old(this), inputs@, r@, *final(this)), r@.len() == inputs@.len(),
//@replace inputs.call(self) ==> call(inputs, this)
//@end

//@extract src/core/method.rs trait[Method]::new_over pub
//@sig pub fn new_over<T, M: Method<Input = T>>(parameters: M::Params, inputs: &[T]) -> (r: Result<Vec<M::Output>, Error>)
	requires inputs@.len() > 0 ==> M::new_req(parameters, &inputs@[0]), inputs_ok::<T, M>(inputs@)
	ensures
		inputs@.len() == 0 ==> r is Ok && r->Ok_0@.len() == 0,
		r is Ok && inputs@.len() > 0 ==> exists|s0: M, s1: M| #[trigger] fresh_run(parameters, inputs@, r->Ok_0@, s0, s1),
		inputs@.len() > 0 && M::rejects(parameters) ==> r is Err,
//@replace inputs.get_initial_value() ==> slice_first(inputs)
//@replace Self::new(parameters, v)? ==> M::new(parameters, v)?
//@replace Ok(inputs.call(&mut method)) ==> { let ghost s0 = method; let out = call(inputs, &mut method); let rr: Result<Vec<M::Output>, Error> = Ok(out); proof { assert(fresh_run(parameters, inputs@, rr->Ok_0@, s0, method)); } rr }
//@end

//@extract src/core/method.rs trait[Method]::apply pub
//@sig pub fn apply<T, M: Method<Input = T, Output = T>>(this: &mut M, sequence: &mut [T])
	requires old(this).inv(), inputs_ok::<T, M>(old(sequence)@)
	ensures final(this).inv(), final(sequence)@.len() == old(sequence)@.len(), run(*old(this), old(sequence)@, final(sequence)@, *final(this)),
//@replace sequence.apply(self) ==> seq_apply(sequence, this)
//@end

//@extract src/core/method.rs trait[Method]::new_apply pub
//@sig pub fn new_apply<T, M: Method<Input = T, Output = T>>(parameters: M::Params, sequence: &mut [T]) -> (r: Result<(), Error>)
	requires old(sequence)@.len() > 0 ==> M::new_req(parameters, &old(sequence)@[0]), inputs_ok::<T, M>(old(sequence)@)
	ensures
		final(sequence)@.len() == old(sequence)@.len(),
		old(sequence)@.len() == 0 ==> r is Ok,
		r is Ok && old(sequence)@.len() > 0 ==> exists|s0: M, s1: M| #[trigger] fresh_run(parameters, old(sequence)@, final(sequence)@, s0, s1),
		r is Err ==> final(sequence)@ == old(sequence)@,
		old(sequence)@.len() > 0 && M::rejects(parameters) ==> r is Err,
//@replace seq.get_initial_value() ==> slice_first(seq)
//@replace Self::new(parameters, initial_value)? ==> M::new(parameters, initial_value)?
//@replace sequence.apply(&mut m); ==> let ghost s0 = m; seq_apply(sequence, &mut m); proof { assert(fresh_run(parameters, old(sequence)@, sequence@, s0, m)); }
//@end

// ------------------------------------------------------------------ Method::new_fn (core/method.rs)
// BoxedFnMethod<M> = Box<dyn FnMut(&M::Input) -> M::Output> holding `move |x| self.next(x)`: opaque here, identified with the
// instance the closure owns. into_fn's contract is ASSUMED (boxed FnMut closures are outside the verifier's reach); new_fn's body is verified against it.
#[verifier::external_body]
#[verifier::reject_recursive_types(M)]
pub struct BoxedFnMethod<M: Method> { _m: std::marker::PhantomData<M> }
impl<M: Method> BoxedFnMethod<M> {
	pub uninterp spec fn state(&self) -> M;
}
#[verifier::external_body]
pub fn into_fn<M: Method>(this: M) -> (r: BoxedFnMethod<M>)
	ensures r.state() == this
{ unimplemented!() }
//@extract src/core/method.rs trait[Method]::new_fn pub
//@sig pub fn new_fn<M: Method>(params: M::Params, initial_value: &M::Input) -> (r: Result<BoxedFnMethod<M>, Error>)
	requires M::new_req(params, initial_value)
	ensures
		M::rejects(params) ==> r is Err,
		r is Ok ==> r->Ok_0.state().inv() && M::fresh(params, initial_value, &r->Ok_0.state()),
//@replace Self::new(params, initial_value)? ==> M::new(params, initial_value)?
//@replace instance.into_fn() ==> into_fn(instance)
//@end

// <[T]>::first, as Sequence::get_initial_value uses it
pub fn slice_first<T>(s: &[T]) -> (r: Option<&T>)
	ensures s@.len() == 0 ==> r is None, s@.len() > 0 ==> r == Some(&s@[0])
{
	if s.len() == 0 { None } else { Some(&s[0]) }
}

// ------------------------------------------------------------------ WithHistory / WithLastValue (helpers/history.rs)
//@extract src/helpers/history.rs struct:WithHistory
//@end
impl<T> Method for WithHistory<T, T::Output>
where
	T: Method,
	T::Output: std::fmt::Debug + Clone,
{
	type Params = T::Params;
	type Input = T::Input;
	type Output = T::Output;
	open spec fn inv(&self) -> bool { self.instance.inv() }
	open spec fn rejects(parameters: T::Params) -> bool { T::rejects(parameters) }
	open spec fn new_req(parameters: T::Params, initial_value: &T::Input) -> bool { T::new_req(parameters, initial_value) }
	open spec fn fresh(parameters: T::Params, initial_value: &T::Input, s: &Self) -> bool {
		T::fresh(parameters, initial_value, &s.instance) && s.history@.len() == 0
	}
	open spec fn input_ok(&self, x: &T::Input) -> bool { self.instance.input_ok(x) }
	// exactly the wrapped method's step; the history grows by (a clone of) the output
	open spec fn step(pre: &Self, x: &T::Input, post: &Self, out: &T::Output) -> bool {
		&&& T::step(&pre.instance, x, &post.instance, out)
		&&& post.history@.len() == pre.history@.len() + 1
		&&& post.history@.drop_last() =~= pre.history@
		&&& cloned(*out, post.history@.last())
	}
//@extract src/helpers/history.rs impl[Method for WithHistory<T, T::Output>]::new
//@end
//@extract src/helpers/history.rs impl[Method for WithHistory<T, T::Output>]::next
//@end
}

//@extract src/helpers/history.rs struct:WithLastValue
//@end
impl<T> WithLastValue<T, T::Output> where T: Method, T::Output: std::fmt::Debug + Clone {
//@extract src/helpers/history.rs impl[Peekable<V> for WithLastValue<T, V>]::peek pub
//@sig pub fn peek(&self) -> (r: T::Output)
	ensures cloned(self.last_value, r),
//@end
}
impl<T> Method for WithLastValue<T, T::Output>
where
	T: Method,
	T::Output: std::fmt::Debug + Clone,
{
	type Params = T::Params;
	type Input = T::Input;
	type Output = T::Output;
	open spec fn inv(&self) -> bool { self.instance.inv() }
	open spec fn rejects(parameters: T::Params) -> bool { T::rejects(parameters) }
	open spec fn new_req(parameters: T::Params, initial_value: &T::Input) -> bool {
		T::new_req(parameters, initial_value) && forall|m: T| #[trigger] m.input_ok(initial_value)
	}
	// built like the wrapped method and stepped once with the initial value (as the source does)
	open spec fn fresh(parameters: T::Params, initial_value: &T::Input, s: &Self) -> bool {
		exists|s0: T| #[trigger] T::fresh(parameters, initial_value, &s0) && s0.inv() && T::step(&s0, initial_value, &s.instance, &s.last_value)
	}
	open spec fn input_ok(&self, x: &T::Input) -> bool { self.instance.input_ok(x) }
	// exactly the wrapped method's step; peek then returns (a clone of) the value just produced
	open spec fn step(pre: &Self, x: &T::Input, post: &Self, out: &T::Output) -> bool {
		T::step(&pre.instance, x, &post.instance, out) && cloned(*out, post.last_value)
	}
//@extract src/helpers/history.rs impl[Method for WithLastValue<T, T::Output>]::new
//@replace let mut instance = T::new(parameters, initial_value)?; ==> let mut instance = T::new(parameters, initial_value)?; let ghost s0 = instance;
//@hint result
	proof { if r is Ok { assert(T::fresh(parameters, initial_value, &s0) && s0.inv() && T::step(&s0, initial_value, &r->Ok_0.instance, &r->Ok_0.last_value)); } }
//@end
//@extract src/helpers/history.rs impl[Method for WithLastValue<T, T::Output>]::next
//@end
}
} // verus!
fn main() {}
