//@unit highest_lowest
//@include head.rs
//@include select_lib.rs

//@export-begin
// ------------------------------------------------------------------ Highest
//@extract src/methods/highest_lowest.rs struct:Highest
//@end
impl Highest {
//@extract src/methods/highest_lowest.rs impl[Peekable<<Self as Method>::Output> for Highest]::peek pub
//@sig pub fn peek(&self) -> (r: ValueType)
	ensures r == self.value,
//@end
}
impl Method for Highest {
	type Params = PeriodType;
	type Input = ValueType;
	type Output = ValueType;
	// the cached value is (bit-for-bit) one of the window's elements and no element is larger
	open spec fn inv(&self) -> bool { self.window.wf() && self.window.cap() >= 1 && is_max(self.window.view(), self.value) }
	open spec fn rejects(parameters: PeriodType) -> bool { parameters == 0 }
	open spec fn new_req(parameters: PeriodType, initial_value: &ValueType) -> bool { true }
	open spec fn fresh(parameters: PeriodType, initial_value: &ValueType, s: &Self) -> bool {
		s.window.view() =~= konst(parameters as nat, *initial_value) && s.value == *initial_value
	}
	open spec fn input_ok(&self, x: &ValueType) -> bool { true }
	// exact selection: the result is an element of the last `length` inputs and none of them is larger
	open spec fn step(pre: &Self, x: &ValueType, post: &Self, out: &ValueType) -> bool {
		&&& post.window.view() == pre.window.view().drop_first().push(*x)
		&&& is_max(post.window.view(), *out)
		&&& *out == post.value
	}
//@extract src/methods/highest_lowest.rs impl[Method for Highest]::new
	ensures (r is Ok) == (length != 0 && length != PeriodType::MAX),
//@hint result
	proof { if r is Ok { let s = r->Ok_0.window.view(); lemma_cloned_konst(s, length as nat, value); assert(s[0] == value); } }
//@end
//@extract src/methods/highest_lowest.rs impl[Method for Highest]::next
//@sig fn next(&mut self, value__r: &Self::Input) -> (r: ValueType)
//@hint after let left_value = self.window.push(value);
	broadcast use bits_axiom;
	let ghost vw = self.window.view();
	proof {
		assert(vw[vw.len() - 1] == value);
		if !(value@ >= old(self).value@) && !bits_eq(left_value, old(self).value) {
			let ov = old(self).window.view();
			let i = choose|i: int| 0 <= i < ov.len() && ov[i] == old(self).value;
			assert(i != 0);
			assert(vw[i - 1] == old(self).value);
		}
	}
//@hint chain 0
		invariant_except_break
			iter_at(it0__, &self.window, vw), vw.len() > 0, vw[vw.len() - 1] == value,
			(exists|i: int| 0 <= i < vw.len() && vw[i] == acc0__),
			(forall|j: int| it0__.remaining().len() <= j < vw.len() ==> (#[trigger] vw[j])@ <= acc0__@),
		ensures
			is_max(vw, acc0__),
		decreases it0__.remaining().len()
//@hint chain-start 0
		let ghost pre_it = it0__;
//@hint chain-item 0
		proof { lemma_iter_next(pre_it, it0__, &self.window, vw); }
//@hint before self.value = self.window.iter().fold
	proof { }
//@end
}
// ------------------------------------------------------------------ Lowest
//@extract src/methods/highest_lowest.rs struct:Lowest
//@end
impl Lowest {
//@extract src/methods/highest_lowest.rs impl[Peekable<<Self as Method>::Output> for Lowest]::peek pub
//@sig pub fn peek(&self) -> (r: ValueType)
	ensures r == self.value,
//@end
}
impl Method for Lowest {
	type Params = PeriodType;
	type Input = ValueType;
	type Output = ValueType;
	// the cached value is (bit-for-bit) one of the window's elements and no element is smaller
	open spec fn inv(&self) -> bool { self.window.wf() && self.window.cap() >= 1 && is_min(self.window.view(), self.value) }
	open spec fn rejects(parameters: PeriodType) -> bool { parameters == 0 }
	open spec fn new_req(parameters: PeriodType, initial_value: &ValueType) -> bool { true }
	open spec fn fresh(parameters: PeriodType, initial_value: &ValueType, s: &Self) -> bool {
		s.window.view() =~= konst(parameters as nat, *initial_value) && s.value == *initial_value
	}
	open spec fn input_ok(&self, x: &ValueType) -> bool { true }
	// exact selection: the result is an element of the last `length` inputs and none of them is smaller
	open spec fn step(pre: &Self, x: &ValueType, post: &Self, out: &ValueType) -> bool {
		&&& post.window.view() == pre.window.view().drop_first().push(*x)
		&&& is_min(post.window.view(), *out)
		&&& *out == post.value
	}
//@extract src/methods/highest_lowest.rs impl[Method for Lowest]::new
	ensures (r is Ok) == (length != 0 && length != PeriodType::MAX),
//@hint result
	proof { if r is Ok { let s = r->Ok_0.window.view(); lemma_cloned_konst(s, length as nat, value); assert(s[0] == value); } }
//@end
//@extract src/methods/highest_lowest.rs impl[Method for Lowest]::next
//@sig fn next(&mut self, value__r: &Self::Input) -> (r: ValueType)
//@hint after let left_value = self.window.push(value);
	broadcast use bits_axiom;
	let ghost vw = self.window.view();
	proof {
		assert(vw[vw.len() - 1] == value);
		if !(value@ <= old(self).value@) && !bits_eq(left_value, old(self).value) {
			let ov = old(self).window.view();
			let i = choose|i: int| 0 <= i < ov.len() && ov[i] == old(self).value;
			assert(i != 0);
			assert(vw[i - 1] == old(self).value);
		}
	}
//@hint chain 0
		invariant_except_break
			iter_at(it0__, &self.window, vw), vw.len() > 0, vw[vw.len() - 1] == value,
			(exists|i: int| 0 <= i < vw.len() && vw[i] == acc0__),
			(forall|j: int| it0__.remaining().len() <= j < vw.len() ==> (#[trigger] vw[j])@ >= acc0__@),
		ensures
			is_min(vw, acc0__),
		decreases it0__.remaining().len()
//@hint chain-start 0
		let ghost pre_it = it0__;
//@hint chain-item 0
		proof { lemma_iter_next(pre_it, it0__, &self.window, vw); }
//@hint before self.value = self.window.iter().fold
	proof { }
//@end
}

// ------------------------------------------------------------------ HighestLowestDelta
//@extract src/methods/highest_lowest.rs struct:HighestLowestDelta
//@end
impl HighestLowestDelta {
//@extract src/methods/highest_lowest.rs impl[Peekable<<Self as Method>::Output> for HighestLowestDelta]::peek pub
//@sig pub fn peek(&self) -> (r: ValueType)
	ensures r@ == self.highest@ - self.lowest@,
//@end
}
impl Method for HighestLowestDelta {
	type Params = PeriodType;
	type Input = ValueType;
	type Output = ValueType;
	open spec fn inv(&self) -> bool {
		self.window.wf() && self.window.cap() >= 1 && is_max(self.window.view(), self.highest) && is_min(self.window.view(), self.lowest)
	}
	open spec fn rejects(parameters: PeriodType) -> bool { parameters == 0 }
	open spec fn new_req(parameters: PeriodType, initial_value: &ValueType) -> bool { true }
	open spec fn fresh(parameters: PeriodType, initial_value: &ValueType, s: &Self) -> bool {
		s.window.view() =~= konst(parameters as nat, *initial_value) && s.highest == *initial_value && s.lowest == *initial_value
	}
	open spec fn input_ok(&self, x: &ValueType) -> bool { true }
	// exact selection: max - min of the last `length` inputs
	open spec fn step(pre: &Self, x: &ValueType, post: &Self, out: &ValueType) -> bool {
		&&& post.window.view() == pre.window.view().drop_first().push(*x)
		&&& is_max(post.window.view(), post.highest) && is_min(post.window.view(), post.lowest)
		&&& out@ == post.highest@ - post.lowest@
	}
//@extract src/methods/highest_lowest.rs impl[Method for HighestLowestDelta]::new
	ensures (r is Ok) == (length != 0 && length != PeriodType::MAX),
//@hint result
	proof { if r is Ok { let s = r->Ok_0.window.view(); lemma_cloned_konst(s, length as nat, value); assert(s[0] == value); } }
//@end
//@extract src/methods/highest_lowest.rs impl[Method for HighestLowestDelta]::next
//@sig fn next(&mut self, value__r: &Self::Input) -> (r: ValueType)
//@hint before let mut search
	broadcast use bits_axiom;
	let ghost vw = self.window.view();
	proof {
		assert(vw[vw.len() - 1] == value);
		let ov = old(self).window.view();
		if !(value@ >= old(self).highest@) && !bits_eq(left_value, old(self).highest) {
			let i = choose|i: int| 0 <= i < ov.len() && ov[i] == old(self).highest;
			assert(i != 0);
			assert(vw[i - 1] == old(self).highest);
		}
		if !(value@ <= old(self).lowest@) && !bits_eq(left_value, old(self).lowest) {
			let i = choose|i: int| 0 <= i < ov.len() && ov[i] == old(self).lowest;
			assert(i != 0);
			assert(vw[i - 1] == old(self).lowest);
		}
	}
//@hint chain 0
		invariant_except_break
			iter_at(it0__, &self.window, vw), vw.len() > 0, vw[vw.len() - 1] == value,
			(exists|i: int| 0 <= i < vw.len() && vw[i] == acc0__.0),
			(exists|i: int| 0 <= i < vw.len() && vw[i] == acc0__.1),
			(forall|j: int| it0__.remaining().len() <= j < vw.len() ==> (#[trigger] vw[j])@ >= acc0__.0@ && vw[j]@ <= acc0__.1@),
		ensures
			is_min(vw, acc0__.0), is_max(vw, acc0__.1),
		decreases it0__.remaining().len()
//@hint chain-start 0
		let ghost pre_it = it0__;
//@hint chain-item 0
		proof { lemma_iter_next(pre_it, it0__, &self.window, vw); }
//@end
}

// C08: exact constancy on a constant stream
pub proof fn highest_const_step(pre: Highest, v: R, post: Highest, out: R)
	requires pre.inv(), pre.window.view() =~= konst(pre.window.view().len(), v), Highest::step(&pre, &v, &post, &out)
	ensures post.window.view() =~= konst(pre.window.view().len(), v), out == v
{
	assert(post.window.view() =~= konst(pre.window.view().len(), v));
}
pub proof fn lowest_const_step(pre: Lowest, v: R, post: Lowest, out: R)
	requires pre.inv(), pre.window.view() =~= konst(pre.window.view().len(), v), Lowest::step(&pre, &v, &post, &out)
	ensures post.window.view() =~= konst(pre.window.view().len(), v), out == v
{
	assert(post.window.view() =~= konst(pre.window.view().len(), v));
}
pub proof fn delta_const_step(pre: HighestLowestDelta, v: R, post: HighestLowestDelta, out: R)
	requires pre.inv(), pre.window.view() =~= konst(pre.window.view().len(), v), HighestLowestDelta::step(&pre, &v, &post, &out)
	ensures post.window.view() =~= konst(pre.window.view().len(), v), out@ == 0real
{
	assert(post.window.view() =~= konst(pre.window.view().len(), v));
}
//@export-end
} // verus!
fn main() {}
