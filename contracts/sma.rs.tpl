//@unit sma
//@include head.rs

//@export-begin
//@extract src/methods/sma.rs struct:SMA
//@end

impl SMA {
//@extract src/methods/sma.rs impl[SMA]::get_window
	ensures r == &self.window,
//@end
//@extract src/methods/sma.rs impl[SMA]::get_divider
	ensures r == self.divider,
//@end
//@extract src/methods/sma.rs impl[Peekable<<Self as Method>::Output> for SMA]::peek pub
//@sig pub fn peek(&self) -> (r: ValueType)
	ensures r == self.value,
//@end
	pub open spec fn n(&self) -> real { self.window.cap() as real }
	// documented formula: the arithmetic mean of the last `length` inputs
	pub open spec fn def(view: Seq<R>) -> real { sum(view) / (view.len() as real) }
}

impl Method for SMA {
	type Params = PeriodType;
	type Input = ValueType;
	type Output = ValueType;

	open spec fn inv(&self) -> bool {
		&&& self.window.wf() && self.window.cap() >= 1
		&&& self.divider@ * self.n() == 1real
		&&& self.value@ == SMA::def(self.window.view())
	}
	open spec fn rejects(parameters: PeriodType) -> bool { parameters == 0 }
	open spec fn new_req(parameters: PeriodType, initial_value: &ValueType) -> bool { true }
	open spec fn fresh(parameters: PeriodType, initial_value: &ValueType, s: &Self) -> bool {
		s.window.view() =~= konst(parameters as nat, *initial_value) && s.value@ == initial_value@
	}
	open spec fn input_ok(&self, x: &ValueType) -> bool { true }
	open spec fn step(pre: &Self, x: &ValueType, post: &Self, out: &ValueType) -> bool {
		&&& post.window.view() == pre.window.view().drop_first().push(*x)
		&&& out@ == SMA::def(post.window.view())
		&&& out == post.value
	}

//@extract src/methods/sma.rs impl[Method for SMA]::new
	ensures (r is Ok) == (length != 0 && length != PeriodType::MAX),
//@hint before match length
	proof {
		if length > 0 {
			let n = length as real;
			assert(rdiv(1real, n) * n == 1real) by(nonlinear_arith) requires n >= 1real, rdiv(1real, n) == 1real / n;
		}
	}
//@hint result
	proof {
		if r is Ok {
			let s = r->Ok_0;
			lemma_cloned_konst(s.window.view(), length as nat, value);
			lemma_sum_konst(length as nat, value);
			let n = length as real;
			assert((n * value@) / n == value@) by(nonlinear_arith) requires n >= 1real;
		}
	}
//@end

//@extract src/methods/sma.rs impl[Method for SMA]::next
//@hint before self.value +=
	proof {
		lemma_sum_slide(old(self).window.view(), value);
		let n = self.n();
		let so = sum(old(self).window.view());
		let d = self.divider@;
		assert(so / n + (value@ - prev_value@) * d == (so - prev_value@ + value@) / n) by(nonlinear_arith)
			requires d * n == 1real, n >= 1real;
	}
//@end
}

//@export-end

// C08: the construction value acts as a constant prehistory (one inductive step over the contracts)
pub proof fn sma_const_step(pre: SMA, v: R, post: SMA, out: R)
	requires pre.inv(), pre.window.view() =~= konst(pre.window.view().len(), v), SMA::step(&pre, &v, &post, &out)
	ensures post.window.view() =~= konst(pre.window.view().len(), v), out@ == v@
{
	let n = pre.window.view().len();
	lemma_sum_konst(n, v);
	assert((n as real * v@) / (n as real) == v@) by(nonlinear_arith) requires n >= 1;
}

} // verus!
fn main() {}
