//@unit hlc
//@include head.rs
//@import ohlcv.rs.tpl
//@export-begin
// ---- indicators/mod.rs: the (high, low, close) snapshot kept by EaseOfMovement
//@extract src/indicators/mod.rs struct:HLC keepderive
//@end
impl HLC {
//@extract src/indicators/mod.rs impl[HLC]::from pub
	ensures r.high == src.high_s() && r.low == src.low_s() && r.close == src.close_s(),
//@end
}
impl OHLCV for HLC {
	open spec fn open_s(&self) -> ValueType { nan_value() }
	open spec fn high_s(&self) -> ValueType { self.high }
	open spec fn low_s(&self) -> ValueType { self.low }
	open spec fn close_s(&self) -> ValueType { self.close }
	open spec fn volume_s(&self) -> ValueType { nan_value() }
//@extract src/indicators/mod.rs impl[OHLCV for HLC]::open
//@end
//@extract src/indicators/mod.rs impl[OHLCV for HLC]::high
//@end
//@extract src/indicators/mod.rs impl[OHLCV for HLC]::low
//@end
//@extract src/indicators/mod.rs impl[OHLCV for HLC]::close
//@end
//@extract src/indicators/mod.rs impl[OHLCV for HLC]::volume
//@end
}
impl Candle {
//@extract src/core/candles.rs impl[Candle]::from pub
	ensures r.open == src.open_s() && r.high == src.high_s() && r.low == src.low_s() && r.close == src.close_s() && r.volume == src.volume_s(),
//@end
}

//@export-end
} // verus!
fn main() {}
