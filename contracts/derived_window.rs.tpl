//@unit derived_window
//@include head.rs
//@export-begin


// ------------------------------------------------------------------ LinearVolatility
//@extract src/methods/volatility.rs struct:LinearVolatility
//@end
impl Method for LinearVolatility {
	type Params = PeriodType;
	type Input = ValueType;
	type Output = ValueType;
	// the window holds the last `length` absolute one-step changes
	open spec fn inv(&self) -> bool {
		&&& self.window.wf() && self.window.cap() >= 1
		&&& self.volatility@ == fsum(self.window.view(), id_fn())
		&&& forall|i: int| 0 <= i < self.window.cap() ==> (#[trigger] self.window.view()[i])@ >= 0real
	}
	open spec fn rejects(parameters: PeriodType) -> bool { parameters == 0 }
	open spec fn new_req(parameters: PeriodType, initial_value: &ValueType) -> bool { true }
	open spec fn fresh(parameters: PeriodType, initial_value: &ValueType, s: &Self) -> bool {
		&&& s.window.cap() == parameters as int && s.prev_value == *initial_value && s.volatility@ == 0real
		&&& forall|i: int| 0 <= i < parameters as int ==> (#[trigger] s.window.view()[i])@ == 0real
	}
	open spec fn input_ok(&self, x: &ValueType) -> bool { true }
	// documented: Σ |x(t-i) - x(t-i-1)| over the last `length` steps
	open spec fn step(pre: &Self, x: &ValueType, post: &Self, out: &ValueType) -> bool {
		&&& post.prev_value == *x
		&&& post.window.view().drop_last() =~= pre.window.view().drop_first()
		&&& post.window.view().len() == pre.window.view().len()
		&&& post.window.view().last()@ == rabs(x@ - pre.prev_value@)
		&&& out@ == fsum(post.window.view(), id_fn())
		&&& out@ >= 0real
	}
//@extract src/methods/volatility.rs impl[Method for LinearVolatility]::new
//@hint result
	proof {
		if r is Ok {
			let s = r->Ok_0.window.view();
			let z = s[0];
			assert(s =~= Seq::new(length as nat, |i: int| z));
			lemma_fsum_konst(length as nat, z, id_fn());
			assert((length as real) * 0real == 0real) by(nonlinear_arith);
		}
	}
//@end
//@extract src/methods/volatility.rs impl[Method for LinearVolatility]::next
//@hint before self.volatility +=
	proof {
		lemma_fsum_slide(old(self).window.view(), derivative, id_fn());
		lemma_fsum_nonneg(self.window.view(), id_fn());
	}
//@end
}

// ------------------------------------------------------------------ Vidya
//@extract src/methods/vidya.rs struct:Vidya
//@end
impl Method for Vidya {
	type Params = PeriodType;
	type Input = ValueType;
	type Output = ValueType;
	// the window holds the last `length` one-step changes; up_sum/dn_sum are the sums of their positive/negative parts
	open spec fn inv(&self) -> bool {
		&&& self.window.wf() && self.window.cap() >= 1
		&&& self.up_sum@ == fsum(self.window.view(), pos_fn())
		&&& self.dn_sum@ == fsum(self.window.view(), neg_fn())
		&&& 0real < self.f@ <= 1real
	}
	open spec fn rejects(parameters: PeriodType) -> bool { parameters == 0 }
	open spec fn new_req(parameters: PeriodType, initial_value: &ValueType) -> bool { true }
	open spec fn fresh(parameters: PeriodType, initial_value: &ValueType, s: &Self) -> bool {
		&&& s.window.cap() == parameters as int && s.last_input == *initial_value && s.last_output == *initial_value
		&&& s.f@ * ((parameters as real) + 1real) == 2real
		&&& forall|i: int| 0 <= i < parameters as int ==> (#[trigger] s.window.view()[i])@ == 0real
	}
	open spec fn input_ok(&self, x: &ValueType) -> bool { true }
	// documented: an EMA whose smoothing 2/(n+1) is scaled by |CMO| of the last n changes, CMO = (Σup - Σdown)/(Σup + Σdown)
	open spec fn step(pre: &Self, x: &ValueType, post: &Self, out: &ValueType) -> bool {
		let up = fsum(post.window.view(), pos_fn());
		let dn = fsum(post.window.view(), neg_fn());
		&&& post.last_input == *x && post.f == pre.f && post.last_output == *out
		&&& post.window.view().drop_last() =~= pre.window.view().drop_first()
		&&& post.window.view().len() == pre.window.view().len()
		&&& post.window.view().last()@ == x@ - pre.last_input@
		&&& up >= 0real && dn >= 0real
		&&& (up + dn != 0real ==> {
				let k = pre.f@ * rabs((up - dn) / (up + dn));
				out@ == x@ * k + (1real - k) * pre.last_output@ && 0real <= k <= 1real })
		&&& (up + dn == 0real ==> out@ == x@)
	}
//@extract src/methods/vidya.rs impl[Method for Vidya]::new
//@hint before match length
	proof {
		if 0 < length < PeriodType::MAX {
			let n1 = (length as real) + 1real;
			assert(((1 + length) as PeriodType) as real == n1);
			assert(rdiv(2real, n1) * n1 == 2real && 0real < rdiv(2real, n1) <= 1real) by(nonlinear_arith)
				requires n1 >= 2real, rdiv(2real, n1) == 2real / n1;
		}
	}
//@hint result
	proof {
		if r is Ok {
			let s = r->Ok_0.window.view();
			let z = s[0];
			assert(s =~= Seq::new(length as nat, |i: int| z));
			lemma_fsum_konst(length as nat, z, pos_fn());
			lemma_fsum_konst(length as nat, z, neg_fn());
			assert((length as real) * 0real == 0real) by(nonlinear_arith);
		}
	}
//@end
//@extract src/methods/vidya.rs impl[Method for Vidya]::next
//@hint before self.up_sum -= left_change
	proof {
		lemma_fsum_slide(old(self).window.view(), change, pos_fn());
		lemma_fsum_slide(old(self).window.view(), change, neg_fn());
		assert forall|i: int| 0 <= i < self.window.view().len() implies pos_fn()(#[trigger] self.window.view()[i]) >= 0real by {}
		assert forall|i: int| 0 <= i < self.window.view().len() implies neg_fn()(#[trigger] self.window.view()[i]) >= 0real by {}
		lemma_fsum_nonneg(self.window.view(), pos_fn());
		lemma_fsum_nonneg(self.window.view(), neg_fn());
		let (l, c) = (left_change@, change@);
		assert(l * 1real == l && l * 0real == 0real && c * 1real == c && c * 0real == 0real) by(nonlinear_arith);
	}
//@hint before self.last_output = if
	proof {
		let (up, dn, f) = (self.up_sum@, self.dn_sum@, self.f@);
		if up + dn != 0real {
			let q = (up - dn) / (up + dn);
			assert(-1real <= q <= 1real) by(nonlinear_arith) requires up >= 0real, dn >= 0real, up + dn != 0real, q == (up - dn) / (up + dn);
			assert(0real <= f * rabs(q) <= 1real) by(nonlinear_arith) requires 0real < f <= 1real, 0real <= rabs(q) <= 1real;
		}
	}
//@end
}
//@export-end
} // verus!
fn main() {}
