//@unit indicator_over
//@include head.rs
//@import ohlcv.rs.tpl
//@import indicator_base.rs.tpl
//@include indicator_traits.rs

// the indicator traits with the contract of one step; `over` bodies are the repository's (core/indicator/{instance,config}.rs)
pub trait IndicatorInstance: Sized {
	spec fn inv(&self) -> bool;
	spec fn step<T: OHLCV>(pre: &Self, c: &T, post: &Self, out: &IndicatorResult) -> bool;
//@extract src/core/indicator/instance.rs trait[IndicatorInstance]::next
	requires old(self).inv()
	ensures final(self).inv(), Self::step(old(self), candle, final(self), &r),
//@end
}
// element-by-element run of an indicator: a chain of states linked by `step`, one result per candle
pub open spec fn ichain<T: OHLCV, I: IndicatorInstance>(st: Seq<I>, inputs: Seq<T>, outs: Seq<IndicatorResult>) -> bool {
	&&& st.len() == inputs.len() + 1 && outs.len() == inputs.len()
	&&& forall|i: int| 0 <= i < inputs.len() ==> (#[trigger] st[i]).inv() && I::step(&st[i], &inputs[i], &st[i + 1], &outs[i])
}
pub open spec fn irun<T: OHLCV, I: IndicatorInstance>(pre: I, inputs: Seq<T>, outs: Seq<IndicatorResult>, post: I) -> bool {
	exists|st: Seq<I>| #[trigger] ichain(st, inputs, outs) && st[0] == pre && st.last() == post
}
pub proof fn lemma_irun_empty<T: OHLCV, I: IndicatorInstance>(pre: I)
	ensures irun(pre, Seq::<T>::empty(), Seq::<IndicatorResult>::empty(), pre)
{
	let st = seq![pre];
	assert(ichain(st, Seq::<T>::empty(), Seq::<IndicatorResult>::empty()));
	assert(st[0] == pre && st.last() == pre);
}
pub proof fn lemma_irun_extend<T: OHLCV, I: IndicatorInstance>(pre: I, inputs: Seq<T>, outs: Seq<IndicatorResult>, mid: I, x: T, post: I, out: IndicatorResult)
	requires irun(pre, inputs, outs, mid), mid.inv(), I::step(&mid, &x, &post, &out)
	ensures irun(pre, inputs.push(x), outs.push(out), post)
{
	let st = choose|st: Seq<I>| #[trigger] ichain(st, inputs, outs) && st[0] == pre && st.last() == mid;
	let st2 = st.push(post);
	assert forall|i: int| 0 <= i < inputs.push(x).len() implies (#[trigger] st2[i]).inv() && I::step(&st2[i], &inputs.push(x)[i], &st2[i + 1], &outs.push(out)[i]) by {
		if i < inputs.len() { assert(st2[i] == st[i] && st2[i + 1] == st[i + 1]); } else { assert(st2[i] == mid && st2[i + 1] == post); }
	}
	assert(ichain(st2, inputs.push(x), outs.push(out)));
	assert(st2[0] == pre && st2.last() == post);
}

// `over` lives in an extension trait here: Verus rejects a provided method whose contract mentions a spec fn that is generic over the
// trait being declared (R12). Bodies unchanged.
pub trait IndicatorInstanceOver: IndicatorInstance {
//@extract src/core/indicator/instance.rs trait[IndicatorInstance]::over
//@sig fn over<T: OHLCV>(&mut self, inputs: &[T]) -> (r: Vec<IndicatorResult>)
	requires old(self).inv()
	ensures final(self).inv(), r@.len() == inputs@.len(), irun(*old(self), inputs@, r@, *final(self)),
//@replace let inputs_ref = inputs.as_ref(); ==> let inputs_ref = inputs;
//@src inputs_ref.iter() ==> SliceIt::new(inputs_ref)
//@hint before inputs_ref.iter()
	proof { lemma_irun_empty::<T, Self>(*self); assert(inputs@.subrange(0, 0) =~= Seq::<T>::empty()); }
//@hint chain 0
		invariant_except_break
			it0__.inv(), it0__.s == inputs, self.inv(),
			acc0__@.len() == it0__.i,
			irun(*old(self), inputs@.subrange(0, it0__.i as int), acc0__@, *self),
		ensures
			irun(*old(self), inputs@, acc0__@, *self), self.inv(), acc0__@.len() == inputs@.len(),
		decreases inputs@.len() - it0__.i
//@hint chain-start 0
		let ghost mid = *self;
		let ghost outs0 = acc0__@;
		proof { assert(inputs@.subrange(0, inputs@.len() as int) =~= inputs@); }
//@hint chain-end 0
		proof {
			let i = it0__.i as int;
			lemma_irun_extend(*old(self), inputs@.subrange(0, i - 1), outs0, mid, inputs@[i - 1], *self, item__);
			assert(inputs@.subrange(0, i - 1).push(inputs@[i - 1]) =~= inputs@.subrange(0, i));
		}
//@end
}
impl<I: IndicatorInstance> IndicatorInstanceOver for I {}

pub trait IndicatorConfig: Clone {
	type Instance: IndicatorInstance;
	spec fn valid(&self) -> bool;
	spec fn seeded<T: OHLCV>(&self, c: &T, inst: &Self::Instance) -> bool;
//@extract src/core/indicator/config.rs trait[IndicatorConfig]::init
	ensures !self.valid() ==> r is Err, r is Ok ==> r->Ok_0.inv() && self.seeded(initial_value, &r->Ok_0),
//@end
}
pub trait IndicatorConfigOver: IndicatorConfig {
//@extract src/core/indicator/config.rs trait[IndicatorConfig]::over
//@sig fn over<T: OHLCV>(self, inputs: &[T]) -> (r: Result<Vec<IndicatorResult>, Error>)
	ensures
		inputs@.len() == 0 ==> r is Ok && r->Ok_0@.len() == 0,
		// exactly one result per candle, produced by an instance initialised with the first candle and stepped over all of them
		r is Ok && inputs@.len() > 0 ==> r->Ok_0@.len() == inputs@.len()
			&& exists|s0: Self::Instance, s1: Self::Instance| #[trigger] irun(s0, inputs@, r->Ok_0@, s1) && self.seeded(&inputs@[0], &s0),
		inputs@.len() > 0 && !self.valid() ==> r is Err,
//@replace let inputs_ref = inputs.as_ref(); ==> let inputs_ref = inputs;
//@replace Ok(IndicatorInstance::over(&mut state, inputs)) ==> { let ghost s0 = state; let out = state.over(inputs); let rr: Result<Vec<IndicatorResult>, Error> = Ok(out); proof { assert(irun(s0, inputs@, rr->Ok_0@, state) && self.seeded(&inputs@[0], &s0)); } rr }
//@end
}
impl<C: IndicatorConfig> IndicatorConfigOver for C {}
} // verus!
fn main() {}
