//@unit smm
//@include head.rs
//@include sorted_lib.rs
use std::cmp::Ordering;

//@export-begin
// slice ranges, as smm::get uses them through SliceIndex (R12: the SliceIndex-generic `get` is instantiated per index kind)
#[verifier::external_body]
pub fn slice_from(s: &[ValueType], a: usize) -> (r: &[ValueType])
	requires a <= s@.len()
	ensures r@ == s@.subrange(a as int, s@.len() as int)
{ &s[a..] }
#[verifier::external_body]
pub fn slice_to(s: &[ValueType], b: usize) -> (r: &[ValueType])
	requires b <= s@.len()
	ensures r@ == s@.subrange(0, b as int)
{ &s[..b] }

// smm::get at a `usize` index: both cfg variants (checked and unchecked) under the same contract
//@extract src/methods/smm.rs fn:get nth=0 rename=get_unchecked_variant
//@sig pub fn get_unchecked_variant(slice: &[ValueType], index: usize) -> (r: &ValueType)
	requires index < slice@.len()
	ensures *r == slice@[index as int],
//@end
//@extract src/methods/smm.rs fn:get nth=1 rename=get_checked_variant
//@sig pub fn get_checked_variant(slice: &[ValueType], index: usize) -> (r: &ValueType)
	requires index < slice@.len()
	ensures *r == slice@[index as int],
//@end
pub fn get_at(slice: &[ValueType], index: usize) -> (r: &ValueType)
	requires index < slice@.len()
	ensures *r == slice@[index as int]
{
	if unsafe_performance() { get_unchecked_variant(slice, index) } else { get_checked_variant(slice, index) }
}
// smm::get called with a plain index anywhere else in the extracted code resolves to the same pair of variants
pub fn get(slice: &[ValueType], index: usize) -> (r: &ValueType)
	requires index < slice@.len()
	ensures *r == slice@[index as int]
{
	get_at(slice, index)
}

pub open spec fn contains_num(s: Seq<R>, v: real) -> bool { exists|i: int| 0 <= i < s.len() && (#[trigger] s[i])@ == v }
// an insertion point: everything before is <= v, everything from there on is >= v
pub open spec fn ins_point(s: Seq<R>, k: int, v: real) -> bool {
	&&& 0 <= k <= s.len()
	&&& forall|i: int| 0 <= i < k ==> (#[trigger] s[i])@ <= v
	&&& forall|i: int| k <= i < s.len() ==> (#[trigger] s[i])@ >= v
}

// next_half with its function pointer resolved to find_index (the recursion is find_index <-> next_half)
//@extract src/methods/smm.rs fn:next_half rename=next_half_fi
//@sig pub fn next_half_fi(value: ValueType, slice: &[ValueType], padding: usize) -> (r: usize)
	requires slice@.len() >= 1, sorted(slice@), contains_num(slice@, value@), padding + slice@.len() <= usize::MAX
	ensures padding <= r < padding + slice@.len(), slice@[r - padding]@ == value@,
	decreases slice@.len(), 0int
//@replace &value == get(slice, half) ==> value == *get_at(slice, half)
//@replace &value > get(slice, half) ==> value > *get_at(slice, half)
//@replace f(value, get(slice, (half + 1)..), padding + half + 1) ==> find_index(value, slice_from(slice, half + 1), padding + half + 1)
//@replace f(value, get(slice, ..half), padding) ==> find_index(value, slice_to(slice, half), padding)
//@hint before if
	proof {
		let s = slice@;
		let h = half as int;
		let w = choose|i: int| 0 <= i < s.len() && (#[trigger] s[i])@ == value@;
		if value@ > s[h]@ {
			assert(w > h);
			assert(s.subrange(h + 1, s.len() as int)[w - h - 1] == s[w]);
			assert(sorted(s.subrange(h + 1, s.len() as int)));
		} else if value@ != s[h]@ {
			assert(w < h);
			assert(s.subrange(0, h)[w] == s[w]);
			assert(sorted(s.subrange(0, h)));
		}
	}
//@end
//@extract src/methods/smm.rs fn:find_index
	requires slice@.len() >= 1, sorted(slice@), contains_num(slice@, value@), padding + slice@.len() <= usize::MAX
	ensures padding <= r < padding + slice@.len(), slice@[r - padding]@ == value@,
	decreases slice@.len(), 1int
//@replace next_half(value, slice, padding, find_index) ==> next_half_fi(value, slice, padding)
//@end

// next_half with its function pointer resolved to find_insert_index
//@extract src/methods/smm.rs fn:next_half rename=next_half_fii
//@sig pub fn next_half_fii(value: ValueType, slice: &[ValueType], padding: usize) -> (r: usize)
	requires slice@.len() >= 1, sorted(slice@), padding + slice@.len() <= usize::MAX
	ensures padding <= r <= padding + slice@.len(), ins_point(slice@, r - padding, value@),
	decreases slice@.len(), 0int
//@replace &value == get(slice, half) ==> value == *get_at(slice, half)
//@replace &value > get(slice, half) ==> value > *get_at(slice, half)
//@replace f(value, get(slice, (half + 1)..), padding + half + 1) ==> find_insert_index(value, slice_from(slice, half + 1), padding + half + 1)
//@replace f(value, get(slice, ..half), padding) ==> find_insert_index(value, slice_to(slice, half), padding)
//@hint before if
	proof {
		let s = slice@;
		let h = half as int;
		assert(sorted(s.subrange(h + 1, s.len() as int)));
		assert(sorted(s.subrange(0, h)));
	}
//@hint result
	proof {
		let s = slice@;
		let h = half as int;
		let k = r - padding;
		if value@ == s[h]@ {
			assert(k == h);
		} else if value@ > s[h]@ {
			let t = s.subrange(h + 1, s.len() as int);
			assert forall|i: int| 0 <= i < k implies (#[trigger] s[i])@ <= value@ by { if i > h { assert(t[i - h - 1] == s[i]); } }
			assert forall|i: int| k <= i < s.len() implies (#[trigger] s[i])@ >= value@ by { assert(t[i - h - 1] == s[i]); }
		} else {
			let t = s.subrange(0, h);
			assert forall|i: int| 0 <= i < k implies (#[trigger] s[i])@ <= value@ by { assert(t[i] == s[i]); }
			assert forall|i: int| k <= i < s.len() implies (#[trigger] s[i])@ >= value@ by { if i < h { assert(t[i] == s[i]); } }
		}
	}
//@end
//@extract src/methods/smm.rs fn:find_insert_index
	requires sorted(slice@), padding + slice@.len() <= usize::MAX
	ensures padding <= r <= padding + slice@.len(), ins_point(slice@, r - padding, value@),
	decreases slice@.len(), 1int
//@replace next_half(value, slice, padding, find_insert_index) ==> next_half_fii(value, slice, padding)
//@end

//@extract src/methods/smm.rs struct:SMM
//@end
// m is the median of view: the mean of the two middle elements (the same one for odd length) of a sorted arrangement of view's values
pub open spec fn is_median(view: Seq<R>, m: real) -> bool {
	let n = view.len() as int;
	exists|s: Seq<R>| sorted(s) && #[trigger] perm(s, view)
		&& m == (s[n / 2]@ + s[if n % 2 == 0 { n / 2 - 1 } else { n / 2 }]@) / 2real
}
pub open spec fn smm_target(s0: Seq<R>, oi: int, adj: int, v: R) -> Seq<R> { s0.remove(oi).insert(adj, v) }
// removing the leaving value and inserting the new one at the (adjusted) insertion point keeps the slice sorted
pub proof fn lemma_smm_target(s0: Seq<R>, oi: int, ins: int, adj: int, v: R)
	requires sorted(s0), 0 <= oi < s0.len(), ins_point(s0, ins, v@), adj == ins - (if oi < ins { 1int } else { 0int })
	ensures 0 <= adj < s0.len(), sorted(smm_target(s0, oi, adj, v)), smm_target(s0, oi, adj, v).len() == s0.len()
{
	let t = s0.remove(oi);
	let r = t.insert(adj, v);
	assert forall|i: int| 0 <= i < t.len() implies #[trigger] t[i] == (if i < oi { s0[i] } else { s0[i + 1] }) by {}
	assert forall|i: int| 0 <= i < adj implies (#[trigger] t[i])@ <= v@ by {}
	assert forall|i: int| adj <= i < t.len() implies (#[trigger] t[i])@ >= v@ by {}
	assert forall|i: int, j: int| 0 <= i < j < r.len() implies r[i]@ <= r[j]@ by {
		let a = if i < adj { t[i] } else if i == adj { v } else { t[i - 1] };
		let b = if j < adj { t[j] } else if j == adj { v } else { t[j - 1] };
		assert(r[i] == a && r[j] == b);
	}
}
// the slice after the block move and before the new value is written at `adj`
pub open spec fn shifted(s0: Seq<R>, oi: int, adj: int) -> Seq<R> {
	Seq::new(s0.len(), |i: int| if adj > oi && oi <= i < adj { s0[i + 1] } else if adj < oi && adj < i <= oi { s0[i - 1] } else { s0[i] })
}
pub proof fn lemma_shifted_target(s0: Seq<R>, oi: int, adj: int, v: R)
	requires 0 <= oi < s0.len(), 0 <= adj < s0.len()
	ensures shifted(s0, oi, adj).update(adj, v) =~= smm_target(s0, oi, adj, v)
{
	let t = s0.remove(oi);
	let r = t.insert(adj, v);
	let q = shifted(s0, oi, adj).update(adj, v);
	assert forall|i: int| 0 <= i < s0.len() implies #[trigger] q[i] == r[i] by {
		let ti = if i < adj { t[i] } else if i == adj { v } else { t[i - 1] };
		assert(r[i] == ti);
	}
}
pub proof fn lemma_sel(a: int, b: int)
	requires b == 0 || b == 1
	ensures a * b == (if b == 1 { a } else { 0 })
{
	assert(a * b == (if b == 1 { a } else { 0 })) by(nonlinear_arith) requires b == 0 || b == 1;
}
impl SMM {
	pub open spec fn n(&self) -> int { self.window.cap() }
	pub open spec fn inv(&self) -> bool {
		&&& self.window.wf() && self.window.cap() >= 1
		&&& self.slice@.len() == self.n() && sorted(self.slice@) && perm(self.slice@, self.window.view())
		&&& self.half as int == self.n() / 2
		&&& self.half_m1 as int == (if self.n() % 2 == 0 { self.n() / 2 - 1 } else { self.n() / 2 })
	}
//@extract src/methods/smm.rs impl[SMM]::get_window
	ensures r == &self.window,
//@end
//@extract src/methods/smm.rs impl[Peekable<<Self as Method>::Output> for SMM]::peek pub
//@sig pub fn peek(&self) -> (r: ValueType)
	requires self.inv()
	ensures is_median(self.window.view(), r@),
		r@ == (self.slice@[self.half as int]@ + self.slice@[self.half_m1 as int]@) / 2real,
//@replaceall get(&self.slice, ==> get_at(&self.slice,
//@hint result
	proof { assert(perm(self.slice@, self.window.view())); }
//@end
}
impl Method for SMM {
	type Params = PeriodType;
	type Input = ValueType;
	type Output = ValueType;
	open spec fn inv(&self) -> bool { SMM::inv(self) }
	open spec fn rejects(parameters: PeriodType) -> bool { parameters == 0 }
	open spec fn new_req(parameters: PeriodType, initial_value: &ValueType) -> bool { true }
	open spec fn fresh(parameters: PeriodType, initial_value: &ValueType, s: &Self) -> bool {
		s.window.view() =~= konst(parameters as nat, *initial_value)
	}
	open spec fn input_ok(&self, x: &ValueType) -> bool { true }
	// exact selection (up to the sign of zero): the median of the last `length` inputs
	open spec fn step(pre: &Self, x: &ValueType, post: &Self, out: &ValueType) -> bool {
		&&& post.window.view() == pre.window.view().drop_first().push(*x)
		&&& is_median(post.window.view(), out@)
	}
//@extract src/methods/smm.rs impl[Method for SMM]::new
	ensures (r is Ok) == (length != 0 && length != PeriodType::MAX),
//@hint result
	proof {
		if r is Ok {
			let s = r->Ok_0;
			lemma_cloned_konst(s.window.view(), length as nat, value);
			lemma_cloned_konst(s.slice@, length as nat, value);
		}
	}
//@end
//@extract src/methods/smm.rs impl[Method for SMM]::next
//@replace self.slice.copy_within((old_index + 1)..=index, old_index) ==> slice_copy_within(&mut self.slice, old_index + 1, index + 1, old_index)
//@replace self.slice.copy_within(index..old_index, index + 1) ==> slice_copy_within(&mut self.slice, index, old_index, index + 1)
//@replace std::ptr::copy( self.slice.as_ptr().add(start), self.slice.as_mut_ptr().add(dest), count, ); ==> slice_copy_within(&mut self.slice, start, start + count, dest);
//@hint start
	// the window slide as a multiset update, available at every exit of the function (an early return that leaves the slice alone needs only this)
	broadcast use lemma_cnt_slide;
	// bit-identical values are numerically equal (a fast path that compares bit patterns needs only this)
	broadcast use bits_axiom;
//@hint before let old_index
	let ghost s0 = self.slice@;
	let ghost nv = self.window.view();
	let ghost n = self.n();
	proof {
		let ov = old(self).window.view();
		assert(old_value == ov[0]);
		lemma_cnt_member(ov, 0);
		assert(cnt(s0, old_value@) >= 1);
		lemma_cnt_exists(s0, old_value@);
	}
//@hint before let index = index -
	let ghost ins = index as int;
//@hint before if cfg!(feature
	proof {
		lemma_smm_target(s0, old_index as int, ins, index as int, value);
		let tgt = smm_target(s0, old_index as int, index as int, value);
		assert forall|x: real| cnt(tgt, x) == cnt(nv, x) by {
			lemma_cnt_remove(s0, old_index as int, x);
			lemma_cnt_insert(s0.remove(old_index as int), index as int, value, x);
			lemma_cnt_slide(old(self).window.view(), value, x);
		}
	}
//@hint before let start =
	proof {
		let (oi, ix, ia) = (old_index as int, index as int, is_after as int);
		lemma_sel(oi + 1, ia); lemma_sel(ix, 1 - ia); lemma_sel(oi, ia); lemma_sel(ix + 1, 1 - ia);
		lemma_sel(index.saturating_sub(old_index) as int, ia); lemma_sel(old_index.saturating_sub(index) as int, 1 - ia);
	}
//@hint before unsafe { let q
	proof { assert(self.slice@ =~= shifted(s0, old_index as int, index as int)); }
//@hint before self.slice[index] = value;
	proof { assert(self.slice@ =~= shifted(s0, old_index as int, index as int)); }
//@hint before self.peek()
	proof {
		lemma_shifted_target(s0, old_index as int, index as int, value);
		let tgt = smm_target(s0, old_index as int, index as int, value);
		assert(self.slice@ =~= tgt);
	}
//@end
}

// C08: exact constancy on a constant stream
pub proof fn smm_const_step(pre: SMM, v: R, post: SMM, out: R)
	requires pre.inv(), pre.window.view() =~= konst(pre.window.view().len(), v), SMM::step(&pre, &v, &post, &out)
	ensures post.window.view() =~= konst(pre.window.view().len(), v), out@ == v@
{
	let n = pre.window.view().len();
	let pv = post.window.view();
	assert(pv =~= konst(n, v));
	let s = choose|s: Seq<R>| sorted(s) && #[trigger] perm(s, pv)
		&& out@ == (s[(n as int) / 2]@ + s[if (n as int) % 2 == 0 { (n as int) / 2 - 1 } else { (n as int) / 2 }]@) / 2real;
	// every element of a numeric permutation of [v; n] equals v
	assert forall|i: int| 0 <= i < s.len() implies (#[trigger] s[i])@ == v@ by {
		lemma_cnt_member(s, i);
		assert(cnt(pv, s[i]@) >= 1);
		lemma_cnt_exists(pv, s[i]@);
	}
}
// C15: the median lies between the smallest and the largest of the values it has been given
pub proof fn smm_range(view: Seq<R>, m: real, lo: real, hi: real)
	requires view.len() >= 1, is_median(view, m), forall|i: int| 0 <= i < view.len() ==> lo <= (#[trigger] view[i])@ <= hi
	ensures lo <= m <= hi
{
	let n = view.len() as int;
	let s = choose|s: Seq<R>| sorted(s) && #[trigger] perm(s, view) && m == (s[n / 2]@ + s[if n % 2 == 0 { n / 2 - 1 } else { n / 2 }]@) / 2real;
	assert forall|i: int| 0 <= i < s.len() implies lo <= (#[trigger] s[i])@ <= hi by {
		lemma_cnt_member(s, i);
		lemma_cnt_exists(view, s[i]@);
	}
}
//@export-end
} // verus!
fn main() {}