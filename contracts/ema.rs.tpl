//@unit ema
//@include head.rs

//@export-begin
// ------------------------------------------------------------------ EMA
//@extract src/methods/ema.rs struct:EMA keepderive
//@end
impl EMA {
//@extract src/methods/ema.rs impl[Peekable<<Self as Method>::Output> for EMA]::peek pub
//@sig pub fn peek(&self) -> (r: ValueType)
	ensures r == self.value,
//@end
}
impl Method for EMA {
	type Params = PeriodType;
	type Input = ValueType;
	type Output = ValueType;
	// smoothing factor in (0, 1]
	open spec fn inv(&self) -> bool { 0real < self.alpha@ <= 1real }
	open spec fn rejects(parameters: PeriodType) -> bool { parameters == 0 }
	open spec fn new_req(parameters: PeriodType, initial_value: &ValueType) -> bool { true }
	// documented smoothing: alpha = 2 / (length + 1)
	open spec fn fresh(parameters: PeriodType, initial_value: &ValueType, s: &Self) -> bool {
		s.alpha@ * ((parameters as real) + 1real) == 2real && s.value == *initial_value
	}
	open spec fn input_ok(&self, x: &ValueType) -> bool { true }
	// documented recurrence: ema' = ema + alpha * (x - ema)
	open spec fn step(pre: &Self, x: &ValueType, post: &Self, out: &ValueType) -> bool {
		&&& post.alpha == pre.alpha
		&&& out@ == pre.value@ + pre.alpha@ * (x@ - pre.value@)
		&&& post.value == *out
	}
//@extract src/methods/ema.rs impl[Method for EMA]::new
	ensures (r is Ok) == (length != 0),
//@hint before match length
	proof {
		if length > 0 {
			let n1 = (length as real) + 1real;
			assert(rdiv(2real, n1) * n1 == 2real && 0real < rdiv(2real, n1) <= 1real) by(nonlinear_arith)
				requires n1 >= 2real, rdiv(2real, n1) == 2real / n1;
		}
	}
//@end
//@extract src/methods/ema.rs impl[Method for EMA]::next
//@hint start
	proof {
		let (x, v, a) = (value@, self.value@, self.alpha@);
		assert((x - v) * a + v == v + a * (x - v)) by(nonlinear_arith);
	}
//@end
}

// ------------------------------------------------------------------ DMA = EMA(EMA(x))
//@extract src/methods/ema.rs struct:DMA keepderive
//@end
pub open spec fn dma_parts(pre: &DMA, x: &ValueType, post: &DMA, out: &ValueType, mid: ValueType) -> bool {
	EMA::step(&pre.ema, x, &post.ema, &mid) && EMA::step(&pre.dma, &mid, &post.dma, out)
}
impl Method for DMA {
	type Params = PeriodType;
	type Input = ValueType;
	type Output = ValueType;
	open spec fn inv(&self) -> bool { self.ema.inv() && self.dma.inv() }
	open spec fn rejects(parameters: PeriodType) -> bool { parameters == 0 }
	open spec fn new_req(parameters: PeriodType, initial_value: &ValueType) -> bool { true }
	open spec fn fresh(parameters: PeriodType, initial_value: &ValueType, s: &Self) -> bool {
		EMA::fresh(parameters, initial_value, &s.ema) && EMA::fresh(parameters, initial_value, &s.dma)
	}
	open spec fn input_ok(&self, x: &ValueType) -> bool { true }
	open spec fn step(pre: &Self, x: &ValueType, post: &Self, out: &ValueType) -> bool {
		// the intermediate stage output is the first stage's new value (EMA::step: post.value == out)
		dma_parts(pre, x, post, out, post.ema.value)
	}
//@extract src/methods/ema.rs impl[Method for DMA]::new
//@end
//@extract src/methods/ema.rs impl[Method for DMA]::next
//@end
}

// ------------------------------------------------------------------ TMA = EMA(EMA(EMA(x)))
//@extract src/methods/ema.rs struct:TMA keepderive
//@end
pub open spec fn tma_parts(pre: &TMA, x: &ValueType, post: &TMA, out: &ValueType, mid: ValueType) -> bool {
	DMA::step(&pre.dma, x, &post.dma, &mid) && EMA::step(&pre.tma, &mid, &post.tma, out)
}
impl Method for TMA {
	type Params = PeriodType;
	type Input = ValueType;
	type Output = ValueType;
	open spec fn inv(&self) -> bool { self.dma.inv() && self.tma.inv() }
	open spec fn rejects(parameters: PeriodType) -> bool { parameters == 0 }
	open spec fn new_req(parameters: PeriodType, initial_value: &ValueType) -> bool { true }
	open spec fn fresh(parameters: PeriodType, initial_value: &ValueType, s: &Self) -> bool {
		DMA::fresh(parameters, initial_value, &s.dma) && EMA::fresh(parameters, initial_value, &s.tma)
	}
	open spec fn input_ok(&self, x: &ValueType) -> bool { true }
	open spec fn step(pre: &Self, x: &ValueType, post: &Self, out: &ValueType) -> bool {
		tma_parts(pre, x, post, out, post.dma.dma.value)
	}
//@extract src/methods/ema.rs impl[Method for TMA]::new
//@end
//@extract src/methods/ema.rs impl[Method for TMA]::next
//@end
}

// ------------------------------------------------------------------ DEMA = 2*EMA - EMA(EMA)
//@extract src/methods/ema.rs struct:DEMA keepderive
//@end
pub open spec fn dema_parts(pre: &DEMA, x: &ValueType, post: &DEMA, out: &ValueType, e: ValueType, d: ValueType) -> bool {
	EMA::step(&pre.ema, x, &post.ema, &e) && EMA::step(&pre.dma, &e, &post.dma, &d) && out@ == 2real * e@ - d@
}
impl DEMA {
//@extract src/methods/ema.rs impl[Peekable<<Self as Method>::Output> for DEMA]::peek pub
//@sig pub fn peek(&self) -> (r: ValueType)
	ensures r@ == 2real * self.ema.value@ - self.dma.value@,
//@hint start
	proof { let (e, d) = (self.ema.value@, self.dma.value@); assert(e * 2real + (-d) == 2real * e - d) by(nonlinear_arith); }
//@end
}
impl Method for DEMA {
	type Params = PeriodType;
	type Input = ValueType;
	type Output = ValueType;
	open spec fn inv(&self) -> bool { self.ema.inv() && self.dma.inv() }
	open spec fn rejects(parameters: PeriodType) -> bool { parameters == 0 }
	open spec fn new_req(parameters: PeriodType, initial_value: &ValueType) -> bool { true }
	open spec fn fresh(parameters: PeriodType, initial_value: &ValueType, s: &Self) -> bool {
		EMA::fresh(parameters, initial_value, &s.ema) && EMA::fresh(parameters, initial_value, &s.dma)
	}
	open spec fn input_ok(&self, x: &ValueType) -> bool { true }
	open spec fn step(pre: &Self, x: &ValueType, post: &Self, out: &ValueType) -> bool {
		dema_parts(pre, x, post, out, post.ema.value, post.dma.value)
	}
//@extract src/methods/ema.rs impl[Method for DEMA]::new
//@end
//@extract src/methods/ema.rs impl[Method for DEMA]::next
//@end
}

// ------------------------------------------------------------------ TEMA = 3*(EMA - EMA(EMA)) + EMA(EMA(EMA))
//@extract src/methods/ema.rs struct:TEMA keepderive
//@end
pub open spec fn tema_parts(pre: &TEMA, x: &ValueType, post: &TEMA, out: &ValueType, e: ValueType, d: ValueType, t: ValueType) -> bool {
	EMA::step(&pre.ema, x, &post.ema, &e) && EMA::step(&pre.dma, &e, &post.dma, &d) && EMA::step(&pre.tma, &d, &post.tma, &t)
	&& out@ == 3real * (e@ - d@) + t@
}
impl TEMA {
//@extract src/methods/ema.rs impl[Peekable<<Self as Method>::Output> for TEMA]::peek pub
//@sig pub fn peek(&self) -> (r: ValueType)
	ensures r@ == 3real * (self.ema.value@ - self.dma.value@) + self.tma.value@,
//@hint start
	proof { let (e, d) = (self.ema.value@, self.dma.value@); assert((e - d) * 3real == 3real * (e - d)) by(nonlinear_arith); }
//@end
}
impl Method for TEMA {
	type Params = PeriodType;
	type Input = ValueType;
	type Output = ValueType;
	open spec fn inv(&self) -> bool { self.ema.inv() && self.dma.inv() && self.tma.inv() }
	open spec fn rejects(parameters: PeriodType) -> bool { parameters == 0 }
	open spec fn new_req(parameters: PeriodType, initial_value: &ValueType) -> bool { true }
	open spec fn fresh(parameters: PeriodType, initial_value: &ValueType, s: &Self) -> bool {
		EMA::fresh(parameters, initial_value, &s.ema) && EMA::fresh(parameters, initial_value, &s.dma) && EMA::fresh(parameters, initial_value, &s.tma)
	}
	open spec fn input_ok(&self, x: &ValueType) -> bool { true }
	open spec fn step(pre: &Self, x: &ValueType, post: &Self, out: &ValueType) -> bool {
		tema_parts(pre, x, post, out, post.ema.value, post.dma.value, post.tma.value)
	}
//@extract src/methods/ema.rs impl[Method for TEMA]::new
//@end
//@extract src/methods/ema.rs impl[Method for TEMA]::next
//@end
}

// ------------------------------------------------------------------ RMA: alpha = 1/length
//@extract src/methods/rma.rs struct:RMA keepderive
//@end
impl Method for RMA {
	type Params = PeriodType;
	type Input = ValueType;
	type Output = ValueType;
	open spec fn inv(&self) -> bool { 0real < self.alpha@ <= 1real && self.alpha_rev@ == 1real - self.alpha@ }
	open spec fn rejects(parameters: PeriodType) -> bool { parameters == 0 }
	open spec fn new_req(parameters: PeriodType, initial_value: &ValueType) -> bool { true }
	open spec fn fresh(parameters: PeriodType, initial_value: &ValueType, s: &Self) -> bool {
		s.alpha@ * (parameters as real) == 1real && s.prev_value == *initial_value
	}
	open spec fn input_ok(&self, x: &ValueType) -> bool { true }
	// documented recurrence: rma' = alpha * x + (1 - alpha) * rma
	open spec fn step(pre: &Self, x: &ValueType, post: &Self, out: &ValueType) -> bool {
		&&& post.alpha == pre.alpha && post.alpha_rev == pre.alpha_rev
		&&& out@ == pre.alpha@ * x@ + (1real - pre.alpha@) * pre.prev_value@
		&&& post.prev_value == *out
	}
//@extract src/methods/rma.rs impl[Method for RMA]::new
	ensures (r is Ok) == (length != 0),
//@hint before match length
	proof {
		if length > 0 {
			let n = length as real;
			assert(rdiv(1real, n) * n == 1real && 0real < rdiv(1real, n) <= 1real) by(nonlinear_arith) requires n >= 1real, rdiv(1real, n) == 1real / n;
		}
	}
//@end
//@extract src/methods/rma.rs impl[Method for RMA]::next
//@end
}

// ------------------------------------------------------------------ WSMA(n) = EMA(2n - 1): alpha = 1/n
//@extract src/methods/wsma.rs struct:WSMA keepderive
//@end
//@extract src/methods/wsma.rs const:MAX_PERIOD
//@end
impl Method for WSMA {
	type Params = PeriodType;
	type Input = ValueType;
	type Output = ValueType;
	open spec fn inv(&self) -> bool { self.0.inv() }
	open spec fn rejects(parameters: PeriodType) -> bool { parameters == 0 || parameters > PeriodType::MAX / 2 }
	open spec fn new_req(parameters: PeriodType, initial_value: &ValueType) -> bool { true }
	open spec fn fresh(parameters: PeriodType, initial_value: &ValueType, s: &Self) -> bool {
		s.0.alpha@ * (parameters as real) == 1real && s.0.value == *initial_value
	}
	open spec fn input_ok(&self, x: &ValueType) -> bool { true }
	open spec fn step(pre: &Self, x: &ValueType, post: &Self, out: &ValueType) -> bool { EMA::step(&pre.0, x, &post.0, out) }
//@extract src/methods/wsma.rs impl[Method for WSMA]::new
//@hint result
	proof {
		if r is Ok {
			let a = r->Ok_0.0.alpha@;
			let n = length as real;
			assert(((length * 2 - 1) as PeriodType) as real + 1real == 2real * n);
			assert(a * n == 1real) by(nonlinear_arith) requires a * (2real * n) == 2real;
		}
	}
//@end
//@extract src/methods/wsma.rs impl[Method for WSMA]::next
//@end
}

// ------------------------------------------------------------------ TSI
//@extract src/methods/tsi.rs struct:TSI keepderive
//@end
pub open spec fn tsi_parts(pre: &TSI, x: &ValueType, post: &TSI, out: &ValueType, m: ValueType, am: ValueType, a1: ValueType, b1: ValueType) -> bool {
	&&& m@ == x@ - pre.last_value@ && am@ == rabs(m@) && post.last_value == *x
	&&& EMA::step(&pre.ema11, &m, &post.ema11, &a1) && EMA::step(&pre.ema12, &a1, &post.ema12, &post.ema12.value)
	&&& EMA::step(&pre.ema21, &am, &post.ema21, &b1) && EMA::step(&pre.ema22, &b1, &post.ema22, &post.ema22.value)
	// documented: double-smoothed momentum / double-smoothed |momentum|, 0 unless the denominator is positive
	&&& (post.ema22.value@ > 0real ==> out@ == post.ema12.value@ / post.ema22.value@)
	&&& (post.ema22.value@ <= 0real ==> out@ == 0real)
}
impl TSI {
// the inherent three-argument constructor (renamed: Verus resolves `new` in contracts to the trait fn)
//@extract src/methods/tsi.rs impl[TSI]::new pub rename=new3
	ensures r is Ok ==> r->Ok_0.inv() && TSI::fresh((short_period, long_period), value, &r->Ok_0),
		(r is Ok) == (short_period != 0 && long_period != 0),
//@replace Method::new((short_period, long_period), value) ==> <TSI as Method>::new((short_period, long_period), value)
//@end
//@extract src/methods/tsi.rs impl[Peekable<<Self as Method>::Output> for TSI]::peek pub
//@sig pub fn peek(&self) -> (r: ValueType)
	ensures self.ema22.value@ > 0real ==> r@ == self.ema12.value@ / self.ema22.value@,
		self.ema22.value@ <= 0real ==> r@ == 0real,
//@end
}
impl Method for TSI {
	type Params = (PeriodType, PeriodType);
	type Input = ValueType;
	type Output = ValueType;
	// both branches use the same smoothing factors, and each smoothed momentum is dominated by the equally smoothed |momentum|
	// (the inductive invariant behind the documented range [-1; 1], C12)
	open spec fn inv(&self) -> bool {
		&&& self.ema11.inv() && self.ema12.inv() && self.ema21.inv() && self.ema22.inv()
		&&& self.ema11.alpha@ == self.ema21.alpha@ && self.ema12.alpha@ == self.ema22.alpha@
		&&& rabs(self.ema11.value@) <= self.ema21.value@ && rabs(self.ema12.value@) <= self.ema22.value@
	}
	open spec fn rejects(parameters: (PeriodType, PeriodType)) -> bool { parameters.0 == 0 || parameters.1 == 0 }
	open spec fn new_req(parameters: (PeriodType, PeriodType), initial_value: &ValueType) -> bool { true }
	open spec fn fresh(parameters: (PeriodType, PeriodType), initial_value: &ValueType, s: &Self) -> bool {
		&&& s.last_value == *initial_value
		&&& s.ema11.value@ == 0real && s.ema12.value@ == 0real && s.ema21.value@ == 0real && s.ema22.value@ == 0real
		&&& s.ema11.alpha@ * ((parameters.1 as real) + 1real) == 2real && s.ema21.alpha@ * ((parameters.1 as real) + 1real) == 2real
		&&& s.ema12.alpha@ * ((parameters.0 as real) + 1real) == 2real && s.ema22.alpha@ * ((parameters.0 as real) + 1real) == 2real
	}
	open spec fn input_ok(&self, x: &ValueType) -> bool { true }
	open spec fn step(pre: &Self, x: &ValueType, post: &Self, out: &ValueType) -> bool {
		tsi_parts(pre, x, post, out, mk(x@ - pre.last_value@), mk(rabs(x@ - pre.last_value@)), post.ema11.value, post.ema21.value)
	}
//@extract src/methods/tsi.rs impl[Method for TSI]::new
	ensures (r is Ok) == (params.0 != 0 && params.1 != 0),
//@hint result
	proof {
		if r is Ok {
			let s = r->Ok_0;
			let (n1, n0) = ((params.1 as real) + 1real, (params.0 as real) + 1real);
			assert(s.ema11.alpha@ == s.ema21.alpha@) by(nonlinear_arith) requires s.ema11.alpha@ * n1 == 2real, s.ema21.alpha@ * n1 == 2real, n1 >= 1real;
			assert(s.ema12.alpha@ == s.ema22.alpha@) by(nonlinear_arith) requires s.ema12.alpha@ * n0 == 2real, s.ema22.alpha@ * n0 == 2real, n0 >= 1real;
		}
	}
//@end
//@extract src/methods/tsi.rs impl[Method for TSI]::next
	// C12: the documented range
	ensures -1real <= r@ <= 1real,
//@hint before self.peek()
	proof {
		let (a, b) = (old(self).ema11.alpha@, old(self).ema12.alpha@);
		let (m, am) = (momentum@, rabs(momentum@));
		let (e11, e21, e12, e22) = (old(self).ema11.value@, old(self).ema21.value@, old(self).ema12.value@, old(self).ema22.value@);
		lemma_ema_dominated(a, e11, e21, m, am);
		lemma_ema_dominated(b, e12, e22, self.ema11.value@, self.ema21.value@);
		let (p, q) = (self.ema12.value@, self.ema22.value@);
		if q > 0real { assert(-1real <= p / q <= 1real) by(nonlinear_arith) requires q > 0real, -q <= p <= q; }
	}
//@end
}

// one EMA step keeps |e| <= f when the inputs satisfy |x| <= y and the factor is in (0, 1]
pub proof fn lemma_ema_dominated(a: real, e: real, f: real, x: real, y: real)
	requires 0real < a <= 1real, rabs(e) <= f, rabs(x) <= y
	ensures rabs(e + a * (x - e)) <= f + a * (y - f)
{
	assert(e + a * (x - e) == (1real - a) * e + a * x && f + a * (y - f) == (1real - a) * f + a * y) by(nonlinear_arith);
	assert((1real - a) * e <= (1real - a) * f && -((1real - a) * f) <= (1real - a) * e) by(nonlinear_arith) requires 0real < a <= 1real, -f <= e <= f;
	assert(a * x <= a * y && -(a * y) <= a * x) by(nonlinear_arith) requires 0real < a <= 1real, -y <= x <= y;
}
// C08: a recurrence seeded with v and fed v stays at v (fixed point), one inductive step each
pub proof fn ema_const_step(pre: EMA, v: R, post: EMA, out: R)
	requires pre.inv(), pre.value@ == v@, EMA::step(&pre, &v, &post, &out)
	ensures post.value@ == v@, out@ == v@, post.inv()
{
	assert(pre.alpha@ * (v@ - v@) == 0real) by(nonlinear_arith);
}
pub proof fn dma_const_step(pre: DMA, v: R, post: DMA, out: R)
	requires pre.inv(), pre.ema.value@ == v@, pre.dma.value@ == v@, DMA::step(&pre, &v, &post, &out)
	ensures post.ema.value@ == v@, post.dma.value@ == v@, out@ == v@
{
	let mid = post.ema.value;
	ema_const_step(pre.ema, v, post.ema, mid);
	ema_const_step(pre.dma, mid, post.dma, out);
}
pub proof fn tma_const_step(pre: TMA, v: R, post: TMA, out: R)
	requires pre.inv(), pre.dma.ema.value@ == v@, pre.dma.dma.value@ == v@, pre.tma.value@ == v@, TMA::step(&pre, &v, &post, &out)
	ensures out@ == v@, post.tma.value@ == v@
{
	let mid = post.dma.dma.value;
	dma_const_step(pre.dma, v, post.dma, mid);
	ema_const_step(pre.tma, mid, post.tma, out);
}
pub proof fn dema_const_step(pre: DEMA, v: R, post: DEMA, out: R)
	requires pre.inv(), pre.ema.value@ == v@, pre.dma.value@ == v@, DEMA::step(&pre, &v, &post, &out)
	ensures out@ == v@, post.ema.value@ == v@, post.dma.value@ == v@
{
	let (e, d) = (post.ema.value, post.dma.value);
	ema_const_step(pre.ema, v, post.ema, e);
	ema_const_step(pre.dma, e, post.dma, d);
}
pub proof fn tema_const_step(pre: TEMA, v: R, post: TEMA, out: R)
	requires pre.inv(), pre.ema.value@ == v@, pre.dma.value@ == v@, pre.tma.value@ == v@, TEMA::step(&pre, &v, &post, &out)
	ensures out@ == v@
{
	let (e, d, t) = (post.ema.value, post.dma.value, post.tma.value);
	ema_const_step(pre.ema, v, post.ema, e);
	ema_const_step(pre.dma, e, post.dma, d);
	ema_const_step(pre.tma, d, post.tma, t);
}
pub proof fn rma_const_step(pre: RMA, v: R, post: RMA, out: R)
	requires pre.inv(), pre.prev_value@ == v@, RMA::step(&pre, &v, &post, &out)
	ensures out@ == v@, post.prev_value@ == v@
{
	let a = pre.alpha@;
	assert(a * v@ + (1real - a) * v@ == v@) by(nonlinear_arith);
}
// TSI on a constant stream: momentum is 0, both smoothed series stay 0, the guarded quotient returns 0
pub proof fn tsi_const_step(pre: TSI, v: R, post: TSI, out: R)
	requires pre.inv(), pre.last_value@ == v@, pre.ema11.value@ == 0real, pre.ema12.value@ == 0real, pre.ema21.value@ == 0real, pre.ema22.value@ == 0real,
		TSI::step(&pre, &v, &post, &out)
	ensures out@ == 0real, post.ema11.value@ == 0real, post.ema12.value@ == 0real, post.ema21.value@ == 0real, post.ema22.value@ == 0real, post.last_value@ == v@
{
	let (m, am, a1, b1) = (mk(v@ - pre.last_value@), mk(rabs(v@ - pre.last_value@)), post.ema11.value, post.ema21.value);
	ema_const_step(pre.ema11, m, post.ema11, a1);
	ema_const_step(pre.ema12, a1, post.ema12, post.ema12.value);
	ema_const_step(pre.ema21, am, post.ema21, b1);
	ema_const_step(pre.ema22, b1, post.ema22, post.ema22.value);
}
//@export-end
} // verus!
fn main() {}
