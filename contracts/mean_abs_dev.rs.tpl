//@unit mean_abs_dev
//@include head.rs
//@import sma.rs.tpl
//@export-begin

//@extract src/methods/mean_abs_dev.rs struct:MeanAbsDev
//@end

//@include abs_dev_lib.rs

impl MeanAbsDev {
	// documented: mean of |x_i - mean(x)| over the last `length` inputs
	pub open spec fn def(view: Seq<R>) -> real { abs_dev_sum(view, SMA::def(view)) / (view.len() as real) }

//@extract src/methods/mean_abs_dev.rs impl[MeanAbsDev]::get_sma
	ensures r == &self.0,
//@end

//@extract src/methods/mean_abs_dev.rs impl[Peekable<<Self as Method>::Output> for MeanAbsDev]::peek pub
//@sig pub fn peek(&self) -> (r: ValueType)
	requires self.0.inv()
	ensures r@ == MeanAbsDev::def(self.0.window.view()),
		// C12: a dispersion measure is never negative
		r@ >= 0real,
//@src self.0.get_window().as_slice().iter() ==> SliceIt::new(self.0.get_window().as_slice())
//@hint chain 0
		invariant_except_break
			it0__.inv(), it0__.s@ == self.0.window.buf@, mean@ == SMA::def(self.0.window.view()),
			acc0__@ == abs_dev_sum(it0__.s@.subrange(0, it0__.i as int), mean@),
		ensures
			acc0__@ == abs_dev_sum(self.0.window.buf@, mean@),
		decreases it0__.s@.len() - it0__.i
//@hint chain-start 0
		proof { assert(it0__.s@.subrange(0, it0__.s@.len() as int) =~= it0__.s@); }
//@hint chain-end 0
		proof {
			let s = it0__.s@;
			let i = it0__.i as int;
			assert(s.subrange(0, i).drop_last() =~= s.subrange(0, i - 1));
			assert(s.subrange(0, i).last() == s[i - 1]);
		}
//@hint result
	proof {
		lemma_abs_dev_rot(self.0.window, mean@);
		let n = self.0.window.cap() as real;
		let a = abs_dev_sum(self.0.window.view(), mean@);
		let d = self.0.divider@;
		assert(a * d == a / n) by(nonlinear_arith) requires d * n == 1real, n >= 1real;
		lemma_abs_dev_nonneg(self.0.window.view(), mean@);
		assert(a / n >= 0real) by(nonlinear_arith) requires a >= 0real, n >= 1real;
	}
//@end
}

impl Method for MeanAbsDev {
	type Params = PeriodType;
	type Input = ValueType;
	type Output = ValueType;
	open spec fn inv(&self) -> bool { self.0.inv() }
	open spec fn rejects(parameters: PeriodType) -> bool { parameters == 0 }
	open spec fn new_req(parameters: PeriodType, initial_value: &ValueType) -> bool { true }
	open spec fn fresh(parameters: PeriodType, initial_value: &ValueType, s: &Self) -> bool {
		SMA::fresh(parameters, initial_value, &s.0)
	}
	open spec fn input_ok(&self, x: &ValueType) -> bool { true }
	open spec fn step(pre: &Self, x: &ValueType, post: &Self, out: &ValueType) -> bool {
		&&& post.0.window.view() == pre.0.window.view().drop_first().push(*x)
		&&& out@ == MeanAbsDev::def(post.0.window.view())
	}
//@extract src/methods/mean_abs_dev.rs impl[Method for MeanAbsDev]::new
//@end
//@extract src/methods/mean_abs_dev.rs impl[Method for MeanAbsDev]::next
	// C12: never negative
	ensures r@ >= 0real,
//@end
}

//@extract src/methods/cci.rs struct:CCI
//@end
impl Method for CCI {
	type Params = PeriodType;
	type Input = ValueType;
	type Output = ValueType;
	open spec fn inv(&self) -> bool { self.0.inv() }
	open spec fn rejects(parameters: PeriodType) -> bool { parameters == 0 }
	open spec fn new_req(parameters: PeriodType, initial_value: &ValueType) -> bool { true }
	open spec fn fresh(parameters: PeriodType, initial_value: &ValueType, s: &Self) -> bool {
		MeanAbsDev::fresh(parameters, initial_value, &s.0)
	}
	open spec fn input_ok(&self, x: &ValueType) -> bool { true }
	// documented: (value - mean) / mean absolute deviation over the last `length` inputs; 0 when the deviation is 0
	open spec fn step(pre: &Self, x: &ValueType, post: &Self, out: &ValueType) -> bool {
		let v = post.0.0.window.view();
		&&& v == pre.0.0.window.view().drop_first().push(*x)
		&&& (MeanAbsDev::def(v) > 0real ==> out@ == (x@ - SMA::def(v)) / MeanAbsDev::def(v))
		&&& (MeanAbsDev::def(v) <= 0real ==> out@ == 0real)
	}
//@extract src/methods/cci.rs impl[Method for CCI]::new
//@end
//@extract src/methods/cci.rs impl[Method for CCI]::next
//@end
}
//@export-end
} // verus!
fn main() {}
