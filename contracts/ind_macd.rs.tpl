//@unit ind_macd
//@include head.rs
//@import ohlcv.rs.tpl
//@import indicator_base.rs.tpl
//@include indicator_traits.rs

//@extract src/indicators/macd.rs struct:MACD
//@end
//@extract src/indicators/macd.rs struct:MACDInstance
//@end

impl<M: MovingAverageConstructor> MACD<M> {
	pub open spec fn valid(&self) -> bool {
		self.ma1.period_s() < self.ma2.period_s() && self.ma1.period_s() > 1 && self.signal.period_s() > 1
	}
//@extract src/indicators/macd.rs impl[IndicatorConfig for MACD<M>]::validate pub
	ensures r == self.valid(),
//@end
//@extract src/indicators/macd.rs impl[IndicatorConfig for MACD<M>]::size pub
	ensures r == (2u8, 2u8),
//@end
//@extract src/indicators/macd.rs impl[IndicatorConfig for MACD<M>]::init pub
//@sig pub fn init<T: OHLCV>(self, candle: &T) -> (r: Result<MACDInstance<M>, Error>)
	ensures
		!self.valid() ==> r is Err,
		r is Ok ==> r->Ok_0.inv() && r->Ok_0.cfg == self,
		// documented seeds: both averages start from the source price, the signal line from 0
		r is Ok ==> self.ma1.seeded(src_val(candle, self.source), &r->Ok_0.ma1) && self.ma2.seeded(src_val(candle, self.source), &r->Ok_0.ma2),
		r is Ok ==> self.signal.seeded(0real, &r->Ok_0.ma3),
		r is Ok ==> r->Ok_0.cross1.up.last_delta@ == 0real && r->Ok_0.cross2.up.last_delta@ == 0real,
		// C08: for averaging kinds that cannot overshoot this is the constant state for the candle's source price (see macd_const_step)
		r is Ok && self.ma1.convex_kind() && self.ma2.convex_kind() && self.signal.convex_kind() ==> r->Ok_0.const_state(src_val(candle, self.source)),
//@replace Ok(Self::Instance { ==> Ok(MACDInstance {
//@end
}

pub open spec fn macd_step<M: MovingAverageConstructor>(pre: &MACDInstance<M>, src: ValueType, post: &MACDInstance<M>, macd: ValueType, sig: ValueType, e1: ValueType, e2: ValueType, s1: Action, s2: Action, zero: ValueType) -> bool {
	// documented: MACD = MA1(src) - MA2(src); signal line = MA3(MACD)
	&&& <M::Instance as Method>::step(&pre.ma1, &src, &post.ma1, &e1)
	&&& <M::Instance as Method>::step(&pre.ma2, &src, &post.ma2, &e2)
	&&& macd@ == e1@ - e2@
	&&& <M::Instance as Method>::step(&pre.ma3, &macd, &post.ma3, &sig)
	// signals: MACD crossing its signal line; MACD crossing zero
	&&& Cross::step(&pre.cross1, &(macd, sig), &post.cross1, &s1)
	&&& zero@ == 0real && Cross::step(&pre.cross2, &(macd, zero), &post.cross2, &s2)
}

impl<M: MovingAverageConstructor> MACDInstance<M> {
	pub open spec fn inv(&self) -> bool {
		self.ma1.inv() && self.ma2.inv() && self.ma3.inv() && self.cross1.inv() && self.cross2.inv()
	}
//@extract src/indicators/macd.rs impl[IndicatorInstance for MACDInstance<M>]::next pub
	requires old(self).inv()
	ensures final(self).inv(), final(self).cfg == old(self).cfg,
		// exactly the announced shape (C11): 2 values, 2 signals
		r.length == (2u8, 2u8),
		exists|src: ValueType, e1: ValueType, e2: ValueType, zero: ValueType|
			src@ == src_val(candle, old(self).cfg.source)
			&& #[trigger] macd_step(old(self), src, final(self), r.vals()[0], r.vals()[1], e1, e2, r.sigs()[0], r.sigs()[1], zero),
//@hint before let ema1
	proof { self.ma1.input_always_ok(src); self.ma2.input_always_ok(src); }
//@hint before let sigline
	proof { self.ma3.input_always_ok(&macd); }
//@hint result
	proof {
		assert(macd_step(old(self), *src, self, r.vals()[0], r.vals()[1], ema1, ema2, r.sigs()[0], r.sigs()[1], mk(0real)));
	}
//@end
}

// ---- C08 at indicator level: an instance in the state `init` leaves behind for a source price s (both averages hold only s, the signal average only 0,
// both crossing detectors at 0), fed a candle with that source price again, returns MACD = 0, signal line = 0, no signals, and stays in that state.
// Holds for averaging kinds that cannot overshoot (convex), i.e. 11 of the 15 kinds of the crate's own MA (unit ma_instance).
impl<M: MovingAverageConstructor> MACDInstance<M> {
	pub open spec fn const_state(&self, s: real) -> bool {
		&&& self.inv() && self.ma1.convex() && self.ma2.convex() && self.ma3.convex()
		&&& self.ma1.within(s, s) && self.ma2.within(s, s) && self.ma3.within(0real, 0real)
		&&& self.cross1.up.last_delta@ == 0real && self.cross2.up.last_delta@ == 0real
	}
}
pub proof fn macd_const_step<M: MovingAverageConstructor>(pre: &MACDInstance<M>, src: ValueType, post: &MACDInstance<M>, macd: ValueType, sig: ValueType, e1: ValueType, e2: ValueType, s1: Action, s2: Action, zero: ValueType)
	requires pre.const_state(src@), post.inv(), macd_step(pre, src, post, macd, sig, e1, e2, s1, s2, zero)
	ensures macd@ == 0real, sig@ == 0real, s1 is None, s2 is None, post.const_state(src@)
{
	<M::Instance as MovingAverage>::lemma_within_step(&pre.ma1, &src, &post.ma1, &e1, src@, src@);
	<M::Instance as MovingAverage>::lemma_within_step(&pre.ma2, &src, &post.ma2, &e2, src@, src@);
	<M::Instance as MovingAverage>::lemma_within_step(&pre.ma3, &macd, &post.ma3, &sig, 0real, 0real);
}
} // verus!
fn main() {}
