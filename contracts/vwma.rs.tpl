//@unit vwma
//@include head.rs
//@export-begin

//@extract src/methods/vwma.rs struct:VWMA
//@end

pub open spec fn pv(e: (R, R)) -> real { e.0@ * e.1@ }
pub open spec fn vol(e: (R, R)) -> real { e.1@ }
pub open spec fn pv_fn() -> spec_fn((R, R)) -> real { |e: (R, R)| pv(e) }
pub open spec fn vol_fn() -> spec_fn((R, R)) -> real { |e: (R, R)| vol(e) }

impl VWMA {
	// documented: Σ price*volume / Σ volume over the last `length` inputs, wherever Σ volume != 0
	pub open spec fn num(view: Seq<(R, R)>) -> real { fsum(view, pv_fn()) }
	pub open spec fn den(view: Seq<(R, R)>) -> real { fsum(view, vol_fn()) }
}

impl Method for VWMA {
	type Params = PeriodType;
	type Input = (ValueType, ValueType);
	type Output = ValueType;
	open spec fn inv(&self) -> bool {
		&&& self.window.wf() && self.window.cap() >= 1
		&&& self.sum@ == VWMA::num(self.window.view())
		&&& self.vol_sum@ == VWMA::den(self.window.view())
	}
	open spec fn rejects(parameters: PeriodType) -> bool { parameters == 0 }
	open spec fn new_req(parameters: PeriodType, initial_value: &(ValueType, ValueType)) -> bool { true }
	open spec fn fresh(parameters: PeriodType, initial_value: &(ValueType, ValueType), s: &Self) -> bool {
		s.window.view() =~= Seq::new(parameters as nat, |i: int| *initial_value)
	}
	open spec fn input_ok(&self, x: &(ValueType, ValueType)) -> bool { true }
	open spec fn step(pre: &Self, x: &(ValueType, ValueType), post: &Self, out: &ValueType) -> bool {
		&&& post.window.view() == pre.window.view().drop_first().push(*x)
		&&& (VWMA::den(post.window.view()) != 0real ==> out@ == VWMA::num(post.window.view()) / VWMA::den(post.window.view()))
	}
//@extract src/methods/vwma.rs impl[Method for VWMA]::new
//@hint before match length
	proof {
		lemma_fsum_konst(length as nat, value, pv_fn());
		lemma_fsum_konst(length as nat, value, vol_fn());
		let (p, v, n) = (value.0@, value.1@, length as real);
		assert(p * v * n == n * (p * v)) by(nonlinear_arith);
		assert(v * n == n * v) by(nonlinear_arith);
	}
//@hint result
	proof {
		if r is Ok {
			let s = r->Ok_0.window.view();
			assert forall|i: int| 0 <= i < length as int implies #[trigger] s[i] == value by { axiom_pair_clone(value, s[i]); }
			assert(s =~= Seq::new(length as nat, |i: int| value));
		}
	}
//@end
//@extract src/methods/vwma.rs impl[Method for VWMA]::next
//@hint before self.vol_sum +=
	proof {
		lemma_fsum_slide(old(self).window.view(), value, pv_fn());
		lemma_fsum_slide(old(self).window.view(), value, vol_fn());
		let (a, b) = (past_value.0@, past_value.1@);
		assert((-a) * b == -(a * b)) by(nonlinear_arith);
		assert(past_value == old(self).window.view()[0]);
	}
//@end
}

pub proof fn vwma_const_step(pre: VWMA, v: (R, R), post: VWMA, out: R)
	requires pre.inv(), pre.window.view() =~= Seq::new(pre.window.view().len(), |i: int| v), VWMA::step(&pre, &v, &post, &out), v.1@ != 0real
	ensures post.window.view() =~= Seq::new(pre.window.view().len(), |i: int| v), out@ == v.0@
{
	let n = pre.window.view().len();
	assert(post.window.view() =~= Seq::new(n, |i: int| v));
	lemma_fsum_konst(n, v, pv_fn());
	lemma_fsum_konst(n, v, vol_fn());
	let (p, w, nr) = (v.0@, v.1@, n as real);
	assert(nr * w != 0real && (nr * (p * w)) / (nr * w) == p) by(nonlinear_arith) requires nr >= 1real, w != 0real;
}
//@export-end
} // verus!
fn main() {}
