//@unit text_forms
//@include head.rs
//@include strings.rs
//@extract src/core/candles.rs enum:Source keepderive
//@end

// `s.to_ascii_lowercase().trim()`: the text normalised for matching (abstract; ASSUMED std behaviour: see norm_fixed below)
pub uninterp spec fn norm_text(s: Seq<char>) -> Seq<char>;
#[verifier::external_body]
pub fn lower_trim(s: &str) -> (r: &str)
	ensures r@ == norm_text(s@)
{ unimplemented!() }
// the eight canonical names and the alias are lowercase ASCII without surrounding blanks, so normalisation leaves them alone
// (a fact about nine constant strings; that the literals in core/candles.rs have this form is backed by the source scan of check C18 on every run)
pub open spec fn canonical(t: Seq<char>) -> bool {
	t == "close"@ || t == "high"@ || t == "low"@ || t == "open"@ || t == "tp"@ || t == "hl2"@ || t == "volume"@ || t == "volumed_price"@ || t == "hlc3"@
}
pub axiom fn norm_fixed(t: Seq<char>)
	requires canonical(t)
	ensures norm_text(t) == t;

pub open spec fn source_name(s: Source) -> Seq<char> {
	match s {
		Source::Close => "close"@, Source::High => "high"@, Source::Low => "low"@, Source::Open => "open"@,
		Source::TP => "tp"@, Source::HL2 => "hl2"@, Source::Volume => "volume"@, Source::VolumedPrice => "volumed_price"@,
	}
}
// what from_str accepts: the canonical name of a source, or the alias hlc3 for TP, after normalisation
pub open spec fn source_of_text(t: Seq<char>) -> Option<Source> {
	let n = norm_text(t);
	if n == "close"@ { Some(Source::Close) } else if n == "high"@ { Some(Source::High) } else if n == "low"@ { Some(Source::Low) }
	else if n == "volume"@ { Some(Source::Volume) } else if n == "tp"@ || n == "hlc3"@ { Some(Source::TP) } else if n == "hl2"@ { Some(Source::HL2) }
	else if n == "open"@ { Some(Source::Open) } else if n == "volumed_price"@ { Some(Source::VolumedPrice) } else { None }
}
impl Source {
//@extract src/core/candles.rs impl[FromStr for Source]::from_str pub
//@sig pub fn from_str(s: &str) -> (r: Result<Self, Error>)
	ensures
		// everything that is not a (normalised) source name is rejected with an error
		(r is Ok) == (source_of_text(s@) is Some),
		r is Ok ==> r->Ok_0 == source_of_text(s@)->Some_0,
//@src s.to_ascii_lowercase().trim() ==> lower_trim(s)
//@end
//@extract src/core/candles.rs impl[From<Source> for &'static str]::from pub rename=into_str
//@sig pub fn into_str(value: Source) -> (r: &'static str)
	ensures r@ == source_name(value),
//@end
}
// C18: the textual form of every source parses back to the same source
pub fn source_text_roundtrip(src: Source) -> (r: Result<Source, Error>)
	ensures r == Ok::<Source, Error>(src)
{
	let t = Source::into_str(src);
	proof {
		reveal_strlit("close"); reveal_strlit("high"); reveal_strlit("low"); reveal_strlit("open"); reveal_strlit("tp");
		reveal_strlit("hl2"); reveal_strlit("volume"); reveal_strlit("volumed_price"); reveal_strlit("hlc3");
		norm_fixed(t@);
		// the nine names are pairwise different: by length, or by a character where lengths coincide
		assert("close"@.len() == 5 && "high"@.len() == 4 && "low"@.len() == 3 && "open"@.len() == 4 && "tp"@.len() == 2 && "hl2"@.len() == 3
			&& "volume"@.len() == 6 && "volumed_price"@.len() == 13 && "hlc3"@.len() == 4);
		assert("high"@[0] == 'h' && "open"@[0] == 'o' && "hlc3"@[0] == 'h' && "high"@[1] == 'i' && "hlc3"@[1] == 'l' && "low"@[0] == 'l' && "hl2"@[0] == 'h');
	}
	Source::from_str(t)
}
} // verus!
fn main() {}
