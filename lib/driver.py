"""Driver for the contract-verification checks (see /verif/DESIGN.md §2)."""
import argparse, atexit, concurrent.futures as cf, hashlib, json, os, re, shutil, subprocess, sys, tempfile, time

VERIF = os.path.dirname(os.path.dirname(os.path.abspath(__file__)))
REPO = os.environ.get("YATA_REPO", "/repo")
VX = os.path.join(VERIF, "vx", "target", "release", "vx")
sys.path.insert(0, os.path.join(VERIF, "lib"))
import registry  # noqa: E402
import kani_run  # noqa: E402

UNDECIDED = 2
_scratch = None


def scratch():
    global _scratch
    if _scratch is None:
        _scratch = tempfile.mkdtemp(prefix="yv.", dir="/tmp")
        atexit.register(lambda: shutil.rmtree(_scratch, ignore_errors=True))
    return _scratch


def log(*a):
    print(*a, file=sys.stderr, flush=True)


# ----------------------------------------------------------------------------------------------
# Verus

VERIFICATION_MSGS = (
    "postcondition not satisfied", "precondition not satisfied", "possible arithmetic underflow/overflow",
    "assertion failed", "invariant not satisfied", "possible division by zero", "decreases not satisfied",
    "loop invariant", "recommendation not met", "possible bit shift underflow/overflow",
    "unreachable", "cannot show", "could not show", "failed",
)


COMPILE_MSGS = ("mismatched types", "not supported", "cannot find", "does not yet support", "unsupported", "expected ",
                "no method named", "no field", "cannot infer", "unresolved", "is not allowed", "Verus does not", "must be",
                "cannot use", "not implemented", "could not automatically infer triggers", "Could not automatically infer triggers")


def ensure_vx():
    if not os.path.exists(VX):
        r = subprocess.run(["cargo", "build", "--release", "--offline"], cwd=os.path.join(VERIF, "vx"),
                           capture_output=True, text=True)
        if r.returncode != 0:
            log(r.stderr)
            raise SystemExit(UNDECIDED)


def fn_map(gen_text):
    """line number (1-based) -> (qualified fn name, in_hint, extracted path or None)"""
    out = {}
    cur_impl, cur_fn, in_hint, cur_path = None, None, False, None
    impl_re = re.compile(r"^\s*impl(?:\s*<[^{]*?>)?\s+(?:[\w:<>,' ]+?\s+for\s+)?&?(?:'\w+\s+)?(\w+)")
    fn_re = re.compile(r"^\s*(?:#\[[^\]]*\]\s*)*(?:pub\s+)?(?:open\s+|closed\s+|uninterp\s+)?(?:broadcast\s+)?(?:proof\s+|spec\s+|exec\s+)?fn\s+(\w+)")
    for i, line in enumerate(gen_text.split("\n"), 1):
        st = line.strip()
        if st.startswith("// >>> extracted from"):
            cur_path = st.split("::", 1)[1].strip() if "::" in st else None
        elif st.startswith("// <<< end"):
            cur_path = None
        elif st == "// >>H":
            in_hint = True
        elif st == "// <<H":
            in_hint = False
        m = impl_re.match(line)
        if m and not st.startswith("//"):
            cur_impl = m.group(1)
        if re.match(r"^\}", line):
            cur_impl = None
        m = fn_re.match(line)
        if m and not st.startswith("//"):
            cur_fn = (cur_impl + "::" if cur_impl and line[:1] in " \t" else "") + m.group(1)
        out[i] = (cur_fn, in_hint, cur_path)
    return out


def run_verus_unit(unit, defines=(), rlimit=None, seed=None, multiple_errors=20, keep=None):
    """extract + verify one unit; returns a result dict"""
    ensure_vx()
    u = registry.UNITS[unit]
    tag = unit + ("-" + "-".join(defines) if defines else "") + (f"-r{rlimit}" if rlimit else "") + (f"-s{seed}" if seed is not None else "")
    d = os.path.join(scratch(), tag)
    os.makedirs(d, exist_ok=True)
    gen = os.path.join(d, unit + ".rs")
    rep = os.path.join(d, unit + ".report.json")
    res = {"unit": unit, "defines": list(defines), "status": "ok", "functions": {}, "errors": [], "items": [],
           "wall_s": 0.0, "solver_ms": 0, "cmd": ""}
    t0 = time.time()
    tpl = os.path.join(VERIF, "contracts", u["tpl"]) if "tpl" in u else None
    env = dict(os.environ)
    if "generator" in u:
        tpl = os.path.join(d, unit + ".rs.tpl")
        g = subprocess.run([sys.executable, os.path.join(VERIF, "tools", u["generator"]), REPO, tpl], capture_output=True, text=True)
        if g.returncode != 0:
            res["status"] = "extraction-error"
            res["detail"] = "generator: " + g.stderr.strip()[-1500:]
            return res
        env["VX_PRELUDE_DIR"] = os.path.join(VERIF, "prelude")
        env["VX_TPL_DIR"] = os.path.join(VERIF, "contracts")
    cmd = [VX, tpl, REPO, gen, rep]
    for dfn in defines:
        cmd += ["-D", dfn]
    r = subprocess.run(cmd, capture_output=True, text=True, env=env)
    if r.returncode != 0:
        res["status"] = "extraction-error"
        res["detail"] = r.stderr.strip()
        res["wall_s"] = time.time() - t0
        return res
    res["items"] = json.load(open(rep))["items"]
    gen_text = open(gen).read()
    res["gen_sha256"] = hashlib.sha256(gen_text.encode()).hexdigest()
    res["trusted"] = scan_trusted(gen_text)
    vcmd = ["verus", gen, "--output-json", "--time-expanded", "--error-format=json", "--multiple-errors", str(multiple_errors)]
    if rlimit:
        vcmd += ["--rlimit", str(rlimit)]
    if seed is not None:
        vcmd += ["--smt-option", f"smt.random_seed={seed}"]
    res["cmd"] = " ".join(["vx", u.get("tpl", "<" + u.get("generator", "") + ">"), "/repo"] + [f"-D {x}" for x in defines]) + " && " + " ".join(["verus", unit + ".rs"] + vcmd[2:])
    try:
        v = subprocess.run(vcmd, capture_output=True, text=True, cwd=d, timeout=u.get("timeout", 900))
    except subprocess.TimeoutExpired:
        res["status"] = "timeout"
        res["wall_s"] = time.time() - t0
        return res
    res["wall_s"] = time.time() - t0
    if keep:
        shutil.copy(gen, keep)
    fm = fn_map(gen_text)
    compile_errors = []
    for line in v.stderr.split("\n"):
        line = line.strip()
        if not line.startswith("{"):
            continue
        try:
            dg = json.loads(line)
        except Exception:
            continue
        if dg.get("level") != "error":
            continue
        msg = dg.get("message", "")
        if msg.startswith("aborting due to"):
            continue
        spans = dg.get("spans", [])
        prim = [s for s in spans if s.get("is_primary")] or spans
        ln = prim[0]["line_start"] if prim else 0
        fnname, in_hint, path = fm.get(ln, (None, False, None))
        # the function a failure belongs to is where the *body* location is; for postconditions the primary span is
        # the ensures clause, which sits inside the same fn's signature region, so the map is still right.
        text = " | ".join(t["text"].strip() for s in prim for t in s.get("text", []))[:400]
        other = [" ".join(t["text"].strip() for t in s.get("text", []))[:200] for s in spans if not s.get("is_primary")]
        kind = "verification"
        if "Resource limit" in msg or "rlimit" in msg:
            kind = "rlimit"
        if dg.get("code") is not None or any(k in msg for k in COMPILE_MSGS):
            kind = "compile"
        e = {"message": msg, "line": ln, "function": fnname, "in_hint": in_hint, "path": path, "clause": text,
             "context": other[:3], "kind": kind, "rendered": dg.get("rendered", "")[:3000]}
        if kind == "compile":
            compile_errors.append(e)
        res["errors"].append(e)
    try:
        js = json.loads(v.stdout[v.stdout.index("{"):])
    except Exception:
        js = None
    if js is None or "times-ms" not in js or js["verification-results"].get("encountered-vir-error"):
        res["status"] = "verus-rejected"
        res["detail"] = "\n".join(e["rendered"] or e["message"] for e in compile_errors[:6]) or v.stderr[-3000:]
        return res
    for m in js["times-ms"]["smt"]["smt-run-module-times"]:
        for f in m["function-breakdown"]:
            name = f["function"]
            ent = res["functions"].setdefault(name, {"success": True, "time_us": 0, "rlimit": 0, "mode": f.get("mode:", "")})
            ent["success"] = ent["success"] and bool(f["success"])
            ent["time_us"] += f["time-micros"]
            ent["rlimit"] += f["rlimit"]
    res["solver_ms"] = sum(f["time_us"] for f in res["functions"].values()) // 1000
    res["verified"] = js["verification-results"]["verified"]
    res["n_errors"] = js["verification-results"]["errors"]
    if compile_errors and not res["functions"]:
        res["status"] = "verus-rejected"
        res["detail"] = "\n".join(e["rendered"] or e["message"] for e in compile_errors[:6])
    return res


TRUST_PATTERNS = [
    (r"\bassume\s*\(", "assume"), (r"\badmit\s*\(", "admit"), (r"external_body", "external_body"),
    (r"assume_specification", "assume_specification"), (r"\buninterp\b", "uninterp"),
    (r"verifier::external\b", "external"), (r"#\[verifier::axiom\]", "axiom"),
]


def scan_trusted(text):
    """list every assumption-introducing construct in a generated unit with the item it is attached to"""
    out = []
    lines = text.split("\n")
    for i, l in enumerate(lines):
        s = l.strip()
        if s.startswith("//"):
            continue
        for pat, kind in TRUST_PATTERNS:
            if re.search(pat, l):
                # find the item name: this line or the next few lines
                name = None
                for j in range(i, min(i + 4, len(lines))):
                    m = re.search(r"\bfn\s+(\w+)|assume_specification\s*(?:<[^\[]*>)?\s*\[\s*([^\]]+)\]|struct\s+(\w+)|\bfn\s+(\w+)", lines[j])
                    if m:
                        name = next(g for g in m.groups() if g)
                        break
                out.append(f"{kind}: {name or s[:60]}")
    return sorted(set(out))


def simple(name):
    """verus function name -> comparable suffix (drop the crate/module prefix; Verus numbers anonymous impl blocks, which is not stable)"""
    n = name.split("::", 1)[1] if "::" in name else name
    return re.sub(r"impl&%\d+", "impl", n)


# ----------------------------------------------------------------------------------------------
# baseline / known findings

def load_json(path, default):
    try:
        return json.load(open(path))
    except FileNotFoundError:
        return default


def baseline():
    return load_json(os.path.join(VERIF, "baseline", "obligations.json"), {})


def known_findings():
    return load_json(os.path.join(VERIF, "known_findings.json"), {"findings": [], "fixed": []})


def rebaseline(units):
    units = units or sorted(registry.UNITS)
    b = baseline()
    with cf.ThreadPoolExecutor(max_workers=12) as ex:
        futs = {u: ex.submit(run_verus_unit, u) for u in units}
    bad = 0
    for u, f in futs.items():
        r = f.result()
        if r["status"] != "ok":
            log(f"[{u}] {r['status']}: {r.get('detail', '')[:2000]}")
            bad += 1
            continue
        passing = sorted(simple(n) for n, v in r["functions"].items() if v["success"])
        failing = sorted(simple(n) for n, v in r["functions"].items() if not v["success"])
        b[u] = {"passing": passing, "failing_at_baseline": failing,
                "extracted": sorted(nows(i["path"]) for i in r["items"] if i["kind"] == "fn")}
        log(f"[{u}] {len(passing)} passing, {len(failing)} failing {failing} ({r['wall_s']:.1f}s)")
        for e in r["errors"]:
            log(f"   - {e['function']}: {e['message']} @ {e['clause'][:120]}")
    os.makedirs(os.path.join(VERIF, "baseline"), exist_ok=True)
    json.dump(b, open(os.path.join(VERIF, "baseline", "obligations.json"), "w"), indent=1, sort_keys=True)
    return 1 if bad else 0


def nows(s):
    return "".join(s.split())


# ----------------------------------------------------------------------------------------------
# deciding one property

def decide_verus(prop, tier, seed, notes):
    """returns (obligation records, violations, undecided reasons, unit results)"""
    P = registry.PROPS[prop]
    units = list(P.get("verus", []))
    primary = [tuple(v) for v in P.get("variants", [()])]
    runs = [(u, v) for u in units for v in primary] + [(u, ("VACUITY",)) for u in units]
    if tier == "thorough":
        for var in P.get("thorough_variants", []):
            runs += [(u, tuple(var)) for u in units if registry.UNITS[u].get("variants", True)]
    b = baseline()
    results = {}
    with cf.ThreadPoolExecutor(max_workers=int(os.environ.get("VERIF_JOBS", "10"))) as ex:
        futs = {run: ex.submit(run_verus_unit, run[0], run[1], None, None, 1 if "VACUITY" in run[1] else 20) for run in runs}
        for run, f in futs.items():
            results[run] = f.result()
    obligations, violations, undecided = [], [], []
    script_lost = []
    for (u, var), r in results.items():
        label = u + ("[" + ",".join(var) + "]" if var else "")
        if r["status"] != "ok":
            if "VACUITY" not in var:
                script_lost.append({"unit": u, "label": label, "why": f"{r['status']}: {r.get('detail', '')[:1500]}"})
            continue
        if "VACUITY" in var:
            want = set(nows(i["path"]) for i in r["items"] if i["kind"] == "fn" and "original" in i and has_body(i))
            # imported contracts are probed in the unit that verifies their body
            got = set()
            for e in r["errors"]:
                m = re.search(r"VACUITY-PROBE (\S+)", e["clause"])
                if m and e["message"].startswith("assertion failed"):
                    got.add(m.group(1))
            missing = sorted(want - got)
            if missing:
                undecided.append(f"{label}: vacuous precondition/invariant (reachability probe proved) in {missing}")
            notes.setdefault("vacuity", {})[u] = {"probes": len(want), "reachable": len(want & got)}
            continue
        base = b.get(u)
        if base is None:
            undecided.append(f"{label}: no baseline recorded for this unit")
            continue
        passing_now = set(simple(n) for n, v in r["functions"].items() if v["success"])
        failing_now = set(simple(n) for n, v in r["functions"].items() if not v["success"])
        # errors that are attributed to a function by line mapping but whose function-level entry is missing
        for e in r["errors"]:
            if e["kind"] == "compile":
                undecided.append(f"{label}: verus rejected: {e['message']} @ {e['clause'][:200]}")
        lost = sorted(set(base["passing"]) - passing_now - failing_now)
        if lost:
            undecided.append(f"{label}: obligations present at baseline are missing now: {lost[:8]}")
        for n, v in sorted(r["functions"].items()):
            s = simple(n)
            rec = {"obligation": f"{label}::{s}", "backend": "verus+z3", "status": "discharged" if v["success"] else "failed",
                   "time_us": v["time_us"], "rlimit": v["rlimit"], "mode": v["mode"]}
            obligations.append(rec)
        if failing_now:
            # retry: higher rlimit, other seed (a proof that goes through once is sound)
            still = set(failing_now)
            attempts = [r]
            for (rl, sd) in ((40, None), (40, (seed or 0) + 17)):
                rr = run_verus_unit(u, var, rl, sd)
                attempts.append(rr)
                if rr["status"] != "ok":
                    continue
                ok_now = set(simple(n) for n, v in rr["functions"].items() if v["success"])
                recovered = still & ok_now
                for s in recovered:
                    for rec in obligations:
                        if rec["obligation"] == f"{label}::{s}":
                            rec["status"] = "discharged"
                            rec["note"] = f"needed rlimit={rl} seed={sd}"
                still -= recovered
                if not still:
                    break
            for s in sorted(still):
                errs = [e for e in r["errors"] if e["function"] and (s.endswith(e["function"]) or e["function"].endswith(s.split("::")[-1]))]
                kinds = set(e["kind"] for e in errs)
                if s not in base["passing"]:
                    if s in base.get("failing_at_baseline", []):
                        undecided.append(f"{label}::{s}: fails and also failed when the baseline was recorded (not a claimed obligation)")
                    else:
                        undecided.append(f"{label}::{s}: fails but is not in the recorded baseline (new obligation?)")
                    continue
                if kinds and kinds <= {"rlimit"}:
                    undecided.append(f"{label}::{s}: solver resource limit on all attempts")
                    continue
                contract_errs = [e for e in errs if e["kind"] == "verification" and not e["in_hint"] and "invariant" not in e["message"]]
                violations.append({"obligation": f"{label}::{s}", "unit": u, "variant": list(var), "function": s,
                                   "hint_only": not contract_errs, "errors": errs or [{"message": "function-level failure without located diagnostic"}]})
    # a unit that no longer extracts/compiles is 'undecided' unless its witness harness finds a concrete counterexample (run_property)
    for sl in script_lost:
        violations.append({"obligation": f"{sl['label']}::<unit>", "unit": sl["unit"], "variant": [], "function": "<unit>", "hint_only": True,
                           "script_lost": sl["why"], "errors": [{"message": "the unit no longer extracts or compiles (proof script lost its anchor)", "clause": sl["why"][:300]}]})
    return obligations, violations, undecided, results


def has_body(item):
    return "{" in item.get("original", "")


def match_known(prop, viol, kf):
    for f in kf.get("findings", []):
        if f["property"] != prop:
            continue
        if f.get("unit") == viol.get("unit") and f.get("function") == viol.get("function"):
            pat = f.get("clause_regex")
            if pat is None:
                return f
            for e in viol["errors"]:
                if re.search(pat, e.get("clause", "") + " " + e.get("message", "")):
                    return f
        if f.get("harness") and f.get("harness") == viol.get("harness"):
            pat = f.get("clause_regex")
            if pat is None or any(re.search(pat, e.get("clause", "") + " " + e.get("message", "")) for e in viol["errors"]):
                return f
    return None


def complete_witness_passed(viol, k_obl):
    """True when at least one Kani harness tied to the violated unit/function ran, every such harness is of kind `complete` and all of them were discharged."""
    unit, fn = viol.get("unit"), viol.get("function", "")
    tied = []
    for G in registry.KANI_GROUPS.values():
        for h in G["harnesses"]:
            if unit in h.get("witness_units", []):
                wf = h.get("witness_fns")
                if wf and not any(w in fn for w in wf):
                    continue
                tied.append(h)
    if not tied or any(h.get("kind", "complete") != "complete" for h in tied):
        return False
    ran = {o["obligation"].split("[")[0]: o for o in k_obl}
    return all(("kani::" + h["name"]) in ran and ran["kani::" + h["name"]]["status"] == "discharged" for h in tied)


def write_replay(prop, viol, witness):
    os.makedirs(os.path.join(VERIF, "replay", "out"), exist_ok=True)
    name = re.sub(r"[^A-Za-z0-9_.-]+", "_", viol["obligation"])
    path = os.path.join(VERIF, "replay", "out", f"{prop}-{name}.json")
    doc = {"property": prop, "obligation": viol["obligation"], "backend": viol.get("backend", "verus+z3"),
           "verifier_output": [e.get("rendered") or e.get("message") for e in viol["errors"]][:8],
           "failed_clauses": [{"message": e.get("message"), "clause": e.get("clause"), "function": e.get("function")} for e in viol["errors"]][:8],
           "witness": witness}
    json.dump(doc, open(path, "w"), indent=1)
    return path


def run_property(prop, tier, seed):
    t0 = time.time()
    P = registry.PROPS[prop]
    notes = {}
    kf = known_findings()
    obligations, violations, undecided, results = decide_verus(prop, tier, seed, notes)
    # assumptions that are backed by a source scan (exit 2 when the scanned-for construct appears)
    for ent in P.get("forbid_in_src", []):
        pat, why = ent[0], ent[1]
        only = ent[2] if len(ent) > 2 else None   # optional: restrict the scan to files whose repo-relative path matches
        hits = []
        for root, _, files in os.walk(os.path.join(REPO, "src")):
            for fn in files:
                if only and not re.search(only, os.path.relpath(os.path.join(root, fn), REPO)):
                    continue
                if fn.endswith(".rs"):
                    txt = open(os.path.join(root, fn), errors="replace").read().split("#[cfg(test)]")[0]
                    for ln, line in enumerate(txt.split("\n"), 1):
                        if re.search(pat, line) and not line.strip().startswith("//"):
                            hits.append(f"{os.path.relpath(os.path.join(root, fn), REPO)}:{ln}")
        notes.setdefault("src_scan", []).append({"pattern": pat, "hits": len(hits)})
        if hits:
            undecided.append(f"assumption no longer backed by the source scan ({why}): /{pat}/ at {hits[:5]}")
    # Kani harnesses (bit-precise obligations, bounded stand-ins, witnesses)
    k_obl, k_viol, k_und, k_info = kani_run.decide(prop, tier, seed, scratch(), REPO, need_witness_for=violations)
    obligations += k_obl
    undecided += k_und
    bounded = k_info.get("bounded", [])
    # hint-only failures are arbitrated by the witness harness
    final_viol = []
    for v in violations:
        w = kani_run.witness_for(v, k_info)
        if v["hint_only"] and not w:
            if v.get("script_lost"):
                undecided.append(f"{v['obligation']}: {v['script_lost']} — and the witness harness found no counterexample")
            else:
                undecided.append(f"{v['obligation']}: only proof-script hints/invariants fail and the witness harness found no counterexample (proof script no longer applies)")
            continue
        v["witness"] = w
        if not w and not v["hint_only"] and complete_witness_passed(v, k_obl):
            # a COMPLETE bit-precise Kani proof of the same function passed on this very tree: the deductive failure is a lost proof, not a violation
            undecided.append(f"{v['obligation']}: the contract no longer verifies, but the complete Kani harness(es) of this function pass on the same tree (proof script no longer applies)")
            continue
        final_viol.append(v)
    for v in k_viol:
        final_viol.append(v)
    printed_known = set()
    real = []
    for v in final_viol:
        f = match_known(prop, v, kf)
        if f:
            if f["id"] not in printed_known:
                print(f"KNOWN-FINDING: property={prop} {f['what']}")
                printed_known.add(f["id"])
            v["known"] = f["id"]
        else:
            real.append(v)
    # a known finding's guarded variant must pass (a different violation of the same clause still alarms):
    # guarded variants are ordinary units in the registry (name ends with _guarded) and are part of P['verus'].
    known_obl = set(v["obligation"] for v in final_viol if v.get("known"))
    proof_obl = [o for o in obligations if not o.get("bounded") and o["obligation"] not in known_obl]
    discharged = [o for o in proof_obl if o["status"] == "discharged"]
    known_failed = [o for o in proof_obl if o["status"] != "discharged"]
    items = []
    imported = set()
    rewrites = {}
    trusted = set(P.get("trusted_extra", []))
    for (u, var), r in results.items():
        if var:
            continue
        for it in r.get("items", []):
            if it.get("kind") == "imported-contract":
                imported.add(f"{u} uses the contract of {it['path']} verified in unit {it['from_unit']}")
                continue
            items.append({"unit": u, "file": it["file"], "path": it["path"], "lines": it["lines"],
                          "sha256": hashlib.sha256(it["original"].encode()).hexdigest()[:16],
                          "contract_clauses": it.get("contract_clauses", 0), "manual_rewrites": it.get("manual", [])})
            for k, n in it.get("rewrites", {}).items():
                rewrites[k] = rewrites.get(k, 0) + n
        for t in r.get("trusted", []):
            trusted.add(f"{u}: {t}")
    trusted |= set(k_info.get("trusted", []))
    samples = []
    for o in obligations[:400]:
        if len(samples) < 12 and o["status"] == "discharged" and o.get("mode", "exec") == "exec":
            samples.append({k: o[k] for k in ("obligation", "backend", "status") if k in o})
    for v in final_viol[:6]:
        samples.append({"obligation": v["obligation"], "status": "failed", "known": v.get("known"),
                        "clause": (v["errors"][0].get("clause") if v["errors"] else None)})
    ev = {
        "property_id": prop, "tier": tier, "seed": seed, "level": "proof",
        "coverage": {
            "obligations": len(proof_obl), "discharged": len(discharged),
            "failed_known_findings": sorted(known_obl),
            "checker_cmd": "; ".join(sorted(set(r["cmd"] for r in results.values() if r.get("cmd"))))[:4000] + ("; " + k_info.get("cmd", "") if k_info.get("cmd") else ""),
            "trusted_base": sorted(trusted),
            "functions_under_contract": items,
            "imported_contracts": len(imported),
            "rewrites": rewrites,
            "backends": sorted(set(o["backend"] for o in obligations)),
            "solver_ms": sum(r.get("solver_ms", 0) for r in results.values()) + k_info.get("solver_ms", 0),
            "bounded_checks": bounded,
            "vacuity": notes.get("vacuity", {}),
            "src_scan": notes.get("src_scan", []),
            "undecided": undecided[:20],
            "samples": samples or [{"note": "no obligations"}],
            "explanation": P.get("claim", ""),
        },
        "assumptions": P.get("assumptions", []) + registry.COMMON_ASSUMPTIONS,
        "wall_s": round(time.time() - t0, 2),
        "violations": len(real),
    }
    os.makedirs(os.path.join(VERIF, "evidence"), exist_ok=True)
    json.dump(ev, open(os.path.join(VERIF, "evidence", f"{prop}.json"), "w"), indent=1)
    log(f"[{prop}] obligations={len(proof_obl)} discharged={len(discharged)} bounded={len(bounded)} "
        f"violations={len(real)} known={len(printed_known)} undecided={len(undecided)} wall={ev['wall_s']}s")
    if real:
        for v in real:
            path = write_replay(prop, v, v.get("witness"))
            tail = "" if v.get("witness") else " no-failing-input-found"
            for e in v["errors"][:3]:
                log(f"  failed obligation {v['obligation']}: {e.get('message')} :: {e.get('clause', '')[:200]}")
            print(f"VIOLATION property={prop} replay={path}{tail}")
        return 1
    if undecided:
        for u in undecided:
            log(f"UNDECIDED: {u}")
        return UNDECIDED
    return 0


def main(argv):
    if argv and argv[0] == "--warm":
        ensure_vx()
        d = scratch()
        open(os.path.join(d, "w.rs"), "w").write("use vstd::prelude::*;\nverus!{ proof fn warm() ensures 1 + 1 == 2int {} }\nfn main(){}\n")
        r = subprocess.run(["verus", os.path.join(d, "w.rs")], capture_output=True, text=True)
        log(r.stdout.strip()[-200:])
        return 0 if r.returncode == 0 else UNDECIDED
    if argv and argv[0] == "--rebaseline":
        return rebaseline(argv[1:])
    if argv and argv[0] == "--unit":
        defs = tuple(argv[i + 1] for i, a in enumerate(argv) if a == "-D")
        keep = os.path.join("/tmp", f"vx-{argv[1]}.rs")
        r = run_verus_unit(argv[1], defs, keep=keep)
        print(f"status={r['status']} verified={r.get('verified')} errors={r.get('n_errors')} wall={r['wall_s']:.1f}s solver_ms={r.get('solver_ms')} (generated: {keep})")
        if r["status"] != "ok":
            print(r.get("detail", ""))
        for e in r["errors"]:
            print(e["rendered"] or e["message"])
        slow = sorted(r["functions"].items(), key=lambda kv: -kv[1]["time_us"])[:5]
        for n, v in slow:
            print(f"  {n}: {v['time_us'] // 1000} ms rlimit={v['rlimit']} ok={v['success']}")
        return 0 if r["status"] == "ok" and not r["errors"] else 1
    ap = argparse.ArgumentParser()
    ap.add_argument("prop")
    ap.add_argument("--tier", default=os.environ.get("VERIF_TIER", "quick"))
    ap.add_argument("--replay")
    a = ap.parse_args(argv)
    if a.prop not in registry.PROPS:
        log(f"unknown or unclaimed property {a.prop}")
        return UNDECIDED
    if a.replay:
        import replay
        return replay.run(a.prop, a.replay, REPO, scratch())
    seed = int(os.environ.get("VERIF_SEED", "0") or 0)
    return run_property(a.prop, a.tier if a.tier in ("quick", "thorough") else "quick", seed)
