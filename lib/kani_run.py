"""Engine K: Kani/CBMC harnesses appended to a scratch copy of the real crate (DESIGN §2, §2.6)."""
import json, os, re, shutil, subprocess, time

import registry

VERIF = os.path.dirname(os.path.dirname(os.path.abspath(__file__)))


def make_copy(repo, scratch, groups):
    """scratch copy of the crate with the harness modules appended to the named source files (no existing line is changed)"""
    dst = os.path.join(scratch, "kani-crate")
    if os.path.exists(dst):
        shutil.rmtree(dst)
    subprocess.run(["rsync", "-a", "--exclude", "target", "--exclude", ".git", repo.rstrip("/") + "/", dst + "/"], check=True)
    os.makedirs(os.path.join(dst, ".cargo"), exist_ok=True)
    with open(os.path.join(dst, ".cargo", "config.toml"), "w") as f:
        f.write("[net]\noffline = true\n")
    for g in groups:
        G = registry.KANI_GROUPS[g]
        text = open(os.path.join(VERIF, G["src"])).read()
        target = os.path.join(dst, G["append_to"])
        if not os.path.exists(target):
            return None, f"kani group {g}: {G['append_to']} no longer exists"
        with open(target, "a") as f:
            f.write("\n" + text)
    return dst, None


def run_harnesses(crate, names, timeout_s, jobs, extra=(), playback=False, features=()):
    out_json = os.path.join(crate, "..", f"kani-out-{int(time.time() * 1000)}.json")
    cmd = ["cargo", "kani", "--no-default-features"] + (["--features", ",".join(features)] if features else []) + ["-Z", "unstable-options", "-Z", "function-contracts", "-Z", "stubbing",
           "--harness-timeout", f"{timeout_s}s", "--output-format", "terse", "--export-json", out_json, "--exact"]
    if jobs > 1 and not playback:
        cmd += ["-j", str(jobs)]
    if playback:
        cmd += ["-Z", "concrete-playback", "--concrete-playback=print"]
    cmd += list(extra)
    for n in names:
        cmd += ["--harness", n]
    env = dict(os.environ, CARGO_NET_OFFLINE="true")
    t0 = time.time()
    try:
        p = subprocess.run(cmd, cwd=crate, capture_output=True, text=True, env=env, timeout=timeout_s * max(1, len(names)) + 600)
        stdout, stderr, rc = p.stdout, p.stderr, p.returncode
    except subprocess.TimeoutExpired as e:
        stdout, stderr, rc = (e.stdout or b"").decode(errors="replace") if isinstance(e.stdout, bytes) else (e.stdout or ""), "timeout", 124
    wall = time.time() - t0
    data = None
    if os.path.exists(out_json):
        try:
            data = json.load(open(out_json))
        except Exception:
            data = None
    return {"cmd": " ".join(cmd), "stdout": stdout, "stderr": stderr, "rc": rc, "wall": wall, "json": data}


def decide(prop, tier, seed, scratch, repo, need_witness_for=()):
    P = registry.PROPS[prop]
    groups = list(P.get("kani", []))
    info = {"bounded": [], "trusted": [], "cmd": "", "solver_ms": 0, "witnesses": {}}
    obligations, violations, undecided = [], [], []
    if not groups and not need_witness_for:
        return obligations, violations, undecided, info
    # harness selection for this property/tier
    sel = []
    need_units = set(v["unit"] for v in need_witness_for if v.get("unit"))
    need_fns = [v.get("function", "") for v in need_witness_for]
    for g in groups:
        for h in registry.KANI_GROUPS[g]["harnesses"]:
            if prop not in h.get("props", [prop]):
                continue
            if h.get("tier", "quick") == "thorough" and tier != "thorough":
                continue
            sel.append((g, h))
    # witness harnesses of units whose Verus obligations failed / whose proof script was lost: any group, any tier;
    # they only supply counterexamples (role witness-only) unless they also belong to this property
    for g, G in registry.KANI_GROUPS.items():
        for h in G["harnesses"]:
            if need_units & set(h.get("witness_units", [])) and not any(h2["name"] == h["name"] and tuple(h2.get("features", ())) == tuple(h.get("features", ())) for _, h2 in sel):
                # a harness may be tied to particular functions of its unit (witness_fns); a lost proof script ("<unit>") matches all
                wf = h.get("witness_fns")
                if wf and not any(f == "<unit>" or any(w in f for w in wf) for f in need_fns):
                    continue
                sel.append((g, dict(h, role="witness-only", timeout=h.get("witness_timeout", min(h.get("timeout", 300), 420)))))
    if not sel:
        return obligations, violations, undecided, info
    crate, err = make_copy(repo, scratch, sorted(set(g for g, _ in sel)))
    if err:
        undecided.append(err)
        return obligations, violations, undecided, info
    info["trusted"] = ["kani 0.68.0 + cbmc 6.11.0 (bit-precise IEEE floats, machine integers)",
                       "kani harness modules are appended to a scratch copy; no existing source line is changed"]
    jobs = int(os.environ.get("VERIF_KANI_JOBS", "6"))
    # one cargo-kani invocation per cargo feature set (C19 runs the window harnesses with unsafe_performance)
    parts = {}
    for g, h in sel:
        parts.setdefault(tuple(h.get("features", ())), []).append((g, h))
    for feats, psel in sorted(parts.items()):
        by_name = {}
        for g, h in psel:
            by_name[registry.KANI_GROUPS[g]["module"] + "::" + h["name"]] = (g, h)
        tmo = max(h.get("timeout", 300) for _, h in psel)
        suffix = ("[" + ",".join(feats) + "]") if feats else ""
        r = run_harnesses(crate, sorted(by_name), tmo, jobs, features=feats)
        info["cmd"] += ("; " if info["cmd"] else "scratch copy of /repo + kani/*.rs appended; ") + re.sub(r"--export-json \S+ ", "", r["cmd"])
        data = r["json"]
        if data is None:
            tail = (r["stdout"][-1500:] + "\n" + r["stderr"][-2500:]).strip()
            undecided.append(f"kani{suffix}: no result file (rc={r['rc']}): {tail}")
            continue
        results = {x["harness_id"]: x for x in data["verification_results"]["results"]}
        pdet = {x["harness_id"]: x["property_details"] for x in data.get("property_details", [])}
        failed = []
        for full, (g, h) in sorted(by_name.items()):
            res = results.get(full)
            kind = h.get("kind", "complete")
            rec = {"obligation": f"kani::{h['name']}{suffix}", "backend": "kani+cbmc(cadical)", "kind": kind}
            if kind != "complete" or h.get("role") == "witness-only":
                rec["bounded"] = True
            if res is None:
                rec["status"] = "missing"
                undecided.append(f"kani harness {h['name']}{suffix}: no result (build failure, timeout or harness no longer compiles): "
                                 + (r["stderr"][-1200:] if not results else ""))
                obligations.append(rec)
                continue
            pd = pdet.get(full, {})
            rec["checks"] = pd.get("total_properties", len(res.get("checks", [])))
            rec["time_ms"] = res.get("duration_ms", 0)
            info["solver_ms"] += res.get("duration_ms", 0)
            if rec["checks"] == 0:
                undecided.append(f"kani harness {h['name']}{suffix}: zero checks generated (vacuous)")
            st = res.get("status")
            if st == "Success":
                rec["status"] = "discharged"
                if kind != "complete":
                    info["bounded"].append({"harness": h["name"] + suffix, "bound": kind, "status": "passed", "checks": rec["checks"]})
            else:
                bad = [c for c in res.get("checks", []) if c.get("status") not in ("Success", "Unreachable", "Satisfied", "Covered")]
                real_bad = [c for c in bad if c.get("status") == "Failure"]
                if not real_bad:
                    rec["status"] = "undetermined"
                    undecided.append(f"kani harness {h['name']}{suffix}: {st} without a failed check (timeout / out of memory / unwinding): "
                                     + "; ".join(f"{c.get('description')} [{c.get('status')}]" for c in bad[:3]))
                else:
                    rec["status"] = "failed"
                    errs = [{"message": c.get("description", ""), "clause": f"{c.get('location', {}).get('file')}:{c.get('location', {}).get('line')} in {c.get('function')}",
                             "function": h["name"], "kind": "verification"} for c in real_bad[:6]]
                    failed.append((full, g, h, errs))
                if kind != "complete":
                    info["bounded"].append({"harness": h["name"] + suffix, "bound": kind, "status": rec["status"], "checks": rec["checks"]})
            obligations.append(rec)
        # counterexamples for failed harnesses
        for full, g, h, errs in failed:
            # a listed known finding already carries its witness in known_findings.json: no concrete playback needed
            w = None if h["name"] in known_harnesses() else playback(crate, full, h, tmo, feats)
            viol = {"obligation": f"kani::{h['name']}{suffix}", "unit": None, "harness": h["name"], "function": h["name"], "backend": "kani+cbmc",
                    "hint_only": False, "errors": errs, "witness": w}
            info["witnesses"][h["name"] + suffix] = {"witness": w, "units": h.get("witness_units", [])}
            if h.get("role") == "witness-only":
                continue  # only used to arbitrate / illustrate Verus failures
            violations.append(viol)
    return obligations, violations, undecided, info


def known_harnesses():
    try:
        kf = json.load(open(os.path.join(VERIF, "known_findings.json")))
    except Exception:
        return set()
    return set(f["harness"] for f in kf.get("findings", []) if f.get("harness"))


def playback(crate, full, h, tmo, feats=()):
    r = run_harnesses(crate, [full], tmo, 1, playback=True, features=feats)
    out = r["stdout"]
    m = re.search(r"Concrete playback unit test for `[^`]*`:\s*```\s*(.*?)```", out, re.S)
    if not m:
        return None
    test = m.group(1)
    vals = re.findall(r"//\s*(.+)\n\s*vec!\[([^\]]*)\]", test)
    return {"harness": h["name"], "features": list(feats), "concrete_values": [{"value": v.strip(), "bytes": b.strip()} for v, b in vals],
            "playback_test": test.strip()[:6000]}


def witness_for(viol, info):
    for name, w in info.get("witnesses", {}).items():
        if viol.get("unit") in w.get("units", []) and w.get("witness"):
            return w["witness"]
    return None
