"""What is verified for which property: Verus units (contracts/*.tpl), Kani harness groups (kani/*.rs)."""

COMMON_ASSUMPTIONS = [
    "Verus 0.2026.09.13 + Z3 and Kani 0.68 + CBMC 6.11 are sound; rustc front ends of both",
    "vx extraction: the rewrites R1-R7/RS/RM counted in coverage.rewrites preserve meaning (DESIGN 2.2); function bodies are /repo's text",
    "debug assertions are treated as enabled (the baseline suite runs a debug build)",
]

REALS = ("ValueType is modelled by exact reals (type R): every 'equals its definition' is an identity over reals; "
         "the size and growth of IEEE rounding error is NOT decided by this check")

UNITS = {
    "text_forms": dict(tpl="text_forms.rs.tpl", doc="core::Source text forms: FromStr::from_str, From<Source> for &str, and their round trip"),
    "ma_instance": dict(tpl="ma_instance.rs.tpl", variants=False, doc="the crate's own MA / MAInstance satisfy the MovingAverageConstructor / MovingAverage trait contract the generic indicators are verified against; MovingAverage facts for all 15 kinds"),
    "smm_serde": dict(tpl="smm_serde.rs.tpl", doc="methods::SMM hand-written Deserialize (sorted buffer and middle positions rebuilt from the window)"),
    "ma_dispatch": dict(tpl="ma_dispatch.rs.tpl", variants=False, doc="helpers::{MA, MAInstance}: init / ma_period / ma_type / next dispatch to the wrapped kind"),
    "ind_trend": dict(tpl="ind_trend.rs.tpl", doc="indicators::TrendStrengthIndex (signal 2 as implemented; see the C06 known finding)"),
    "hlc": dict(tpl="hlc.rs.tpl", doc="indicators::HLC (the high/low/close snapshot) and Candle::from"),
    "ind_cmo": dict(tpl="ind_cmo.rs.tpl", doc="indicators::ChandeMomentumOscillator"),
    "ind_rvi": dict(tpl="ind_rvi.rs.tpl", doc="indicators::RelativeVigorIndex"),
    "ind_kvo": dict(tpl="ind_kvo.rs.tpl", doc="indicators::{KlingerVolumeOscillator, WoodiesCCI} with helpers::{sign, signi}"),
    "ind_adx": dict(tpl="ind_adx.rs.tpl", doc="indicators::AverageDirectionalIndex (dir_mov, adx, next)"),
    "ind_ichimoku": dict(tpl="ind_ichimoku.rs.tpl", doc="indicators::IchimokuCloud with Action's PartialEq"),
    "ind_kama": dict(tpl="ind_kama.rs.tpl", doc="indicators::Kaufman with Action::{is_none, is_some}"),
    "ind_cks": dict(tpl="ind_cks.rs.tpl", doc="indicators::ChandeKrollStop"),
    "ind_fisher": dict(tpl="ind_fisher.rs.tpl", doc="indicators::FisherTransform"),
    "ind_pivot": dict(tpl="ind_pivot.rs.tpl", doc="indicators::PivotReversalStrategy (as implemented; see the C06 known finding)"),
    "ind_osc": dict(tpl="ind_osc.rs.tpl", doc="indicators::DetrendedPriceOscillator"),
    "ind_tsi": dict(tpl="ind_tsi.rs.tpl", doc="indicators::{TrueStrengthIndex, SMIErgodicIndicator, MomentumIndex}"),
    "ind_kst": dict(tpl="ind_kst.rs.tpl", doc="indicators::{KnowSureThing, ChaikinOscillator}"),
    "ind_rev": dict(tpl="ind_rev.rs.tpl", doc="indicators::{Trix, CoppockCurve, AwesomeOscillator}"),
    "ind_cci": dict(tpl="ind_cci.rs.tpl", doc="indicators::{CommodityChannelIndex, HullMovingAverage}"),
    "ind_vol": dict(tpl="ind_vol.rs.tpl", doc="indicators::{EaseOfMovement, EldersForceIndex} with indicators::HLC and Candle::from"),
    "median_abs_dev": dict(tpl="median_abs_dev.rs.tpl", doc="methods::MedianAbsDev over the SMM contract"),
    "smm": dict(tpl="smm.rs.tpl", doc="methods::SMM with smm::{get, next_half, find_index, find_insert_index}"),
    "ind_psar": dict(tpl="ind_psar.rs.tpl", doc="indicators::ParabolicSAR (+ HLC)"),
    "ind_mfi": dict(tpl="ind_mfi.rs.tpl", doc="indicators::MoneyFlowIndex"),
    "ind_stoch_cmf": dict(tpl="ind_stoch_cmf.rs.tpl", doc="indicators::{ChaikinMoneyFlow, StochasticOscillator}"),
    "ind_aroon": dict(tpl="ind_aroon.rs.tpl", doc="indicators::Aroon"),
    "swma": dict(tpl="swma.rs.tpl", doc="methods::SWMA"),
    "conv": dict(tpl="conv.rs.tpl", doc="methods::Conv"),
    "lin_reg": dict(tpl="lin_reg.rs.tpl", doc="methods::LinReg"),
    "indicator_over": dict(tpl="indicator_over.rs.tpl", doc="IndicatorInstance::over and IndicatorConfig::over, generic in the indicator"),
    "ind_more": dict(tpl="ind_more.rs.tpl", doc="indicators::{Envelopes, KeltnerChannel} (generic in the moving-average constructor)"),
    "reversal": dict(tpl="reversal.rs.tpl", doc="methods::{UpperReversalSignal, LowerReversalSignal, ReversalSignal}"),
    "window_serde": dict(tpl="window_serde.rs.tpl", doc="Window's hand-written Deserialize checks + snapshot round trip"),
    "ma_laws": dict(tpl="ma_laws.rs.tpl", doc="C15 laws over the SMA/WMA definitions and the EMA recurrence; MovingAverage trait facts for SMA/WMA/EMA"),
    "ma_text": dict(tpl="ma_text.rs.tpl", variants=False, doc="helpers::MA's FromStr (`<name>-<period>`), C18"),
    "ma_laws2": dict(tpl="ma_laws2.rs.tpl", variants=False, doc="C15 affine equivariance for the remaining kinds (SWMA, LinReg, VWMA, Conv definitions; RMA, WSMA, DMA, TMA, DEMA, TEMA, TRIMA, HMA as relational one-step lemmas); VWMA/Conv range for non-negative weights"),
    "converters": dict(tpl="converters.rs.tpl", doc="methods::{CollapseTimeframe<Candle>, Renko, RenkoOutput}"),
    "ind_rsi": dict(tpl="ind_rsi.rs.tpl", doc="indicators::RelativeStrengthIndex (generic in the moving-average constructor)"),
    "ind_channels": dict(tpl="ind_channels.rs.tpl", doc="indicators::{DonchianChannel, PriceChannelStrategy, BollingerBands}"),
    "ind_macd": dict(tpl="ind_macd.rs.tpl", doc="indicators::MACD (generic in the moving-average constructor)"),
    "indicator_base": dict(tpl="indicator_base.rs.tpl", doc="Action (integer part), CrossAbove/CrossUnder/Cross over reals"),
    "indicator_set": dict(generator="gen_set_unit.py", doc="IndicatorConfig::set of all 36 shipped indicators; contracts generated from the public field lists"),
    "combinators": dict(tpl="combinators.rs.tpl", doc="Sequence::call, Method::over/new_over, WithHistory, WithLastValue, generic in M: Method"),
    "highest_lowest_index": dict(tpl="highest_lowest_index.rs.tpl", doc="methods::{HighestIndex, LowestIndex}"),
    "highest_lowest": dict(tpl="highest_lowest.rs.tpl", doc="methods::{Highest, Lowest, HighestLowestDelta}"),
    "derived_window": dict(tpl="derived_window.rs.tpl", doc="methods::{LinearVolatility, Vidya}: windows over one-step changes"),
    "candle_methods": dict(tpl="candle_methods.rs.tpl", doc="methods::{TR, HeikinAshi, ADI} on an arbitrary dyn OHLCV"),
    "ohlcv": dict(tpl="ohlcv.rs.tpl", doc="core::OHLCV provided methods, Candle accessors, Source"),
    "ema": dict(tpl="ema.rs.tpl", doc="methods::{EMA, DMA, TMA, DEMA, TEMA, RMA, WSMA, TSI}"),
    "compose_ma": dict(tpl="compose_ma.rs.tpl", doc="methods::{TRIMA, HMA} by composition of the SMA/WMA contracts"),
    "st_dev": dict(tpl="st_dev.rs.tpl", doc="methods::StDev"),
    "vwma": dict(tpl="vwma.rs.tpl", doc="methods::VWMA"),
    "wma": dict(tpl="wma.rs.tpl", doc="methods::WMA"),
    "mean_abs_dev": dict(tpl="mean_abs_dev.rs.tpl", doc="methods::{MeanAbsDev, CCI}"),
    "simple_window": dict(tpl="simple_window.rs.tpl", doc="methods::{Momentum, Derivative, RateOfChange, Past, Integral}"),
    "sma": dict(tpl="sma.rs.tpl", doc="methods::SMA"),
    "window": dict(tpl="window.rs.tpl", doc="core::Window<T>, WindowIterator, ReversedWindowIterator: every fn under contract"),
}

KANI_GROUPS = {
    "result": dict(
        src="kani/result.rs", append_to="src/core/indicator/result.rs", module="core::indicator::result::verif_result",
        harnesses=[dict(name="vk_indicator_result_new", kind="complete", timeout=600, tier="quick")]),
    "witness": dict(
        src="kani/witness.rs", append_to="src/lib.rs", module="verif_witness",
        harnesses=[
            dict(name="vk_tsi_recurrence_2steps", kind="bounded(TSI(1,2), 2 steps, integer inputs in -8..=8)", timeout=900, tier="thorough", props=["C03"], witness_units=["ema"], witness_fns=["TSI::"]),
            dict(name="vk_ema_recurrence_3steps", kind="bounded(EMA(3), 3 steps, integer inputs in -8..=8)", timeout=900, tier="thorough", props=["C03"], witness_units=["ema"], witness_fns=["EMA::", "DMA::", "TMA::", "DEMA::", "TEMA::", "WSMA::"]),
            dict(name="vk_vidya_recurrence_4steps", kind="bounded(Vidya(2), 4 steps, integer inputs in -8..=8)", timeout=900, tier="thorough", props=["C03"], witness_units=["derived_window"], witness_fns=["Vidya::"]),
            dict(name="vk_sequence_apply_is_stream", kind="bounded(Change(1), 4 inputs in -8..=8)", timeout=300, props=["C09"], witness_units=["combinators"], witness_fns=["seq_apply", "apply"]),
            dict(name="vk_sequence_apply_is_stream_odd", kind="bounded(Change(1), 3 inputs then a 1-element chunk, in -8..=8)", timeout=300, props=["C09"], witness_units=["combinators"], witness_fns=["seq_apply", "apply"]),
            dict(name="vk_method_new_apply_is_stream", kind="bounded(Change(1), 4 inputs in -8..=8)", timeout=300, props=["C09"], witness_units=["combinators"], witness_fns=["new_apply", "seq_apply"]),
            dict(name="vk_method_new_fn_is_stream", kind="bounded(Change(1), 3 inputs in -8..=8)", timeout=300, props=["C09"], witness_units=["combinators"], witness_fns=["new_fn"]),
            dict(name="vk_conv_l3_weight_profile", kind="bounded(Conv over two 3-weight kernels, one with a zero last weight; 3 steps, integer inputs in -8..=8)", timeout=600, witness_timeout=240, props=["C15", "C02"], witness_units=["conv"], witness_fns=["Conv::"]),
            dict(name="vk_vidya_no_overshoot_3steps", kind="bounded(Vidya(3), 3 steps over {0,1,2})", timeout=600, props=["C12"], witness_units=["derived_window"], witness_fns=["Vidya::"]),
            dict(name="vk_rsi_sma_no_panic_4steps", kind="bounded(RSI<SMA(3)>, 4 steps, integer closes)", timeout=900, tier="thorough", props=["C10", "C12"], witness_units=["ind_rsi"]),
        ]),
    "indicators": dict(
        src="kani/indicators.rs", append_to="src/indicators/mod.rs", module="indicators::verif_indicators",
        harnesses=[
            dict(name="vk_pivot_reversal_silent_without_pivot", kind="bounded(concrete strictly rising stream, 4 candles)", timeout=300, props=["C06"]),
            dict(name="vk_trend_strength_signal2_sign", kind="bounded(concrete stream, 5 candles)", timeout=600, props=["C06"]),
            dict(name="vk_trix_constant_candle", kind="bounded(Trix::default(), one concrete candle repeated 3 times)", timeout=600, props=["C08"]),
            dict(name="vk_rvi_constant_candle", kind="bounded(RelativeVigorIndex::default(), one concrete candle repeated 3 times)", timeout=600, props=["C08"]),
            dict(name="vk_dyn_forwarding_momentum_index", kind="bounded(MomentumIndex(2,1) through dyn dispatch: 3 symbolic steps, then over() on 2 more, then 1 step)", timeout=300, props=["C11"]),
            dict(name="vk_init_fn_is_stream", kind="bounded(MomentumIndex(2,1): init_fn's boxed closure against init + next, 3 symbolic steps)", timeout=300, props=["C09"]),
            dict(name="vk_default_configs_validate", kind="complete", timeout=300, props=["C11"]),
            dict(name="vk_default_configs_init_a", kind="bounded(default configurations of 18 indicators, init on one concrete valid candle)", timeout=1200, tier="thorough", props=["C11"]),
            dict(name="vk_default_configs_init_b", kind="bounded(default configurations of the other 18 indicators, init on one concrete valid candle)", timeout=1200, tier="thorough", props=["C11"]),
            dict(name="vk_pivot_reversal_low_pivot_buys", kind="bounded(concrete stream with one low pivot, 4 candles)", timeout=300, props=["C06"]),
        ]),
    "renko": dict(
        src="kani/renko.rs", append_to="src/methods/renko.rs", module="methods::renko::verif_renko",
        harnesses=[dict(name="vk_renko_boundary_concrete", kind="bounded(one concrete boundary price)", timeout=300, tier="quick"),
                   dict(name="vk_renko_up_symbolic", kind="complete", timeout=600, tier="quick"),
                   dict(name="vk_renko_down_symbolic", kind="complete", timeout=600, tier="quick"),
                   dict(name="vk_sequence_collapse_timeframe_l4", kind="bounded(Sequence::collapse_timeframe over 4 candles with integer fields in 0..=15, size 2, both modes)", timeout=900, tier="quick", props=["C17"])]),
    "text": dict(
        src="kani/text.rs", append_to="src/core/candles.rs", module="core::candles::verif_text",
        # vk_source_text_roundtrip / vk_source_parse_total_len3 (symbolic strings) stay in the file but are not registered: CBMC does not finish them
        harnesses=[dict(name="vk_source_concrete_spellings", kind="bounded(six concrete texts through the real to_ascii_lowercase/trim/match)", timeout=300, props=["C18"], witness_units=["text_forms"]),
                   dict(name="vk_ma_concrete_spellings", kind="bounded(six concrete texts through the real split_once/parse/match)", timeout=300, props=["C18"], witness_units=["ma_text"])]),
    "ohlcv": dict(
        src="kani/ohlcv.rs", append_to="src/core/ohlcv.rs", module="core::ohlcv::verif_ohlcv",
        harnesses=[dict(name=n, kind="complete", timeout=600, tier="quick") for n in
                   ["vk_ohlcv_source_dispatch", "vk_ohlcv_clv_zero_range", "vk_ohlcv_validate"]]
                  + [dict(name="vk_ohlcv_tr_close", kind="bounded(integer-valued prices: every i16 triple with high >= low)", timeout=900, tier="thorough")]),
    "methods": dict(
        src="kani/methods.rs", append_to="src/methods/mod.rs", module="methods::verif_methods",
        harnesses=[
            dict(name="vk_highest_l3", kind="bounded(L=3, 5 steps)", timeout=600, props=["C04"], witness_units=["highest_lowest"]),
            dict(name="vk_lowest_l3", kind="bounded(L=3, 5 steps)", timeout=600, props=["C04"], witness_units=["highest_lowest"]),
            dict(name="vk_highest_lowest_delta_l3", kind="bounded(L=3, 5 steps over a 5-letter alphabet incl. both zeros)", timeout=300, props=["C04"], witness_units=["highest_lowest"]),
            dict(name="vk_highest_index_l3", kind="bounded(L=3, 5 steps)", timeout=600, props=["C04"], witness_units=["highest_lowest_index"]),
            dict(name="vk_lowest_index_l3", kind="bounded(L=3, 5 steps)", timeout=600, props=["C04"], witness_units=["highest_lowest_index"]),
            dict(name="vk_smm_l3", kind="bounded(L=3, 5 steps over a 5-letter alphabet incl. both zeros)", timeout=1800, tier="thorough", props=["C04"]),
            dict(name="vk_smm_l1_bits", kind="bounded(L=1, 3 steps over a 5-letter alphabet incl. both zeros)", timeout=900, tier="thorough", props=["C04"]),
            dict(name="vk_smm_l1_bits", kind="bounded(L=1, 3 steps over a 5-letter alphabet incl. both zeros, unsafe_performance)", timeout=900, tier="thorough", props=["C19"], features=["unsafe_performance"]),
            dict(name="vk_smm_l3_quad", kind="bounded(L=3, 5 steps over {1,2,3,5})", timeout=1800, witness_timeout=1800, tier="thorough", props=["C04"], witness_units=["smm"], witness_fns=["SMM::next", "find_index", "find_insert_index", "next_half", "<unit>"]),
            dict(name="vk_smm_l3_quad", kind="bounded(L=3, 5 steps over {1,2,3,5}, unsafe_performance)", timeout=1800, witness_timeout=1800, tier="thorough", props=["C04", "C19"], features=["unsafe_performance"], witness_units=["smm"], witness_fns=["SMM::next", "find_index", "find_insert_index", "next_half", "<unit>"]),
            dict(name="vk_smm_l3_guarded", kind="bounded(L=3, 5 steps over a 5-letter alphabet, no negative zero)", timeout=1800, tier="thorough", props=["C04"]),
            dict(name="vk_reversal_upper_l3", kind="bounded((1,1), 6 steps over a 5-letter alphabet)", timeout=600, props=["C14"], witness_units=["reversal"]),
            dict(name="vk_reversal_lower_l3", kind="bounded((1,1), 6 steps over a 5-letter alphabet)", timeout=600, props=["C14"], witness_units=["reversal"]),
            dict(name="vk_reversal_upper_l5", kind="bounded((2,2), 10 steps over 3 levels)", timeout=600, props=["C14"], witness_units=["reversal"]),
            dict(name="vk_reversal_lower_l5", kind="bounded((2,2), 10 steps over 3 levels)", timeout=600, props=["C14"], witness_units=["reversal"]),
            dict(name="vk_reversal_upper_warmup_l3", kind="bounded((1,1), the 3 warm-up steps over a 5-letter alphabet)", timeout=600, props=["C14"], witness_units=["reversal"]),
            dict(name="vk_reversal_lower_warmup_l3", kind="bounded((1,1), the 3 warm-up steps over a 5-letter alphabet)", timeout=600, props=["C14"], witness_units=["reversal"]),
            dict(name="vk_reversal_upper_warmup_l4", kind="bounded((2,1), the first 5 steps over a 5-letter alphabet)", timeout=600, props=["C14"], witness_units=["reversal"]),
            dict(name="vk_reversal_long_stream", kind="bounded(concrete zigzag, 300 steps)", timeout=600, props=["C14", "C07"]),
            dict(name="vk_reversal_long_stream_guarded", kind="bounded(concrete zigzag, 255 steps)", timeout=600, props=["C14", "C07"]),
            dict(name="vk_cross_above_under", kind="complete", timeout=600, props=["C14"]),
            dict(name="vk_cross_swap_negates", kind="complete", timeout=600, props=["C14"]),
            dict(name="vk_cross_two_steps", kind="complete", timeout=600, props=["C14"]),
        ]),
    "action": dict(
        src="kani/action.rs", append_to="src/core/action.rs", module="core::action::verif_action",
        harnesses=[dict(name=n, kind="complete", timeout=t, tier=tier) for (n, t, tier) in [
            ("vk_action_from_i8", 120, "quick"), ("vk_action_from_f64_total", 300, "quick"), ("vk_action_from_f32_total", 300, "quick"),
            ("vk_action_from_f64_monotone", 600, "thorough"), ("vk_action_ratio_roundtrip", 300, "quick"), ("vk_action_neg", 120, "quick"),
            ("vk_action_sub", 300, "quick"), ("vk_action_eq_equivalence", 300, "quick"), ("vk_action_ord_consistent", 120, "quick"), ("vk_action_ord_consistent_guarded", 120, "quick"),
            ("vk_action_ord_total_order", 300, "quick")]]),
    "window": dict(
        src="kani/window.rs", append_to="src/core/window.rs", module="core::window::verif_window",
        harnesses=[
            dict(name="vk_window_slice_index", kind="complete", timeout=300, props=["C01"], witness_units=["window"]),
            dict(name="vk_window_index_newest_oldest", kind="complete", timeout=300, props=["C01"], witness_units=["window"]),
            dict(name="vk_window_get", kind="complete", timeout=300, props=["C01"], witness_units=["window"]),
            dict(name="vk_window_push", kind="complete", timeout=300, props=["C01"], witness_units=["window"]),
            dict(name="vk_window_iter_steps", kind="complete", timeout=300, props=["C01"], witness_units=["window"]),
            dict(name="vk_window_iter_last", kind="complete", timeout=300, props=["C01"], witness_units=["window"]),
            dict(name="vk_window_empty", kind="complete", timeout=300, props=["C01"], witness_units=["window"]),
            dict(name="vk_window_from_parts", kind="bounded(length 5, every oldest-index)", timeout=300, props=["C01", "C13"], witness_units=["window", "window_serde"]),
        ] + [dict(name=n, kind="complete", timeout=300, props=["C19"], features=["unsafe_performance"]) for n in
             ["vk_window_slice_index", "vk_window_index_newest_oldest", "vk_window_get", "vk_window_push", "vk_window_iter_steps", "vk_window_iter_last", "vk_window_empty"]] + [
        ]),
}

INDICATOR_UNITS = ["ind_macd", "ind_channels", "ind_rsi", "ind_more", "ind_aroon", "ind_stoch_cmf", "ind_psar", "ind_mfi",
                   "ind_osc", "ind_tsi", "ind_kst", "ind_rev", "ind_cci", "ind_vol",
                   "ind_cmo", "ind_rvi", "ind_kvo", "ind_adx", "ind_ichimoku", "ind_kama", "ind_cks", "ind_fisher", "ind_pivot", "ind_trend"]
IND_DEPS = ["indicator_base", "ohlcv", "window", "sma", "st_dev", "highest_lowest", "highest_lowest_index", "ema", "wma", "candle_methods", "hlc"]
COVERED_INDICATORS = ("MACD, DonchianChannel, PriceChannelStrategy, BollingerBands, RelativeStrengthIndex, Envelopes, KeltnerChannel, Aroon, ChaikinMoneyFlow, "
    "StochasticOscillator, ParabolicSAR, MoneyFlowIndex, DetrendedPriceOscillator, TrueStrengthIndex, SMIErgodicIndicator, MomentumIndex, KnowSureThing, "
    "ChaikinOscillator, Trix, CoppockCurve, AwesomeOscillator, CommodityChannelIndex, HullMovingAverage, EaseOfMovement, EldersForceIndex, "
    "ChandeMomentumOscillator, RelativeVigorIndex, KlingerVolumeOscillator, WoodiesCCI, AverageDirectionalIndex, IchimokuCloud, Kaufman, ChandeKrollStop, "
    "FisherTransform, PivotReversalStrategy, TrendStrengthIndex")


PROPS = {
    "C01": dict(
        verus=["window"], kani=["window"],
        thorough_variants=[("PT_U16",), ("PT_U32",), ("PT_U64",)],
        claim=("Every fn of core::Window and both iterators is verified (Verus, unbounded: all capacities 0..MAX-1, all ring phases, "
               "generic T) against the abstract view 'the last N pushed values, oldest first'; the u8 index kernels are re-proved "
               "bit-precisely by Kani over the whole (size,index,arg) domain with a labelled buffer (loop-free, complete)."),
        assumptions=["std specs assumed: mem::replace, Vec->Box<[T]> conversion, slice get_unchecked(_mut) (in-bounds precondition is an obligation)",
                     "the hand-written Deserialize of Window is verified in unit window_serde (C13); from_parts is specified over the abstract sequence only",
                     "Iterator/Index/From impls are checked as inherent fns with the same bodies (R12)"],
    ),
}

C02_UNITS = ["window", "sma", "simple_window", "wma", "vwma", "st_dev", "mean_abs_dev", "compose_ma", "derived_window", "candle_methods", "ohlcv", "lin_reg", "swma", "conv", "median_abs_dev"]

PROPS["C02"] = dict(
    verus=C02_UNITS,
    claim=("For each method under contract, new establishes the representation invariant and next preserves it and returns the documented "
           "formula as a spec function of the abstract window contents (the last `length` inputs, construction value first), for every "
           "length the constructor accepts, every stream and every position: induction over next, decided by Verus over exact reals."),
    assumptions=[REALS,
                 "sqrt is uninterpreted except r>=0 and r*r==x for x>=0 (axiom_sqrt); cloning a pair of values yields an equal pair (axiom_pair_clone)",
                 "std::slice::Iter is modelled by prelude SliceIt (verified exec code); iterator adapters are desugared by rule R8 to loops over next()",
                 "methods not listed in coverage.functions_under_contract are not covered by this claim"],
)

PROPS["C03"] = dict(
    verus=["ema", "derived_window", "candle_methods", "simple_window", "ohlcv", "window"],
    claim=("Each recursive method's next is verified against its documented recurrence as a one-step relation over exact reals "
           "(EMA alpha*(n+1)==2; RMA/WSMA alpha*n==1; DMA/TMA/DEMA/TEMA by composition of the EMA contract; TSI with its >0 guard; "
           "Vidya with the CMO of the window of changes; TR; HeikinAshi; cumulative Integral/ADI), new establishes the seed the documentation "
           "prescribes; 'applied to the whole stream' is induction over that step, which holds for every state satisfying the invariant."),
    assumptions=[REALS, "dyn OHLCV inputs are modelled by an opaque candle with five uninterpreted pure accessors (R10)"],
)

PROPS["C16"] = dict(
    kani=["action"],
    claim=("Every clause is a loop-free Kani harness over the full input domain (all 513 actions, all pairs/triples, every i8, every f32 and "
           "f64 bit pattern as symbolic values), so each passing harness is a complete bit-precise proof, not a bounded check."),
    assumptions=["IEEE-754 semantics of CBMC's float theory (round-to-nearest-even) match the target's"],
    technique="Kani/CBMC loop-free harnesses over full symbolic domains on the real functions (complete, bit-precise)",
)

PROPS["C04"] = dict(
    verus=["highest_lowest", "highest_lowest_index", "smm", "window"], kani=["methods"],
    claim=("Highest, Lowest, HighestLowestDelta, HighestIndex and LowestIndex are verified (Verus, unbounded) against 'the result is an element of "
           "the window and none is larger/smaller' and 'the age of the newest extremal element', with the rescan loops desugared from the real fold "
           "chains; only comparisons and bit-equality touch the values, so the order model is exact. SMM is verified (Verus, unbounded: every length, "
           "every history) against 'the output is the median of the multiset of window values': representation invariant 'slice is sorted and a "
           "numeric permutation of the window', binary searches find_index / find_insert_index / next_half with decreases clauses, both arms of the "
           "sorted-slice shift (copy_within / ptr::copy under unsafe_performance). The bounded Kani SMM harnesses remain in the thorough tier as "
           "bit-level witnesses (both zeros)."),
    assumptions=["order model: comparisons on reals, bit patterns equal iff value and zero-sign equal (bits_axiom); NaN/inf excluded (the methods reject or assert them)",
                 "SMM: next_half's fn-pointer parameter is specialised mechanically into its two instantiations (rename + //@replace of the call `f(...)`); "
                 "smm::get's SliceIndex-generic signature is replaced by its two uses (usize index, range-from / range-to) via //@sig; "
                 "std::ptr::copy on the slice is replaced by slice_copy_within (assumed std contract, same index arithmetic obligations)",
                 "MedianAbsDev (median_abs_dev unit, C02) is verified over the SMM contract"],
)

METHOD_UNITS = ["sma", "simple_window", "wma", "vwma", "st_dev", "mean_abs_dev", "compose_ma", "ema", "derived_window",
                "candle_methods", "highest_lowest", "highest_lowest_index", "lin_reg", "swma", "conv", "smm", "median_abs_dev"]
ALL_VERUS = ["window", "ohlcv"] + METHOD_UNITS + ["indicator_base", "combinators", "converters"] + INDICATOR_UNITS + ["reversal", "indicator_over", "window_serde"]

PROPS["C08"] = dict(
    verus=ALL_VERUS, kani=["indicators"],
    claim=("Per method under contract: new(p, v) establishes the constant state for v (fresh: window view == [v; n] / recurrences at their fixed "
           "point) and a proof fn <method>_const_step shows that next(v) from a constant state returns the constant output and stays in that state; "
           "one inductive step, verified over the contracts (exact for selections and indices, equality over reals for arithmetic outputs). "
           "Prefix invariance follows because k leading copies leave the same abstract state as new."),
    assumptions=[REALS, "indicator-level constancy (an indicator initialised with a candle and fed that candle) is PROVED for 33 of the 36 indicators - MACD, Envelopes, KeltnerChannel, DetrendedPriceOscillator, MomentumIndex, "
                 "TrueStrengthIndex, SMIErgodicIndicator, KnowSureThing, DonchianChannel, PriceChannelStrategy, BollingerBands, ChandeMomentumOscillator, KlingerVolumeOscillator, EaseOfMovement, EldersForceIndex, "
                 "RelativeStrengthIndex, CommodityChannelIndex, WoodiesCCI, ChaikinMoneyFlow (positive volume), StochasticOscillator, IchimokuCloud, AverageDirectionalIndex (ordered candle), "
                 "Kaufman, FisherTransform (values; non-zero price), Trix, CoppockCurve (non-zero price), AwesomeOscillator, Aroon, HullMovingAverage, MoneyFlowIndex, ChandeKrollStop (ordered candle), "
                 "PivotReversalStrategy (the same signal on every step) and ParabolicSAR (non-negative acceleration step, low <= high; SAR and trend constant from the first step, the signal reports the "
                 "initial trend on the first candle only - the documented exemption): `init` is verified to establish a const_state predicate and a proof fn <indicator>_const_step shows that one step on the same "
                 "candle returns the constant outputs (no signal) and stays in that state; for the generic ones this holds for averaging kinds that cannot overshoot (11 of the crate's 15 kinds, unit ma_instance). "
                 "The embedded pivot detectors are covered by reversal_const_step (a constant stream that starts with the construction value never fires). "
                 "Not proved: TrendStrengthIndex (0/0 on a flat window), RelativeVigorIndex (listed known finding, bounded Kani harness) and ChaikinOscillator (exempt: cumulative ADI by default). "
                 "A native sweep of all 36 default configurations on one repeated candle (not evidence) showed only the exempt ones (ChaikinOscillator with the cumulative ADI, ParabolicSAR's first step) and RVI changing",
                 "methods without a *_const_step lemma in coverage.samples/functions are not covered"],
)
PROPS["C10"] = dict(
    verus=ALL_VERUS + ["ma_dispatch", "hlc"],
    claim=("Every panic site of the extracted functions (assert!/debug_assert!, unwrap, integer overflow, slice indexing, push on an empty window) "
           "is a proof obligation. For each method under contract `new` is verified for EVERY parameter value (its precondition new_req is `true`; "
           "for WMA/HMA it only excludes lengths >= 2^32 that exist under period_type_u64) to return Err for the documented too-small lengths and "
           "otherwise Ok with the invariant, and `next` is verified panic-free from the invariant alone for every input."),
    assumptions=[REALS + " (a float division by zero is not a panic)",
                 "indicator validate/init/next of all 36 shipped indicators are covered (init is verified for EVERY configuration: Err when validate() is false, no panic otherwise; "
                 "HullMovingAverage and TrendStrengthIndex only for periods that fit the usize arithmetic of their constructors, which matters under period_type_u64 only); "
                 "string parsing is covered by C11/C18, not here",
                 "WoodiesCCI's bar counter (isize) and ParabolicSAR's acceleration counter (u32) are assumed not to reach their maxima (2^63 / 2^32 bars on one side)",
                 "debug assertions are treated as enabled"],
)
PROPS["C19"] = dict(
    verus=["window", "smm"], kani=["window", "methods"],
    claim=("cfg!(feature = \"unsafe_performance\") is replaced by an unconstrained boolean inside the same extracted functions (rule R6), so every "
           "Window/WindowIterator/ReversedWindowIterator postcondition is proved for both code paths (identical observable results) and every "
           "get_unchecked / get_unchecked_mut carries its in-bounds precondition as an obligation discharged from the representation invariant, "
           "for all states. The SMM half of the feature is under contract too: both cfg variants of smm::get are extracted (the unchecked one carries "
           "its in-bounds precondition at every call site in find_index / find_insert_index / next_half / peek), and the ptr::copy arm of SMM::next is "
           "verified with its source range, destination range and count in bounds and to produce the same sorted slice as the safe arm."),
    assumptions=["the std contracts of the unchecked slice operations themselves (slice_get_unchecked*, slice_copy_within standing for ptr::copy on one slice)",
                 "raw-pointer aliasing of ptr::copy is not modelled: the call is replaced (//@replace, listed in the unit's dropped list) by a memmove on the same slice"],
)
PROPS["C20"] = dict(
    verus=ALL_VERUS, variants=[("PT_U16",), ("PT_U64",)], thorough_variants=[("PT_U32",)],
    claim=("Every Verus unit is re-verified with PeriodType bound to u16 and u64 (u32 in the thorough tier): the same contracts (definitional "
           "equalities, panic-freedom, casts without truncation) hold for window lengths beyond 255 with no bound; results for parameters that fit "
           "the default type coincide in the model because both builds meet the same functional postcondition."),
    assumptions=[REALS, "value_type_f32 changes only rounding, which the real model does not see: not decided",
                 "WMA/HMA: lengths >= 2^32 (period_type_u64 only) are excluded by the constructor precondition (usize product overflow)"],
)
PROPS["C07"] = dict(
    verus=ALL_VERUS, kani=["methods"],
    claim=("Every contract is an inductive invariant: next's postcondition is proved from ANY state satisfying inv, so it holds after arbitrarily "
           "many steps; for finite-window methods step depends only on the abstract window view, so an instance with a long past behaves like a "
           "fresh one primed with the last window. Internal counters: HighestIndex/LowestIndex `index += 1` is proved overflow-free from index < length. "
           "The reversal detectors' absolute PeriodType positions saturate: verified definitional up to that point, known finding beyond it."),
    assumptions=[REALS + "; in particular the growth of rounding error in running sums over 10^7 steps is NOT decided",
                 "reversal detectors: covered up to the saturation of the position counter (known finding beyond)"],
)

PROPS["C09"] = dict(
    verus=["combinators", "indicator_over", "compose_ma", "sma", "wma", "st_dev", "ema", "candle_methods", "mean_abs_dev", "swma", "lin_reg", "conv", "highest_lowest", "highest_lowest_index", "smm", "median_abs_dev"],
    kani=["witness", "indicators"],
    forbid_in_src=[(r"static\s+mut\b|thread_local!|\bRefCell\b|\bCell<|Atomic(U|I|Bool)|\brand::|UnsafeCell|lazy_static|OnceCell|OnceLock", "no shared or interior-mutable state"),
                   (r"\bHashMap\b|\bHashSet\b", "no iteration-order nondeterminism")],
    claim=("Sequence::call, Sequence::apply (in place; the iter_mut().for_each chain desugared by rule R8m), Method::over, Method::apply, Method::new_over, "
           "Method::new_apply and Method::new_fn (over the ASSUMED contract of into_fn) are verified for an ARBITRARY M: Method (generic, against the trait contract) to return "
           "exactly the element-by-element run: a chain of states linked by M::step with one output per input; lemma_run_concat / lemma_run_split show "
           "that any split of the stream into consecutive chunks (empty ones included) gives the same chain. WithHistory and WithLastValue are verified "
           "to perform exactly the wrapped method's step (peek returns a clone of the last output). IndicatorInstance::over and IndicatorConfig::over are "
           "verified the same way for an arbitrary indicator. peek of SMA, WMA, StDev, EMA, DEMA, TEMA, TSI, ADI, MeanAbsDev and TRIMA is verified to return "
           "the value the last next produced (stored value, or the same expression over the same state); likewise SWMA (every length, after the length-1 fix), LinReg, Conv, "
           "Highest, Lowest, HighestLowestDelta, HighestIndex, LowestIndex, SMM, MedianAbsDev."),
    assumptions=["bit-identity of identically built instances and independence of clones are properties of safe Rust without shared/interior-mutable "
                 "state; they are ASSUMED and backed only by the source scan reported under coverage.src_scan",
                 "into_fn (a boxed FnMut closure owning the instance) has an ASSUMED contract: the closure is identified with the instance it owns; "
                 "a bounded Kani harness (vk_method_new_fn_is_stream) exercises the real closure; IndicatorConfig::init_fn (init followed by into_fn) is not under a deductive contract; a bounded Kani harness (vk_init_fn_is_stream) runs its real closure against init + next",
                 "the iterator chain in Sequence::call is desugared by rule R8 over the slice-iterator model SliceIt"],
)

PROPS["C11"] = dict(
    verus=["indicator_set"] + INDICATOR_UNITS, kani=["result", "indicators"],
    claim=("IndicatorConfig::set of every shipped indicator (36; the `example` sample excluded) is extracted (its `match name` turned into a str_eq chain "
           "by rule R9) and verified against a contract GENERATED from the struct's public field list: for each public field the named parameter, and "
           "only it, takes the parsed value and Ok is returned; on a parse error or any other name Err is returned and the configuration is unchanged. "
           "Result shape: IndicatorResult::new is proved by Kani (every pair of input lengths 0..=6, symbolic contents: complete for the fixed capacity 4) to keep "
           "min(4, n) values/signals in order and to report exactly those lengths; for the indicators under contract (see C05) next is verified to return "
           "exactly the (values, signals) counts that size() announces. Default configurations: validate() of all 36 `Default::default()` configurations is proved true by a loop-free "
           "concrete Kani harness (vk_default_configs_validate: complete for this clause); that they initialise follows for the indicators whose init contract is `Ok exactly when valid` "
           "and is additionally run by two bounded Kani harnesses (thorough tier) on one concrete valid candle for all 36."),
    assumptions=["strings are compared by their Seq<char> view (str_eq) and str::parse is an uninterpreted function of the text (abstract parsing)",
                 "name() (a one-line `Self::NAME`) is not covered; for the generic indicators 'the default configuration initialises' on EVERY candle rests on the init contracts "
                 "(Err only when validate() is false or the averaging constructor refuses) plus the bounded harnesses; dyn forwarding (core/indicator/dd.rs: one-line forwarders behind Box<dyn ...>, outside Verus' reach) is exercised by one bounded "
                 "Kani harness (MomentumIndex through IndicatorConfigDyn/IndicatorInstanceDyn against the static calls), not proved; the shape claim covers all 36 shipped indicators"],
)

PROPS["C14"] = dict(
    verus=["indicator_base", "reversal"], kani=["methods"],
    claim=("CrossAbove/CrossUnder/Cross are verified twice: in Verus over exact reals against 'fires exactly when the previous difference was negative "
           "and the current one is non-negative' (mirrored; Cross is the signed combination; swapping the series negates: lemma cross_swap_negates), and "
           "bit-precisely by loop-free Kani harnesses over all finite f64 inputs (complete). Upper/LowerReversalSignal::next are verified (Verus, every (left,right), "
           "rescan loop desugared from the real zip/skip/for_each chain) to keep their max/min bookkeeping valid and, once the window holds real inputs only (and during warm-up over the elements that exist), to fire "
           "exactly `right` steps after an element that is >= every older and > every newer element of its left+right+1 neighbourhood; ReversalSignal is lower minus upper. "
           "This holds for the calls before the PeriodType position counter saturates (contract guard index < PeriodType::MAX); beyond it the detectors stop firing, which is "
           "the recorded known finding (concrete 300-step harness)."),
    assumptions=[REALS + " (Verus part); the Kani part is bit-precise over finite inputs",
                 "warm-up steps (fewer than left+right+1 inputs) are covered for streams that START WITH THE CONSTRUCTION VALUE (the documented way to seed a method; predicate seeded_with): the signal is then "
                 "verified to be the documented rule over the elements that exist (warm_peak_at / warm_trough_at), nothing firing during the first `right` steps; for an instance built from a value other than "
                 "its first input the detector keeps that value as a phantom maximum (code behaviour, not claimed either way)"],
)

PROPS["C05"] = dict(
    verus=INDICATOR_UNITS + IND_DEPS + ["ma_dispatch", "ma_instance"], kani=["result"],
    claim=("For the indicators under contract (" + COVERED_INDICATORS + "; generic ones for an arbitrary moving-average constructor M) `next` is verified "
           "to return, as its raw values, the documented formula written over the component step relations (e.g. MACD: MA1(src) - MA2(src) and its "
           "signal line MA3(MACD); Bollinger: SMA +- sigma*StDev; Donchian: highest high / lowest low / midpoint), and `init` to seed each component "
           "as documented; with the component contracts of C02-C04 this is the formula on the candle history, by induction over next."),
    assumptions=[REALS, "all 36 shipped indicators are under contract (`example` is a sample, not shipped); generic ones for an arbitrary MovingAverageConstructor M whose "
                 "instance satisfies the Method/MovingAverage trait contract; the concrete dispatch enum MA/MAInstance (helpers/methods.rs) is verified in unit ma_dispatch to "
                 "construct and step exactly the wrapped kind (each of the 15 kinds has its own unit), and unit ma_instance proves that MA / MAInstance satisfy that trait contract "
                 "(Method and MovingAverage facts for all 15 kinds and for the enum; MovingAverageConstructor for MA), so the generic proofs apply to the crate's own constructor; "
                 "ma_dispatch/ma_instance are verified for the default PeriodType only (under period_type_u64 WMA/HMA/SWMA/LinReg constructors carry a width precondition)",
                 "TrendStrengthIndex has no published formula: its contract is the regression/correlation expression the code computes over the window sums; "
                 "Kaufman's filtered signal is specified as implemented (its documentation only says 'additional filtering using standard deviation'); the ranges of ADX/+DI/-DI are not specified",
                 "methods used through their trait contract only (verified in their own units): TSI, TMA, Momentum/Change, RateOfChange, SWMA, HMA, CCI, LinearVolatility, StDev, Highest, Lowest, ADI, ReversalSignal",
                 "IndicatorResult::new is used through a contract that is not verified in Verus; the same contract is proved by the Kani harness vk_indicator_result_new",
                 "std trait impls (IndicatorConfig/IndicatorInstance) are checked as inherent fns with the same bodies (R12)"],
)
PROPS["C06"] = dict(
    verus=INDICATOR_UNITS + ["indicator_base", "ohlcv"], kani=["indicators"],
    claim=("Same units as C05, signal half: for the indicators under contract each signal slot is verified to equal its documented rule over the step's own "
           "values and the Cross/Action contracts (MACD: crossing of the signal line / of zero; Donchian and PriceChannel: new extreme / band touch; "
           "Bollinger: position inside the band; RSI: entering/leaving the zones). Comparisons are exact in the real model."),
    assumptions=[REALS + "; steps where the deciding quantity is within rounding of its threshold are therefore not distinguished",
                 "only " + COVERED_INDICATORS + " are covered", "Action::from(f64) appears as the uninterpreted action_of_real (its bit-level behaviour is C16)",
                 "PivotReversalStrategy: the Verus contract states what the code computes (se - le), NOT the documented rule; the documented rule is the bounded Kani "
                 "harness vk_pivot_reversal_silent_without_pivot, which fails and is listed as a known finding",
                 "Kaufman: the filtered signal (filter_period > 1) is specified as implemented (kama_filtered); "
                 "indicators that embed a ReversalSignal (Trix, CoppockCurve, AwesomeOscillator, HullMovingAverage, PivotReversalStrategy) are covered up to the step at "
                 "which the detector's position counter saturates (C07/C14 known finding: precondition in_capacity)"],
)
PROPS["C12"] = dict(
    verus=INDICATOR_UNITS + ["ohlcv", "candle_methods", "derived_window", "st_dev", "ema", "indicator_base", "mean_abs_dev", "median_abs_dev", "ma_instance"], kani=["witness"],
    claim=("Ideal-arithmetic ranges: proved as extra postconditions — CLV in [-1,1] for low<=close<=high; tr_close and TR >= 0 for high >= low; StDev and "
           "LinearVolatility >= 0; Vidya's CMO factor in [0,1] and its guarded quotient well defined; TSI's guard implies a positive denominator; "
           "RSI in [0,1] for averaging kinds that cannot overshoot (with its debug assertion discharged); Bollinger upper >= middle >= lower; "
           "Donchian and PriceChannel contain the highs/lows they are built from; Aroon lines in (0,1]; Stochastic %K in [0,1] for an ordered candle and both "
           "lines in [0,1] for averaging kinds that cannot overshoot; Keltner upper >= average >= lower while the true ranges fed are non-negative; Envelopes ordered for a non-negative average; "
           "ParabolicSAR reports a SAR on the side of the price opposite to its trend and never lets the next SAR cross the last two candles; MoneyFlowIndex in [0,1] for non-negative volumes; "
           "ChandeMomentumOscillator in [-1,1] (sums of gains and losses non-negative by the window invariant); ChaikinMoneyFlow in [-1,1] on ordered candles with non-negative volume wherever the "
           "total volume is positive (pointwise |CLV*volume| <= volume carried as an invariant over both windows); TSI, and with it TrueStrengthIndex and SMIErgodicIndicator's main value, in [-1,1] "
           "(inductive invariant |EMA(EMA(m))| <= EMA(EMA(|m|)) over the whole history); MeanAbsDev and MedianAbsDev >= 0. 'Averaging kinds that cannot overshoot' is no longer an abstract "
           "assumption: unit ma_instance proves the MovingAverage range facts for SMA, WMA, RMA, EMA, DMA, TMA, WSMA, SMM, SWMA, TRIMA and Vidya and for the dispatch enum MAInstance, and marks HMA, DEMA, TEMA and "
           "LinReg as kinds that can overshoot (no range claim)."),
    assumptions=[REALS + ": residue after a flat stretch and non-finite outputs are float behaviour and are NOT decided",
                 "the ranges of ADX/+DI/-DI, RelativeVigorIndex and TrendStrengthIndex, and Kaufman/Ichimoku/ChandeKrollStop 'same range as the source' are not covered by this check"],
)

PROPS["C17"] = dict(
    verus=["converters", "candle_methods", "ohlcv"], kani=["renko"],
    claim=("CollapseTimeframe (instantiated at Candle) is verified to emit exactly one candle on every period-th input and to aggregate with `+`, whose "
           "contract is first open / highest high / lowest low / last close / summed volume; HeikinAshi follows its open/close recursion and keeps an ordered, "
           "positive candle ordered and positive; RenkoOutput's iterator (next, nth - through which Iterator::skip goes -, size_hint, count) yields contiguous, equally sized, one-directional bricks and never a brick beyond the emission; Renko::next (over reals) "
           "emits at least one brick exactly when the price has reached the next boundary, the count being the number of whole bricks, the new bounds the last "
           "brick, the bricks carrying the volume consumed since the previous emission. The float-level boundary case (quotient truncating to 0) is decided "
           "bit-precisely by Kani: one concrete boundary price in the quick tier, symbolic state and price (loop-free, complete) in the thorough tier."),
    assumptions=[REALS + " for the Verus part", "Sequence::collapse_timeframe (windows/step_by/map/collect, outside the Verus subset) is not under a deductive contract: one bounded Kani harness (4 candles, size 2, continuous and non-continuous) checks it against the aggregation rule; RenkoOutput::last (`mut self`, outside the Verus subset) is not under contract (nth is: it yields brick pos + n of the same emission or exhausts the iterator)",
                 "prices are positive (input_ok), as in the property's valid-candle streams"],
)
PROPS["C18"] = dict(
    verus=["ohlcv", "text_forms", "ma_text"], kani=["ohlcv", "text"],
    forbid_in_src=[(r'"[^"]*[A-Z\s][^"]*"\s*(\||=>)|=>\s*"[^"]*[A-Z\s][^"]*"\s*,', "the source names matched and produced in core/candles.rs are lowercase without blanks (axiom norm_fixed)", r"src/core/candles\.rs$")],
    claim=("tp, hl2, ohlc4, volumed_price, source(kind), clv (incl. the zero-range branch and |clv| <= 1 for an ordered candle), tr_close == max(h-l, |h-pc|, |l-pc|) "
           "for h >= l, tr, and Candle + Candle (with associativity as a lemma) are verified over exact reals against their formulas for an arbitrary "
           "OHLCV implementation; validate, the source dispatch and the clv zero-range branch are additionally proved bit-precisely for every f64 candle "
           "(NaN/inf included) by loop-free Kani harnesses. The bit-level tr_close identity on integer-valued prices (bounded) runs in the thorough tier; over all finite f64 it did not finish and is not claimed. Text forms of Source: from_str (its `match` over the "
           "normalised text turned into a str_eq chain by rule R9) is verified to accept exactly the eight names and the alias hlc3 and to reject everything else with Err; the conversion to "
           "&str yields the canonical name; source_text_roundtrip proves that the text of every source parses back to the same source. "
           "Text form of the moving-average constructors (unit ma_text): MA::from_str is verified to accept exactly `<name>-<period>` - a text that splits at its first dash into one of the "
           "fifteen exact lowercase names and a period text that parses as PeriodType - to return the kind that name selects with that length, and to reject everything else with Err; "
           "ma_text_roundtrip proves, for every kind and length, that such a text is accepted as exactly that value (the fifteen names are pairwise different). "
           "Two bounded Kani harnesses run six concrete texts each through the real std text primitives (upper case, surrounding blanks, an out-of-range period, a missing dash, an unknown name)."),
    assumptions=[REALS + " for the arithmetic identities (float + on volumes is not associative; the lemma is the ideal-arithmetic reading)",
                 "`s.to_ascii_lowercase().trim()` is an uninterpreted normalisation (norm_text) with the single axiom that it leaves the nine lowercase, blank-free names alone (norm_fixed); "
                 "that the names in the source have this form is backed by a source scan of core/candles.rs on every run",
                 "MA has only FromStr (no textual output of its own to round-trip): str::split_once('-') and str::parse::<PeriodType> are abstract (uninterpreted functions of the text, ASSUMED std behaviour); "
                 "the two error conversions (`.ok_or(..)?`, `.or(Err(..))?`) are rewritten to explicit matches (listed under the unit's replaced text); the String / TryFrom wrappers of Source are not covered"],
)

PROPS["C15"] = dict(
    verus=["ma_laws", "ma_laws2", "sma", "wma", "ema", "smm", "ma_instance", "ma_dispatch", "compose_ma", "swma", "derived_window", "lin_reg", "conv", "vwma"], kani=["witness"],
    claim=("Lemmas over the definitions the code is tied to by C02/C03: SMA and WMA (weights (i+1)/(n(n+1)/2), non-negative, summing to 1) are "
           "affine-equivariant (any a, b, negative a included), range-preserving and additive (superposition) for every length; the EMA recurrence is "
           "affine-equivariant, range-preserving (0 < alpha <= 1) and additive step by step, which carries over to DMA/TMA/RMA/WSMA by composition. "
           "The trait-level facts generic indicators rely on (MovingAverage::convex / within) are proved for SMA, WMA and EMA. "
           "SMM: range preservation (smm_range: the median lies between the bounds of the window values) over the verified median contract. "
           "Range preservation as a one-step fact (every value the instance holds and every output stay within the bounds of the inputs) is proved in unit ma_instance for SMA, WMA, RMA, EMA, DMA, TMA, WSMA, SMM, SWMA, "
           "TRIMA and Vidya and lifted to the dispatch enum MAInstance; HMA, DEMA, TEMA and LinReg are not range-preserving (they extrapolate) and are marked so. "
           "That the `MA` wrapper behaves like the kind it names (init builds that kind with that length, next steps it, distinct kinds have distinct type tags) is unit ma_dispatch. "
           "Unit ma_laws2 extends affine equivariance (any a, b; negative a included) to ALL the other kinds: as identities over the definitions the step contracts return for SWMA, LinReg, "
           "VWMA (in the prices, for fixed volumes, wherever the volume sum is non-zero) and Conv (any weights with non-zero sum), and in metamorphic form for RMA, WSMA, DMA, TMA, DEMA, TEMA, TRIMA, HMA, "
           "SMM (median_affine: the median of the image is the image of the median; for a < 0 the sorted arrangement is reversed and the middle stays the middle) and Vidya (the |CMO| factor is "
           "scale- and shift-free: sums of positive/negative changes are kept for a > 0 and swapped for a < 0): two instances whose stored values are related by x -> a*x+b, stepped on x and a*x+b, "
           "stay related and their outputs are related (one inductive step over the step contracts). Superposition in the same form (three instances, the third holding the sums) for the linear kinds "
           "SWMA, LinReg, Conv, RMA, DMA, TMA, DEMA, TEMA, TRIMA, HMA. Impulse responses for every length: SMA 1/n, WMA (i+1)/(n(n+1)/2), SWMA the triangle 1..l, r..1 over the normaliser, "
           "Conv the caller's weight over the weight sum, EMA alpha then a factor (1-alpha) per step. "
           "VWMA with non-negative volumes and Conv with non-negative weights stay within the range of the values in the window (vwma_range, conv_range)."),
    assumptions=[REALS, "the laws are lemmas over the step contracts / definitions (which the real `next` functions are verified against in C02/C03), composed one step at a time; the induction over a whole stream is the reader's",
                 "superposition of WSMA is EMA's (it wraps one); SMM and Vidya are not linear and have no superposition law"],
)
PROPS["C13"] = dict(
    verus=["window_serde", "window", "smm_serde"], kani=["window"],
    forbid_in_src=[(r"serde\(\s*skip", "every field of the derived impls is serialized")],
    claim=("Window's hand-written Deserialize is extracted (serde glue and error-text construction dropped) and verified: an oversized buffer or an "
           "oldest-index outside the buffer is rejected with Err exactly, never a panic (from_parts's assertions are discharged by the two checks), and "
           "accepted data yields a well-formed window with the abstract sequence the data encodes (stated over the sequence, not the buffer layout); window_snapshot_roundtrip proves "
           "serialize-then-deserialize restores the same sequence. SMM's hand-written Deserialize (the only other one in the crate: it serializes just the window and "
           "rebuilds the sorted buffer and the two middle positions) is extracted the same way and verified to reject an empty window with Err and otherwise to "
           "return an instance that satisfies SMM's full representation invariant over the SAME window (sorted buffer = multiset of the window, middle positions), "
           "i.e. the state every later `next`/`peek` contract starts from. All outputs of a method depend on inv-state only (C02-C04), so equal state gives equal futures."),
    assumptions=["serde and serde_derive are trusted; derived impls are assumed to serialize every field (backed by a scan for #[serde(skip...)])",
                 "SMM's Deserialize: slice::sort_unstable_by and to_owned().into_boxed_slice() have ASSUMED std contracts (sorted permutation / same elements); "
                 "the NaN branch of its comparator does not exist in the real model", "bit-identity of restored floats is serde's"],
)

NOT_BUILT = {}
