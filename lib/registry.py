"""What is verified for which property: Verus units (contracts/*.tpl), Kani harness groups (kani/*.rs)."""

COMMON_ASSUMPTIONS = [
    "Verus 0.2026.09.13 + Z3 and Kani 0.68 + CBMC 6.11 are sound; rustc front ends of both",
    "vx extraction: the rewrites R1-R7/RS/RM counted in coverage.rewrites preserve meaning (DESIGN 2.2); function bodies are /repo's text",
    "debug assertions are treated as enabled (the baseline suite runs a debug build)",
]

REALS = ("ValueType is modelled by exact reals (type R): every 'equals its definition' is an identity over reals; "
         "the size and growth of IEEE rounding error is NOT decided by this check")

UNITS = {
    "mean_abs_dev": dict(tpl="mean_abs_dev.rs.tpl", doc="methods::{MeanAbsDev, CCI}"),
    "simple_window": dict(tpl="simple_window.rs.tpl", doc="methods::{Momentum, Derivative, RateOfChange, Past, Integral}"),
    "sma": dict(tpl="sma.rs.tpl", doc="methods::SMA"),
    "window": dict(tpl="window.rs.tpl", doc="core::Window<T>, WindowIterator, ReversedWindowIterator: every fn under contract"),
}

KANI_GROUPS = {
    "window": dict(
        src="kani/window.rs", append_to="src/core/window.rs", module="core::window::verif_window",
        harnesses=[
            dict(name="vk_window_slice_index", kind="complete", timeout=300, props=["C01", "C19"], witness_units=["window"]),
            dict(name="vk_window_index_newest_oldest", kind="complete", timeout=300, props=["C01"], witness_units=["window"]),
            dict(name="vk_window_push", kind="complete", timeout=300, props=["C01"], witness_units=["window"]),
            dict(name="vk_window_iter_steps", kind="complete", timeout=300, props=["C01"], witness_units=["window"]),
            dict(name="vk_window_iter_last", kind="complete", timeout=300, props=["C01"], witness_units=["window"]),
            dict(name="vk_window_empty", kind="complete", timeout=300, props=["C01"], witness_units=["window"]),
        ]),
}

PROPS = {
    "C01": dict(
        verus=["window"], kani=["window"],
        thorough_variants=[("PT_U16",), ("PT_U32",), ("PT_U64",)],
        claim=("Every fn of core::Window and both iterators is verified (Verus, unbounded: all capacities 0..MAX-1, all ring phases, "
               "generic T) against the abstract view 'the last N pushed values, oldest first'; the u8 index kernels are re-proved "
               "bit-precisely by Kani over the whole (size,index,arg) domain with a labelled buffer (loop-free, complete)."),
        assumptions=["std specs assumed: mem::replace, Vec->Box<[T]> conversion, slice get_unchecked(_mut) (in-bounds precondition is an obligation)",
                     "the hand-written serde impls are not extracted (R11); the round trip is proved for from_parts(buf, index)",
                     "Iterator/Index/From impls are checked as inherent fns with the same bodies (R12)"],
    ),
}

NOT_BUILT = {}
