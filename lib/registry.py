"""What is verified for which property: Verus units (contracts/*.tpl), Kani harness groups (kani/*.rs)."""

COMMON_ASSUMPTIONS = [
    "Verus 0.2026.09.13 + Z3 and Kani 0.68 + CBMC 6.11 are sound; rustc front ends of both",
    "vx extraction: the rewrites R1-R7/RS/RM counted in coverage.rewrites preserve meaning (DESIGN 2.2); function bodies are /repo's text",
    "debug assertions are treated as enabled (the baseline suite runs a debug build)",
]

REALS = ("ValueType is modelled by exact reals (type R): every 'equals its definition' is an identity over reals; "
         "the size and growth of IEEE rounding error is NOT decided by this check")

UNITS = {
    "highest_lowest_index": dict(tpl="highest_lowest_index.rs.tpl", doc="methods::{HighestIndex, LowestIndex}"),
    "highest_lowest": dict(tpl="highest_lowest.rs.tpl", doc="methods::{Highest, Lowest, HighestLowestDelta}"),
    "derived_window": dict(tpl="derived_window.rs.tpl", doc="methods::{LinearVolatility, Vidya}: windows over one-step changes"),
    "candle_methods": dict(tpl="candle_methods.rs.tpl", doc="methods::{TR, HeikinAshi, ADI} on an arbitrary dyn OHLCV"),
    "ohlcv": dict(tpl="ohlcv.rs.tpl", doc="core::OHLCV provided methods, Candle accessors, Source"),
    "ema": dict(tpl="ema.rs.tpl", doc="methods::{EMA, DMA, TMA, DEMA, TEMA, RMA, WSMA, TSI}"),
    "compose_ma": dict(tpl="compose_ma.rs.tpl", doc="methods::{TRIMA, HMA} by composition of the SMA/WMA contracts"),
    "st_dev": dict(tpl="st_dev.rs.tpl", doc="methods::StDev"),
    "vwma": dict(tpl="vwma.rs.tpl", doc="methods::VWMA"),
    "wma": dict(tpl="wma.rs.tpl", doc="methods::WMA"),
    "mean_abs_dev": dict(tpl="mean_abs_dev.rs.tpl", doc="methods::{MeanAbsDev, CCI}"),
    "simple_window": dict(tpl="simple_window.rs.tpl", doc="methods::{Momentum, Derivative, RateOfChange, Past, Integral}"),
    "sma": dict(tpl="sma.rs.tpl", doc="methods::SMA"),
    "window": dict(tpl="window.rs.tpl", doc="core::Window<T>, WindowIterator, ReversedWindowIterator: every fn under contract"),
}

KANI_GROUPS = {
    "action": dict(
        src="kani/action.rs", append_to="src/core/action.rs", module="core::action::verif_action",
        harnesses=[dict(name=n, kind="complete", timeout=t, tier=tier) for (n, t, tier) in [
            ("vk_action_from_i8", 120, "quick"), ("vk_action_from_f64_total", 300, "quick"), ("vk_action_from_f32_total", 300, "quick"),
            ("vk_action_from_f64_monotone", 600, "thorough"), ("vk_action_ratio_roundtrip", 300, "quick"), ("vk_action_neg", 120, "quick"),
            ("vk_action_sub", 300, "quick"), ("vk_action_eq_equivalence", 300, "quick"), ("vk_action_ord_consistent", 120, "quick"), ("vk_action_ord_consistent_guarded", 120, "quick"),
            ("vk_action_ord_total_order", 300, "quick")]]),
    "window": dict(
        src="kani/window.rs", append_to="src/core/window.rs", module="core::window::verif_window",
        harnesses=[
            dict(name="vk_window_slice_index", kind="complete", timeout=300, props=["C01", "C19"], witness_units=["window"]),
            dict(name="vk_window_index_newest_oldest", kind="complete", timeout=300, props=["C01"], witness_units=["window"]),
            dict(name="vk_window_push", kind="complete", timeout=300, props=["C01"], witness_units=["window"]),
            dict(name="vk_window_iter_steps", kind="complete", timeout=300, props=["C01"], witness_units=["window"]),
            dict(name="vk_window_iter_last", kind="complete", timeout=300, props=["C01"], witness_units=["window"]),
            dict(name="vk_window_empty", kind="complete", timeout=300, props=["C01"], witness_units=["window"]),
        ]),
}

PROPS = {
    "C01": dict(
        verus=["window"], kani=["window"],
        thorough_variants=[("PT_U16",), ("PT_U32",), ("PT_U64",)],
        claim=("Every fn of core::Window and both iterators is verified (Verus, unbounded: all capacities 0..MAX-1, all ring phases, "
               "generic T) against the abstract view 'the last N pushed values, oldest first'; the u8 index kernels are re-proved "
               "bit-precisely by Kani over the whole (size,index,arg) domain with a labelled buffer (loop-free, complete)."),
        assumptions=["std specs assumed: mem::replace, Vec->Box<[T]> conversion, slice get_unchecked(_mut) (in-bounds precondition is an obligation)",
                     "the hand-written serde impls are not extracted (R11); the round trip is proved for from_parts(buf, index)",
                     "Iterator/Index/From impls are checked as inherent fns with the same bodies (R12)"],
    ),
}

C02_UNITS = ["window", "sma", "simple_window", "wma", "vwma", "st_dev", "mean_abs_dev", "compose_ma", "derived_window", "candle_methods", "ohlcv"]

PROPS["C02"] = dict(
    verus=C02_UNITS,
    claim=("For each method under contract, new establishes the representation invariant and next preserves it and returns the documented "
           "formula as a spec function of the abstract window contents (the last `length` inputs, construction value first), for every "
           "length the constructor accepts, every stream and every position: induction over next, decided by Verus over exact reals."),
    assumptions=[REALS,
                 "sqrt is uninterpreted except r>=0 and r*r==x for x>=0 (axiom_sqrt); cloning a pair of values yields an equal pair (axiom_pair_clone)",
                 "std::slice::Iter is modelled by prelude SliceIt (verified exec code); iterator adapters are desugared by rule R8 to loops over next()",
                 "methods not listed in coverage.functions_under_contract are not covered by this claim"],
)

PROPS["C03"] = dict(
    verus=["ema", "derived_window", "candle_methods", "simple_window", "ohlcv", "window"],
    claim=("Each recursive method's next is verified against its documented recurrence as a one-step relation over exact reals "
           "(EMA alpha*(n+1)==2; RMA/WSMA alpha*n==1; DMA/TMA/DEMA/TEMA by composition of the EMA contract; TSI with its >0 guard; "
           "Vidya with the CMO of the window of changes; TR; HeikinAshi; cumulative Integral/ADI), new establishes the seed the documentation "
           "prescribes; 'applied to the whole stream' is induction over that step, which holds for every state satisfying the invariant."),
    assumptions=[REALS, "dyn OHLCV inputs are modelled by an opaque candle with five uninterpreted pure accessors (R10)"],
)

PROPS["C16"] = dict(
    kani=["action"],
    claim=("Every clause is a loop-free Kani harness over the full input domain (all 513 actions, all pairs/triples, every i8, every f32 and "
           "f64 bit pattern as symbolic values), so each passing harness is a complete bit-precise proof, not a bounded check."),
    assumptions=["IEEE-754 semantics of CBMC's float theory (round-to-nearest-even) match the target's"],
    technique="Kani/CBMC loop-free harnesses over full symbolic domains on the real functions (complete, bit-precise)",
)

NOT_BUILT = {}
