"""Re-run a recorded witness against the real crate (DESIGN §2.6)."""
import json, os, re, subprocess, sys
import kani_run, registry


def run(prop, path, repo, scratch):
    doc = json.load(open(path))
    print(f"replay: property={doc.get('property')} obligation={doc.get('obligation')}")
    for c in doc.get("failed_clauses", []):
        print(f"  failed: {c.get('message')} :: {c.get('clause')}")
    w = doc.get("witness")
    if not w:
        print("no concrete failing input was found by the witness harness; verifier output follows")
        for o in doc.get("verifier_output", []):
            print(o)
        return 1
    print("concrete values:", json.dumps(w.get("concrete_values"), indent=1))
    # locate the harness and run Kani's concrete playback natively on a scratch copy of the real crate
    hname = w["harness"]
    grp = next((g for g, G in registry.KANI_GROUPS.items() if any(h["name"] == hname for h in G["harnesses"])), None)
    if grp is None:
        print("harness not registered any more")
        return 2
    crate, err = kani_run.make_copy(repo, scratch, [grp])
    if err:
        print(err)
        return 2
    G = registry.KANI_GROUPS[grp]
    test = w["playback_test"]
    target = os.path.join(crate, G["append_to"])
    src = open(target).read()
    # put the generated unit test inside the harness module (it calls the harness fn by its short name)
    modname = G["module"].split("::")[-1]
    idx = src.rfind("}")
    src = src[:idx] + "\n" + test + "\n}\n"
    open(target, "w").write(src)
    m = re.search(r"fn (kani_concrete_playback_\w+)", test)
    tname = m.group(1) if m else "kani_concrete_playback"
    env = dict(os.environ, CARGO_NET_OFFLINE="true")
    feats = w.get("features") or []
    p = subprocess.run(["cargo", "kani", "playback", "-Z", "concrete-playback", "--no-default-features"] + (["--features", ",".join(feats)] if feats else []) + ["--", tname],
                       cwd=crate, capture_output=True, text=True, env=env)
    print(p.stdout[-4000:])
    print(p.stderr[-4000:])
    failed = "FAILED" in p.stdout or "panicked" in (p.stdout + p.stderr)
    print("replay result:", "the real code violates the obligation on this input" if failed else "not reproduced")
    return 1 if failed else 0
