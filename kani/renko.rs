
// ---- appended by /verif (Engine K): Renko brick counting, bit-precise (C17) ----
#[cfg(kani)]
mod verif_renko {
	use super::*;
	use crate::core::Candle;

	fn candle_at(price: ValueType) -> Candle {
		Candle { open: price, high: price, low: price, close: price, volume: 1.0 }
	}

	// the documented usage: construct from a price, then feed a price that lands exactly on the next upper boundary
	#[kani::proof]
	fn vk_renko_boundary_concrete() {
		let first = candle_at(0.381);
		let mut r = Renko::new((0.0005, Source::Close), &first).unwrap();
		let boundary = r.next_block_upper;
		let out = r.next(&candle_at(boundary));
		assert!(out.len >= 1);
	}

	// any state the code itself establishes (next bound computed from the last one with the same expression), any price at or above the bound
	#[kani::proof]
	fn vk_renko_up_symbolic() {
		let u: ValueType = kani::any();
		let b: ValueType = kani::any();
		kani::assume(u >= 1e-3 && u <= 1e6);
		kani::assume(b >= 1e-4 && b < 1.0);
		let mut r = Renko {
			last_block_upper: u,
			last_block_lower: u * (1. - b),
			next_block_upper: u * (1. + b),
			next_block_lower: u * (1. - b) * (1. - b),
			brick_size: b,
			src: Source::Close,
			volume: 0.0,
		};
		let v: ValueType = kani::any();
		kani::assume(v >= r.next_block_upper && v <= 1e7);
		let out = r.next(&candle_at(v)); // must not panic (len - 1)
		assert!(out.len >= 1);
	}

	#[kani::proof]
	fn vk_renko_down_symbolic() {
		let l: ValueType = kani::any();
		let b: ValueType = kani::any();
		kani::assume(l >= 1e-3 && l <= 1e6);
		kani::assume(b >= 1e-4 && b < 1.0);
		let mut r = Renko {
			last_block_upper: l * (1. + b),
			last_block_lower: l,
			next_block_upper: l * (1. + b) * (1. + b),
			next_block_lower: l * (1. - b),
			brick_size: b,
			src: Source::Close,
			volume: 0.0,
		};
		let v: ValueType = kani::any();
		kani::assume(v <= r.next_block_lower && v >= 1e-6);
		let out = r.next(&candle_at(v));
		assert!(out.len >= 1);
	}

	// ---- C17: the batch collapse of a sequence (Sequence::collapse_timeframe: windows / step_by / map(reduce) / collect, outside the Verus subset)
	// against the aggregation rule (first open, highest high, lowest low, last close, summed volume), bounded: 4 candles, size 2, both modes,
	// integer-valued fields in 0..=15 so every sum is exact
	fn small_candle() -> Candle {
		let a: u8 = kani::any(); let b: u8 = kani::any(); let c: u8 = kani::any(); let d: u8 = kani::any(); let v: u8 = kani::any();
		kani::assume(a < 16 && b < 16 && c < 16 && d < 16 && v < 16);
		Candle { open: a as ValueType, high: b as ValueType, low: c as ValueType, close: d as ValueType, volume: v as ValueType }
	}
	fn agg_ok(r: &Candle, x: &Candle, y: &Candle) -> bool {
		r.open == x.open && r.high == x.high.max(y.high) && r.low == x.low.min(y.low) && r.close == y.close && r.volume == x.volume + y.volume
	}
	#[kani::proof]
	#[kani::unwind(6)]
	fn vk_sequence_collapse_timeframe_l4() {
		use crate::core::Sequence;
		let cs = [small_candle(), small_candle(), small_candle(), small_candle()];
		let continuous: bool = kani::any();
		let out = cs.collapse_timeframe(2, continuous);
		if continuous {
			assert!(out.len() == 3);
			assert!(agg_ok(&out[0], &cs[0], &cs[1]) && agg_ok(&out[1], &cs[1], &cs[2]) && agg_ok(&out[2], &cs[2], &cs[3]));
		} else {
			assert!(out.len() == 2);
			assert!(agg_ok(&out[0], &cs[0], &cs[1]) && agg_ok(&out[1], &cs[2], &cs[3]));
		}
	}
}
