
// ---- appended by /verif (Engine K): IndicatorResult::new keeps the announced shape (C11); backs the contract assumed in the Verus indicator units ----
#[cfg(kani)]
mod verif_result {
	use super::*;

	fn check(vals: &[ValueType; 6], sigs: &[Action; 6], nv: usize, ns: usize) {
		let r = IndicatorResult::new(&vals[..nv], &sigs[..ns]);
		let ev = if nv < 4 { nv } else { 4 };
		let es = if ns < 4 { ns } else { 4 };
		assert!(r.size() == (ev as u8, es as u8));
		assert!(r.values_length() as usize == ev && r.signals_length() as usize == es);
		assert!(r.values().len() == ev && r.signals().len() == es);
		let mut i = 0;
		while i < 4 {
			if i < ev {
				assert!(r.values()[i].to_bits() == vals[i].to_bits());
				assert!(r.value(i).to_bits() == vals[i].to_bits());
			}
			if i < es {
				let same = match (r.signals()[i], sigs[i]) {
					(Action::Buy(a), Action::Buy(b)) | (Action::Sell(a), Action::Sell(b)) => a == b,
					(Action::None, Action::None) => true,
					_ => false,
				};
				assert!(same);
				assert!(r.signal(i) == sigs[i]);
			}
			i += 1;
		}
	}

	// every pair of input lengths 0..=6 (concrete), symbolic contents
	#[kani::proof]
	#[kani::unwind(9)]
	fn vk_indicator_result_new() {
		let k: [u8; 6] = kani::any();
		let bits: [u32; 6] = kani::any();
		// finite, distinct-able values (NaN payloads are not tracked by the float model)
		let vals = [bits[0] as ValueType, bits[1] as ValueType * 0.5, -(bits[2] as ValueType), bits[3] as ValueType, bits[4] as ValueType, bits[5] as ValueType];
		let sigs = [Action::Buy(k[0]), Action::Sell(k[1]), Action::None, Action::Buy(k[3]), Action::Sell(k[4]), Action::Buy(k[5])];
		let mut nv = 0;
		while nv <= 6 {
			let mut ns = 0;
			while ns <= 6 {
				check(&vals, &sigs, nv, ns);
				ns += 1;
			}
			nv += 1;
		}
	}
}
