
// ---- appended by /verif (Engine K): bounded witness harnesses for arithmetic methods and indicators.
// They are consulted when a Verus unit's proof script no longer applies (lost anchor) or only hints fail, and are reported as bounded.
#[cfg(kani)]
mod verif_witness {
	use crate::core::{Candle, IndicatorConfig, IndicatorInstance, Method, ValueType};
	use crate::helpers::MA;
	use crate::indicators::RelativeStrengthIndex;
	use crate::methods::{Conv, Vidya, EMA, TSI};

	fn small() -> ValueType {
		// integers in -8..=8 (exactly representable; keeps the arithmetic exact enough for a tight tolerance)
		let k: i8 = kani::any();
		kani::assume(k >= -8 && k <= 8);
		k as ValueType
	}
	fn close(a: ValueType, b: ValueType) -> bool {
		(a - b).abs() <= 1e-9 * (1.0 + a.abs() + b.abs())
	}

	// TSI(short = 1, long = 2) against the documented double smoothing, 2 steps
	#[kani::proof]
	fn vk_tsi_recurrence_2steps() {
		let x0 = small();
		let mut m = TSI::new(1, 2, &x0).unwrap();
		let (a_long, a_short) = (2.0 / 3.0, 1.0);
		let (mut e11, mut e12, mut e21, mut e22) = (0.0f64, 0.0f64, 0.0f64, 0.0f64);
		let mut last = x0;
		let mut k = 0;
		while k < 2 {
			let x = small();
			let mom = x - last;
			last = x;
			e11 += a_long * (mom - e11);
			e12 += a_short * (e11 - e12);
			e21 += a_long * (mom.abs() - e21);
			e22 += a_short * (e21 - e22);
			let want = if e22 > 0.0 { e12 / e22 } else { 0.0 };
			let got = m.next(&x);
			assert!(close(got, want));
			k += 1;
		}
	}

	// EMA(3): 3 steps of the recurrence
	#[kani::proof]
	fn vk_ema_recurrence_3steps() {
		let x0 = small();
		let mut m = EMA::new(3, &x0).unwrap();
		let mut v = x0;
		let mut k = 0;
		while k < 3 {
			let x = small();
			v += 0.5 * (x - v);
			assert!(close(m.next(&x), v));
			k += 1;
		}
	}

	// RSI with a simple moving average never trips its debug assertion and stays in [0, 1] (4 steps, small integer closes)
	#[kani::proof]
	#[kani::unwind(6)]
	fn vk_rsi_sma_no_panic_4steps() {
		let c0 = small() + 20.0;
		let first = Candle { open: c0, high: c0, low: c0, close: c0, volume: 1.0 };
		let cfg = RelativeStrengthIndex { ma: MA::SMA(3), ..RelativeStrengthIndex::default() };
		let mut inst = cfg.init(&first).unwrap();
		let mut k = 0;
		while k < 4 {
			let c = small() + 20.0;
			let r = inst.next(&Candle { open: c, high: c, low: c, close: c, volume: 1.0 });
			let v = r.value(0);
			assert!(v >= -1e-9 && v <= 1.0 + 1e-9);
			k += 1;
		}
	}

	// Vidya(2), 4 steps: output follows the CMO-scaled recurrence computed from scratch over the last 2 changes
	#[kani::proof]
	#[kani::unwind(6)]
	fn vk_vidya_recurrence_4steps() {
		let x0 = small();
		let mut m = Vidya::new(2, &x0).unwrap();
		let f = 2.0 / 3.0;
		let mut h = [x0, x0, x0]; // last three inputs (two changes)
		let mut out = x0;
		let mut k = 0;
		while k < 4 {
			let x = small();
			h = [h[1], h[2], x];
			let (c1, c2) = (h[1] - h[0], h[2] - h[1]);
			let up = (if c1 > 0.0 { c1 } else { 0.0 }) + (if c2 > 0.0 { c2 } else { 0.0 });
			let dn = (if c1 < 0.0 { -c1 } else { 0.0 }) + (if c2 < 0.0 { -c2 } else { 0.0 });
			out = if up != 0.0 || dn != 0.0 {
				let cmo = ((up - dn) / (up + dn)).abs();
				x * (f * cmo) + (1.0 - f * cmo) * out
			} else {
				x
			};
			let got = m.next(&x);
			assert!(close(got, out));
			k += 1;
		}
	}

	// Vidya(3), 3 steps over the alphabet {0, 1, 2}: the smoothing factor f * |CMO| lies in [0, 1], so every output lies between the
	// previous output and the new input (C12: no overshoot); window 3 holds a rise, a fall and a flat step at once
	fn tri_letter() -> ValueType {
		let k: u8 = kani::any();
		match k % 3 { 0 => 0.0, 1 => 1.0, _ => 2.0 }
	}
	#[kani::proof]
	fn vk_vidya_no_overshoot_3steps() {
		let x0 = tri_letter();
		let mut m = Vidya::new(3, &x0).unwrap();
		let mut last = x0;
		let x1 = tri_letter(); let o1 = m.next(&x1);
		assert!(o1 >= last.min(x1) && o1 <= last.max(x1)); last = o1;
		let x2 = tri_letter(); let o2 = m.next(&x2);
		assert!(o2 >= last.min(x2) && o2 <= last.max(x2)); last = o2;
		let x3 = tri_letter(); let o3 = m.next(&x3);
		assert!(o3 >= last.min(x3) && o3 <= last.max(x3));
	}

	// ---- C09: in-place / boxed-closure evaluation against the element-by-element stream (witness for the combinators unit) ----
	// Change(1): next(x) = x - previous input; cheap float arithmetic, state-dependent, so any skipped or doubled step shows
	#[kani::proof]
	#[kani::unwind(6)]
	fn vk_sequence_apply_is_stream() {
		use crate::core::Sequence;
		use crate::methods::Change;
		let a = [small(), small(), small(), small()];
		let mut s = a;
		let mut m1 = Change::new(1, &a[0]).unwrap();
		let mut m2 = Change::new(1, &a[0]).unwrap();
		Sequence::apply(&mut s, &mut m1);
		let mut i = 0;
		while i < 4 {
			let y = m2.next(&a[i]);
			assert!(s[i].to_bits() == y.to_bits());
			i += 1;
		}
	}
	// odd length and a one-element chunk (a pairwise-unrolled loop must not drop the last element)
	#[kani::proof]
	#[kani::unwind(6)]
	fn vk_sequence_apply_is_stream_odd() {
		use crate::core::Sequence;
		use crate::methods::Change;
		let a = [small(), small(), small()];
		let mut s = a;
		let mut m1 = Change::new(1, &a[0]).unwrap();
		let mut m2 = Change::new(1, &a[0]).unwrap();
		Sequence::apply(&mut s, &mut m1);
		let mut one = [small()];
		let x = one[0];
		Sequence::apply(&mut one, &mut m1);
		let mut i = 0;
		while i < 3 {
			let y = m2.next(&a[i]);
			assert!(s[i].to_bits() == y.to_bits());
			i += 1;
		}
		let y = m2.next(&x);
		assert!(one[0].to_bits() == y.to_bits());
	}
	#[kani::proof]
	#[kani::unwind(6)]
	fn vk_method_new_apply_is_stream() {
		use crate::methods::Change;
		let a = [small(), small(), small(), small()];
		let mut s = a;
		Change::new_apply(1, &mut s).unwrap();
		let mut m2 = Change::new(1, &a[0]).unwrap();
		let mut i = 0;
		while i < 4 {
			let y = m2.next(&a[i]);
			assert!(s[i].to_bits() == y.to_bits());
			i += 1;
		}
	}
	#[kani::proof]
	#[kani::unwind(6)]
	fn vk_method_new_fn_is_stream() {
		use crate::methods::Change;
		let a = [small(), small(), small()];
		let mut f = Change::new_fn(1, &a[0]).unwrap();
		let mut m2 = Change::new(1, &a[0]).unwrap();
		let mut i = 0;
		while i < 3 {
			let y = m2.next(&a[i]);
			let z = f(&a[i]);
			assert!(z.to_bits() == y.to_bits());
			i += 1;
		}
	}

	// ---- C15 / C02: Conv(weights) against its definition: the oldest of the last |w| inputs meets the first weight, the newest the last one,
	// normalised by the weight sum. Two kernels of length 3 with weight sum 4 (so the normalisation is exact), one of them ending in a zero weight;
	// integer inputs in -8..=8, 3 steps: every product and sum is exact, so equality is exact
	#[kani::proof]
	#[kani::unwind(5)]
	fn vk_conv_l3_weight_profile() {
		let zero_tail: bool = kani::any();
		let w: [ValueType; 3] = if zero_tail { [1.0, 3.0, 0.0] } else { [1.0, 2.0, 1.0] };
		let x0 = small();
		let mut m = Conv::new(w.to_vec(), &x0).unwrap();
		let x1 = small(); let o1 = m.next(&x1);
		assert!(o1 == (w[0] * x0 + w[1] * x0 + w[2] * x1) * 0.25);
		let x2 = small(); let o2 = m.next(&x2);
		assert!(o2 == (w[0] * x0 + w[1] * x1 + w[2] * x2) * 0.25);
		let x3 = small(); let o3 = m.next(&x3);
		assert!(o3 == (w[0] * x1 + w[1] * x2 + w[2] * x3) * 0.25);
	}
}
