
// ---- appended by /verif (Engine K): text forms of Source (C18) ----
#[cfg(kani)]
mod verif_text {
	use super::*;

	fn any_source() -> Source {
		let k: u8 = kani::any();
		match k % 8 {
			0 => Source::Close,
			1 => Source::Open,
			2 => Source::High,
			3 => Source::Low,
			4 => Source::HL2,
			5 => Source::TP,
			6 => Source::Volume,
			_ => Source::VolumedPrice,
		}
	}

	// every Source's text form parses back to the same Source (all 8 variants)
	#[kani::proof]
	#[kani::unwind(16)]
	fn vk_source_text_roundtrip() {
		let s = any_source();
		let text: &'static str = s.into();
		let back = Source::from_str(text);
		assert!(back.is_ok());
		assert!(back.unwrap() == s);
	}

	// arbitrary short byte strings never panic and are either one of the documented names or rejected
	#[kani::proof]
	#[kani::unwind(8)]
	fn vk_source_parse_total_len3() {
		let b: [u8; 3] = kani::any();
		kani::assume(b[0] < 128 && b[1] < 128 && b[2] < 128);
		let n: usize = kani::any();
		kani::assume(n <= 3);
		if let Ok(text) = std::str::from_utf8(&b[..n]) {
			let r = Source::from_str(text);
			if let Ok(src) = r {
				// only "tp", "hl2", "low" (any case, surrounding blanks trimmed) are that short
				assert!(matches!(src, Source::TP | Source::HL2 | Source::Low));
			}
		}
	}

	// concrete spellings through the REAL std text primitives (to_ascii_lowercase, trim, split_once, parse), which the Verus units treat as
	// uninterpreted: a handful of samples, so bounded; they are the witnesses consulted when the text_forms / ma_text units no longer extract
	#[kani::proof]
	#[kani::unwind(20)]
	fn vk_source_concrete_spellings() {
		assert!(matches!(Source::from_str("close"), Ok(v) if v == Source::Close));
		assert!(matches!(Source::from_str(" High"), Ok(v) if v == Source::High));
		assert!(matches!(Source::from_str("LOW "), Ok(v) if v == Source::Low));
		assert!(matches!(Source::from_str("hlc3"), Ok(v) if v == Source::TP));
		assert!(Source::from_str("clos").is_err());
		assert!(Source::from_str("").is_err());
	}
	#[kani::proof]
	#[kani::unwind(20)]
	fn vk_ma_concrete_spellings() {
		use crate::helpers::MA;
		assert!(matches!(MA::from_str("sma-3"), Ok(v) if v == MA::SMA(3)));
		assert!(matches!(MA::from_str("tema-7"), Ok(v) if v == MA::TEMA(7)));
		assert!(MA::from_str("sma-256").is_err() || crate::core::PeriodType::MAX as usize > 255);
		assert!(MA::from_str("sma").is_err());
		assert!(MA::from_str("foo-3").is_err());
		assert!(MA::from_str("ema-x").is_err());
	}
}
