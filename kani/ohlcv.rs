
// ---- appended by /verif (Engine K): candle helpers, bit-precise over every f64 (C18) ----
#[cfg(kani)]
mod verif_ohlcv {
	use super::*;
	use crate::core::Candle;

	fn any_candle() -> Candle {
		Candle { open: kani::any(), high: kani::any(), low: kani::any(), close: kani::any(), volume: kani::any() }
	}
	// same value or both NaN
	fn same(a: ValueType, b: ValueType) -> bool { a == b || (a.is_nan() && b.is_nan()) }

	// dispatch of source(kind) and the flags; the arithmetic identities (tp, hl2, ohlc4, clv, tr) are proved over reals in Verus unit `ohlcv`
	#[kani::proof]
	fn vk_ohlcv_source_dispatch() {
		let c = any_candle();
		assert!(same(c.source(Source::Close), c.close));
		assert!(same(c.source(Source::Open), c.open));
		assert!(same(c.source(Source::High), c.high));
		assert!(same(c.source(Source::Low), c.low));
		assert!(same(c.source(Source::Volume), c.volume));
		assert!(c.is_rising() == (c.close > c.open) && c.is_falling() == (c.close < c.open));
	}

	#[kani::proof]
	fn vk_ohlcv_clv_zero_range() {
		let c = any_candle();
		kani::assume(c.high == c.low);
		assert!(c.clv() == 0.0);
	}

	// bit-level form of the true-range identity on integer-valued prices (every i16 triple with high >= low; all differences are exact there).
	// The same identity over ALL finite f64 did not finish within 50 minutes of CBMC time and is not registered.
	#[kani::proof]
	fn vk_ohlcv_tr_close() {
		let (h, l, p): (i16, i16, i16) = (kani::any(), kani::any(), kani::any());
		kani::assume(h >= l);
		let c = Candle { open: l as ValueType, high: h as ValueType, low: l as ValueType, close: h as ValueType, volume: 1.0 };
		let pc = p as ValueType;
		let r = c.tr_close(pc);
		let a = c.high - c.low;
		let b = (c.high - pc).abs();
		let d = (c.low - pc).abs();
		let want = a.max(b).max(d);
		assert!(r == want);
		assert!(r >= 0.0);
	}

	#[kani::proof]
	fn vk_ohlcv_validate() {
		let c = any_candle();
		let ordered = c.low <= c.close && c.close <= c.high && c.low <= c.high;
		let positive = c.close > 0.0 && c.open > 0.0 && c.high > 0.0 && c.low > 0.0;
		let finite = c.close.is_finite() && c.open.is_finite() && c.high.is_finite() && c.low.is_finite();
		let vol_ok = c.volume.is_nan() || c.volume >= 0.0;
		assert!(c.validate() == (ordered && positive && finite && vol_ok));
	}
}
