
// ---- appended by /verif (Engine K): Action algebra, bit-precise over full domains (C16) ----
#[cfg(kani)]
mod verif_action {
	use super::*;

	fn any_action() -> Action {
		let k: u8 = kani::any();
		let v: u8 = kani::any();
		match k % 3 {
			0 => Action::Buy(v),
			1 => Action::Sell(v),
			_ => Action::None,
		}
	}
	// signed strength in -255..=255, no signal counting as zero
	fn sv(a: Action) -> i32 {
		match a {
			Action::Buy(v) => v as i32,
			Action::Sell(v) => -(v as i32),
			Action::None => 0,
		}
	}

	#[kani::proof]
	fn vk_action_from_i8() {
		let x: i8 = kani::any();
		let a = Action::from(x);
		assert!((x == 0) == a.is_none());
		assert!(x <= 0 || a == Action::BUY_ALL);
		assert!(x >= 0 || a == Action::SELL_ALL);
		assert!(a.analog() == x.signum());
	}

	#[kani::proof]
	fn vk_action_from_f64_total() {
		let x: f64 = kani::any();
		let a = Action::from(x); // never panics (the debug assertion inside included)
		if x.is_nan() {
			assert!(a.is_none());
		} else {
			assert!(a.is_some());
			if x > 0.0 { assert!(matches!(a, Action::Buy(_))); }
			if x < 0.0 { assert!(matches!(a, Action::Sell(_))); }
			if x >= 1.0 { assert!(a == Action::BUY_ALL); }
			if x <= -1.0 { assert!(a == Action::SELL_ALL); }
			let r = a.ratio().unwrap();
			assert!(r >= -1.0 && r <= 1.0);
			// nearest representable strength: |ratio - clamp(x)| <= 1/510
			let c = x.clamp(-1.0, 1.0);
			assert!((r - c).abs() <= 0.5 / 255.0 + 1e-12);
		}
	}

	#[kani::proof]
	fn vk_action_from_f32_total() {
		let x: f32 = kani::any();
		let a = Action::from(x);
		assert!(x.is_nan() == a.is_none());
		if x > 0.0 { assert!(matches!(a, Action::Buy(_))); }
		if x < 0.0 { assert!(matches!(a, Action::Sell(_))); }
		if x >= 1.0 { assert!(a == Action::BUY_ALL); }
		if x <= -1.0 { assert!(a == Action::SELL_ALL); }
	}

	#[kani::proof]
	fn vk_action_from_f64_monotone() {
		let x: f64 = kani::any();
		let y: f64 = kani::any();
		kani::assume(!x.is_nan() && !y.is_nan() && x <= y);
		assert!(sv(Action::from(x)) <= sv(Action::from(y)));
	}

	#[kani::proof]
	fn vk_action_ratio_roundtrip() {
		let a = any_action();
		match a.ratio() {
			None => assert!(a.is_none()),
			Some(r) => {
				assert!(r >= -1.0 && r <= 1.0);
				assert!(Action::from(r) == a);
				assert!(sv(Action::from(r)) == sv(a));
				// analog / sign agree with the sign of the ratio
				assert!(a.analog() == (r > 0.0) as i8 - (r < 0.0) as i8);
				assert!(a.sign() == Some(a.analog()));
			}
		}
	}

	#[kani::proof]
	fn vk_action_neg() {
		let a = any_action();
		assert!(sv(-a) == -sv(a));
		assert!(sv(-(-a)) == sv(a) && (-(-a)).is_none() == a.is_none());
		match (a.ratio(), (-a).ratio()) {
			(Some(r), Some(n)) => assert!(n == -r),
			(None, None) => {}
			_ => assert!(false),
		}
	}

	#[kani::proof]
	#[kani::unwind(4)]
	fn vk_action_sub() {
		let a = any_action();
		let b = any_action();
		let d = a - b;
		let want = (sv(a) - sv(b)).clamp(-255, 255);
		assert!(sv(d) == want);
	}

	#[kani::proof]
	fn vk_action_eq_equivalence() {
		let a = any_action();
		let b = any_action();
		let c = any_action();
		assert!(a == a);
		assert!((a == b) == (b == a));
		if a == b && b == c { assert!(a == c); }
		// equality is 'same signed strength and same some/none-ness'
		assert!((a == b) == (sv(a) == sv(b) && a.is_none() == b.is_none()));
	}

	#[kani::proof]
	fn vk_action_ord_consistent() {
		let a = any_action();
		let b = any_action();
		assert!((a == b) == (a.cmp(&b) == std::cmp::Ordering::Equal));
	}

	// the listed finding (Buy(0) vs Sell(0)) cut out: any other inconsistency still fails here
	#[kani::proof]
	fn vk_action_ord_consistent_guarded() {
		let a = any_action();
		let b = any_action();
		kani::assume(!(a.is_some() && b.is_some() && sv(a) == 0 && sv(b) == 0));
		assert!((a == b) == (a.cmp(&b) == std::cmp::Ordering::Equal));
	}

	#[kani::proof]
	fn vk_action_ord_total_order() {
		let a = any_action();
		let b = any_action();
		let c = any_action();
		use std::cmp::Ordering::*;
		assert!(a.cmp(&b) == b.cmp(&a).reverse());
		if a.cmp(&b) != Greater && b.cmp(&c) != Greater { assert!(a.cmp(&c) != Greater); }
		assert!(a.partial_cmp(&b) == Some(a.cmp(&b)));
	}
}
