
// ---- appended by /verif (Engine K): concrete / bounded harnesses on shipped indicators (witnesses for findings; never counted as proof) ----
#[cfg(kani)]
mod verif_indicators {
	use crate::core::{Action, Candle, IndicatorConfig, IndicatorInstance, ValueType};
	use crate::core::Source;
	use crate::indicators::{PivotReversalStrategy, TrendStrengthIndex};

	fn candle(low: ValueType, high: ValueType) -> Candle {
		Candle { open: low, high, low, close: high, volume: 1.0 }
	}

	// documented: "When low pivot happens, returns full buy signal. When high pivot happens, returns full sell signal.
	// Otherwise returns no signal." A strictly rising series has no pivot at all, so every step must be silent.
	// KNOWN FINDING (C06): the indicator returns a full buy signal on every one of these steps.
	#[kani::proof]
	#[kani::unwind(8)]
	fn vk_pivot_reversal_silent_without_pivot() {
		let cfg = PivotReversalStrategy { left: 1, right: 1 };
		let mut inst = cfg.init(&candle(10.0, 11.0)).unwrap();
		let mut k = 0;
		while k < 4 {
			let p = 10.0 + k as ValueType;
			let r = inst.next(&candle(p, p + 1.0));
			assert!(r.signal(0).is_none());
			k += 1;
		}
	}
	// the documented positive case holds: lows 5,4,3,4 under steadily rising highs 6,7,8,9 have a low pivot at the third candle and no high pivot;
	// it is reported one step later as a full buy
	#[kani::proof]
	#[kani::unwind(8)]
	fn vk_pivot_reversal_low_pivot_buys() {
		let cfg = PivotReversalStrategy { left: 1, right: 1 };
		let mut inst = cfg.init(&candle(5.0, 6.0)).unwrap();
		let _ = inst.next(&candle(5.0, 6.0));
		let _ = inst.next(&candle(4.0, 7.0));
		let _ = inst.next(&candle(3.0, 8.0));
		let r = inst.next(&candle(4.0, 9.0));
		assert!(r.signal(0) == Action::BUY_ALL);
	}

	// documented signal 2 of TrendStrengthIndex: "When main value is below lower zone and changes direction upwards, gives full positive #2 signal.
	// When main value is above upper zone and changes direction downwards, gives full negative #2 signal."
	// Closes 10, 10, 11, 10, 11 (period 4, zone 0.75): the main value peaks at 0.775 (step 2), above the upper zone, and turns down, so the
	// pivot reported at step 4 must not be a buy. KNOWN FINDING (C06): it is a full POSITIVE signal (the sign is the opposite of the documented
	// one; the zone test reads the source price instead of the main value, so it also fires for peaks far inside the zone, e.g. 0.447 two steps later).
	#[kani::proof]
	#[kani::unwind(8)]
	fn vk_trend_strength_signal2_sign() {
		let cfg = TrendStrengthIndex { period: 4, zone: 0.75, reverse_offset: 2, source: Source::Close };
		let closes = [10.0, 10.0, 11.0, 10.0, 11.0];
		let mut inst = cfg.init(&candle(10.0, 10.0)).unwrap();
		let mut k = 0;
		while k < 5 {
			let r = inst.next(&candle(closes[k], closes[k]));
			if k == 4 {
				assert!(r.signal(1) != Action::BUY_ALL);
			}
			k += 1;
		}
	}

	// ---- C11: dynamic dispatch (core/indicator/dd.rs) forwards to the static implementation: same results, same shape, same name ----
	// MomentumIndex (two Momentum windows, subtraction only) through Box<dyn IndicatorInstanceDyn<Candle>> against the static instance, symbolic closes, 3 steps
	#[kani::proof]
	#[kani::unwind(6)]
	fn vk_dyn_forwarding_momentum_index() {
		use crate::core::{IndicatorConfigDyn, IndicatorInstanceDyn};
		use crate::indicators::MomentumIndex;
		let cfg = MomentumIndex { period1: 2, period2: 1, source: Source::Close };
		let dcfg: &dyn IndicatorConfigDyn<Candle> = &cfg;
		assert!(dcfg.validate() == IndicatorConfig::validate(&cfg));
		assert!(dcfg.size() == IndicatorConfig::size(&cfg));
		assert!(dcfg.size() == (2, 1));
		let c0: i8 = kani::any();
		let first = candle(c0 as ValueType, c0 as ValueType);
		let mut stat = IndicatorConfig::init(cfg, &first).unwrap();
		let mut dynamic = dcfg.init(&first).unwrap();
		assert!(dynamic.size() == (2, 1));
		let mut k = 0;
		while k < 3 {
			let c: i8 = kani::any();
			let cd = candle(c as ValueType, c as ValueType);
			let a = IndicatorInstance::next(&mut stat, &cd);
			let b = dynamic.next(&cd);
			assert!(a.values_length() == b.values_length() && a.signals_length() == b.signals_length());
			assert!(a.value(0).to_bits() == b.value(0).to_bits() && a.value(1).to_bits() == b.value(1).to_bits());
			assert!(a.signal(0) == b.signal(0));
			k += 1;
		}
		// `over` on an instance that already has history continues from its state (and advances it)
		let (c1, c2): (i8, i8) = (kani::any(), kani::any());
		let tail = [candle(c1 as ValueType, c1 as ValueType), candle(c2 as ValueType, c2 as ValueType)];
		let rs = dynamic.over(&tail);
		assert!(rs.len() == 2);
		let a1 = IndicatorInstance::next(&mut stat, &tail[0]);
		let a2 = IndicatorInstance::next(&mut stat, &tail[1]);
		assert!(rs[0].value(0).to_bits() == a1.value(0).to_bits() && rs[0].value(1).to_bits() == a1.value(1).to_bits());
		assert!(rs[1].value(0).to_bits() == a2.value(0).to_bits() && rs[1].value(1).to_bits() == a2.value(1).to_bits());
		let c3: i8 = kani::any();
		let last = candle(c3 as ValueType, c3 as ValueType);
		let a3 = IndicatorInstance::next(&mut stat, &last);
		let b3 = dynamic.next(&last);
		assert!(a3.value(0).to_bits() == b3.value(0).to_bits());
	}

	// ---- C08 at indicator level: an indicator initialised with a candle and fed that same candle returns constant values from the first step on ----
	#[kani::proof]
	#[kani::unwind(8)]
	fn vk_trix_constant_candle() {
		use crate::indicators::Trix;
		let c = Candle { open: 100.0, high: 104.0, low: 96.0, close: 102.0, volume: 10.0 };
		let mut inst = Trix::default().init(&c).unwrap();
		let first = inst.next(&c);
		let mut k = 0;
		while k < 2 {
			let r = inst.next(&c);
			assert!(r.value(0).to_bits() == first.value(0).to_bits());
			assert!(r.value(1).to_bits() == first.value(1).to_bits());
			k += 1;
		}
	}
	#[kani::proof]
	#[kani::unwind(16)]
	fn vk_rvi_constant_candle() {
		use crate::indicators::RelativeVigorIndex;
		let c = Candle { open: 100.0, high: 104.0, low: 96.0, close: 102.0, volume: 10.0 };
		let mut inst = RelativeVigorIndex::default().init(&c).unwrap();
		let first = inst.next(&c);
		let mut k = 0;
		while k < 2 {
			let r = inst.next(&c);
			assert!(r.value(0).to_bits() == first.value(0).to_bits());
			assert!(r.value(1).to_bits() == first.value(1).to_bits());
			k += 1;
		}
	}

	// ---- C11: "the default configuration of every indicator is valid and initialises" ----
	// validate() on the 36 default configurations: concrete, loop-free comparisons, so a passing harness is a complete proof of this clause
	#[kani::proof]
	fn vk_default_configs_validate() {
		use crate::indicators as ind;
		assert!(<ind::Aroon>::default().validate());
		assert!(<ind::AverageDirectionalIndex>::default().validate());
		assert!(<ind::AwesomeOscillator>::default().validate());
		assert!(<ind::BollingerBands>::default().validate());
		assert!(<ind::ChaikinMoneyFlow>::default().validate());
		assert!(<ind::ChaikinOscillator>::default().validate());
		assert!(<ind::ChandeKrollStop>::default().validate());
		assert!(<ind::ChandeMomentumOscillator>::default().validate());
		assert!(<ind::CommodityChannelIndex>::default().validate());
		assert!(<ind::CoppockCurve>::default().validate());
		assert!(<ind::DetrendedPriceOscillator>::default().validate());
		assert!(<ind::DonchianChannel>::default().validate());
		assert!(<ind::EaseOfMovement>::default().validate());
		assert!(<ind::EldersForceIndex>::default().validate());
		assert!(<ind::Envelopes>::default().validate());
		assert!(<ind::FisherTransform>::default().validate());
		assert!(<ind::HullMovingAverage>::default().validate());
		assert!(<ind::IchimokuCloud>::default().validate());
		assert!(<ind::Kaufman>::default().validate());
		assert!(<ind::KeltnerChannel>::default().validate());
		assert!(<ind::KlingerVolumeOscillator>::default().validate());
		assert!(<ind::KnowSureThing>::default().validate());
		assert!(<ind::MACD>::default().validate());
		assert!(<ind::MomentumIndex>::default().validate());
		assert!(<ind::MoneyFlowIndex>::default().validate());
		assert!(<ind::ParabolicSAR>::default().validate());
		assert!(<ind::PivotReversalStrategy>::default().validate());
		assert!(<ind::PriceChannelStrategy>::default().validate());
		assert!(<ind::RelativeStrengthIndex>::default().validate());
		assert!(<ind::RelativeVigorIndex>::default().validate());
		assert!(<ind::SMIErgodicIndicator>::default().validate());
		assert!(<ind::StochasticOscillator>::default().validate());
		assert!(<ind::Trix>::default().validate());
		assert!(<ind::TrendStrengthIndex>::default().validate());
		assert!(<ind::TrueStrengthIndex>::default().validate());
		assert!(<ind::WoodiesCCI>::default().validate());
	}
	// init() of the 36 default configurations on ONE concrete valid candle (bounded: the candle is fixed), in two halves
	#[kani::proof]
	#[kani::unwind(70)]
	fn vk_default_configs_init_a() {
		use crate::indicators as ind;
		let c = Candle { open: 10.0, high: 12.0, low: 9.0, close: 11.0, volume: 100.0 };
		assert!(<ind::Aroon>::default().init(&c).is_ok());
		assert!(<ind::AverageDirectionalIndex>::default().init(&c).is_ok());
		assert!(<ind::AwesomeOscillator>::default().init(&c).is_ok());
		assert!(<ind::BollingerBands>::default().init(&c).is_ok());
		assert!(<ind::ChaikinMoneyFlow>::default().init(&c).is_ok());
		assert!(<ind::ChaikinOscillator>::default().init(&c).is_ok());
		assert!(<ind::ChandeKrollStop>::default().init(&c).is_ok());
		assert!(<ind::ChandeMomentumOscillator>::default().init(&c).is_ok());
		assert!(<ind::CommodityChannelIndex>::default().init(&c).is_ok());
		assert!(<ind::CoppockCurve>::default().init(&c).is_ok());
		assert!(<ind::DetrendedPriceOscillator>::default().init(&c).is_ok());
		assert!(<ind::DonchianChannel>::default().init(&c).is_ok());
		assert!(<ind::EaseOfMovement>::default().init(&c).is_ok());
		assert!(<ind::EldersForceIndex>::default().init(&c).is_ok());
		assert!(<ind::Envelopes>::default().init(&c).is_ok());
		assert!(<ind::FisherTransform>::default().init(&c).is_ok());
		assert!(<ind::HullMovingAverage>::default().init(&c).is_ok());
		assert!(<ind::IchimokuCloud>::default().init(&c).is_ok());
	}
	#[kani::proof]
	#[kani::unwind(70)]
	fn vk_default_configs_init_b() {
		use crate::indicators as ind;
		let c = Candle { open: 10.0, high: 12.0, low: 9.0, close: 11.0, volume: 100.0 };
		assert!(<ind::Kaufman>::default().init(&c).is_ok());
		assert!(<ind::KeltnerChannel>::default().init(&c).is_ok());
		assert!(<ind::KlingerVolumeOscillator>::default().init(&c).is_ok());
		assert!(<ind::KnowSureThing>::default().init(&c).is_ok());
		assert!(<ind::MACD>::default().init(&c).is_ok());
		assert!(<ind::MomentumIndex>::default().init(&c).is_ok());
		assert!(<ind::MoneyFlowIndex>::default().init(&c).is_ok());
		assert!(<ind::ParabolicSAR>::default().init(&c).is_ok());
		assert!(<ind::PivotReversalStrategy>::default().init(&c).is_ok());
		assert!(<ind::PriceChannelStrategy>::default().init(&c).is_ok());
		assert!(<ind::RelativeStrengthIndex>::default().init(&c).is_ok());
		assert!(<ind::RelativeVigorIndex>::default().init(&c).is_ok());
		assert!(<ind::SMIErgodicIndicator>::default().init(&c).is_ok());
		assert!(<ind::StochasticOscillator>::default().init(&c).is_ok());
		assert!(<ind::Trix>::default().init(&c).is_ok());
		assert!(<ind::TrendStrengthIndex>::default().init(&c).is_ok());
		assert!(<ind::TrueStrengthIndex>::default().init(&c).is_ok());
		assert!(<ind::WoodiesCCI>::default().init(&c).is_ok());
	}

	// ---- C09: IndicatorConfig::init_fn (init + IndicatorInstance::into_fn: a boxed FnMut closure owning the instance) against init + next,
	// MomentumIndex(2, 1), symbolic integer closes, 3 steps (bounded); the candles outlive the closure, as init_fn's lifetime requires
	#[kani::proof]
	#[kani::unwind(6)]
	fn vk_init_fn_is_stream() {
		use crate::indicators::MomentumIndex;
		let cfg = MomentumIndex { period1: 2, period2: 1, source: Source::Close };
		let (c0, c1, c2, c3): (i8, i8, i8, i8) = (kani::any(), kani::any(), kani::any(), kani::any());
		let cs = [candle(c0 as ValueType, c0 as ValueType), candle(c1 as ValueType, c1 as ValueType), candle(c2 as ValueType, c2 as ValueType), candle(c3 as ValueType, c3 as ValueType)];
		let mut stat = IndicatorConfig::init(cfg, &cs[0]).unwrap();
		let mut f = IndicatorConfig::init_fn(cfg, &cs[0]).unwrap();
		let mut k = 1;
		while k < 4 {
			let a = IndicatorInstance::next(&mut stat, &cs[k]);
			let b = f(&cs[k]);
			assert!(a.values_length() == b.values_length() && a.signals_length() == b.signals_length());
			assert!(a.value(0).to_bits() == b.value(0).to_bits() && a.value(1).to_bits() == b.value(1).to_bits());
			assert!(a.signal(0) == b.signal(0));
			k += 1;
		}
	}
}
