
// ---- appended by /verif (Engine K): concrete / bounded harnesses on shipped indicators (witnesses for findings; never counted as proof) ----
#[cfg(kani)]
mod verif_indicators {
	use crate::core::{Action, Candle, IndicatorConfig, IndicatorInstance, ValueType};
	use crate::indicators::PivotReversalStrategy;

	fn candle(low: ValueType, high: ValueType) -> Candle {
		Candle { open: low, high, low, close: high, volume: 1.0 }
	}

	// documented: "When low pivot happens, returns full buy signal. When high pivot happens, returns full sell signal.
	// Otherwise returns no signal." A strictly rising series has no pivot at all, so every step must be silent.
	// KNOWN FINDING (C06): the indicator returns a full buy signal on every one of these steps.
	#[kani::proof]
	#[kani::unwind(8)]
	fn vk_pivot_reversal_silent_without_pivot() {
		let cfg = PivotReversalStrategy { left: 1, right: 1 };
		let mut inst = cfg.init(&candle(10.0, 11.0)).unwrap();
		let mut k = 0;
		while k < 4 {
			let p = 10.0 + k as ValueType;
			let r = inst.next(&candle(p, p + 1.0));
			assert!(r.signal(0).is_none());
			k += 1;
		}
	}
	// the documented positive case holds: lows 5,4,3,4 / highs 6,5,4,5 have a low pivot at the third candle, reported one step later as a full buy
	#[kani::proof]
	#[kani::unwind(8)]
	fn vk_pivot_reversal_low_pivot_buys() {
		let cfg = PivotReversalStrategy { left: 1, right: 1 };
		let mut inst = cfg.init(&candle(5.0, 6.0)).unwrap();
		let _ = inst.next(&candle(5.0, 6.0));
		let _ = inst.next(&candle(4.0, 5.0));
		let _ = inst.next(&candle(3.0, 4.0));
		let r = inst.next(&candle(4.0, 5.0));
		assert!(r.signal(0) == Action::BUY_ALL);
	}
}
