
// ---- appended by /verif (Engine K): bounded definitional harnesses on the real methods (witness source; never counted as proof) ----
#[cfg(kani)]
mod verif_methods {
	use super::*;
	use crate::core::{Action, Method, ValueType};

	fn finite() -> ValueType {
		let x: ValueType = kani::any();
		kani::assume(x.is_finite());
		x
	}
	// a five-letter alphabet with both zeros: all tie / order / bit-equality patterns on up to four numeric levels
	fn letter() -> ValueType {
		let k: u8 = kani::any();
		match k % 5 {
			0 => -1.0,
			1 => -0.0,
			2 => 0.0,
			3 => 1.0,
			_ => 2.0,
		}
	}
	fn max3(a: ValueType, b: ValueType, c: ValueType) -> ValueType {
		let m = if a >= b { a } else { b };
		if m >= c { m } else { c }
	}
	fn min3(a: ValueType, b: ValueType, c: ValueType) -> ValueType {
		let m = if a <= b { a } else { b };
		if m <= c { m } else { c }
	}
	fn med3(a: ValueType, b: ValueType, c: ValueType) -> ValueType {
		// the middle one of three
		if (a <= b && b <= c) || (c <= b && b <= a) { b } else if (b <= a && a <= c) || (c <= a && a <= b) { a } else { c }
	}

	// window length 3, 5 symbolic finite inputs (any order pattern incl. ties and both zeros)
	const STEPS: usize = 5;
	const SMM_STEPS: usize = 5;
	const DELTA_STEPS: usize = 5;

	#[kani::proof]
	#[kani::unwind(8)]
	fn vk_highest_l3() {
		let x0 = finite();
		let mut m = Highest::new(3, &x0).unwrap();
		let mut h = [x0; 3];
		let mut k = 0;
		while k < STEPS {
			let x = finite();
			h = [h[1], h[2], x];
			let out = m.next(&x);
			assert!(out == max3(h[0], h[1], h[2]));
			k += 1;
		}
	}

	#[kani::proof]
	#[kani::unwind(8)]
	fn vk_lowest_l3() {
		let x0 = finite();
		let mut m = Lowest::new(3, &x0).unwrap();
		let mut h = [x0; 3];
		let mut k = 0;
		while k < STEPS {
			let x = finite();
			h = [h[1], h[2], x];
			let out = m.next(&x);
			assert!(out == min3(h[0], h[1], h[2]));
			k += 1;
		}
	}

	#[kani::proof]
	#[kani::unwind(8)]
	fn vk_highest_lowest_delta_l3() {
		let x0 = letter();
		let mut m = HighestLowestDelta::new(3, &x0).unwrap();
		let mut h = [x0; 3];
		let mut k = 0;
		while k < DELTA_STEPS {
			let x = letter();
			h = [h[1], h[2], x];
			let out = m.next(&x);
			assert!(out == max3(h[0], h[1], h[2]) - min3(h[0], h[1], h[2]));
			k += 1;
		}
	}

	#[kani::proof]
	#[kani::unwind(8)]
	fn vk_highest_index_l3() {
		let x0 = finite();
		let mut m = HighestIndex::new(3, &x0).unwrap();
		let mut h = [x0; 3];
		let mut k = 0;
		while k < STEPS {
			let x = finite();
			h = [h[1], h[2], x];
			let out = m.next(&x);
			let mx = max3(h[0], h[1], h[2]);
			// age of the newest maximal element
			let want = if h[2] == mx { 0 } else if h[1] == mx { 1 } else { 2 };
			assert!(out == want);
			k += 1;
		}
	}

	#[kani::proof]
	#[kani::unwind(8)]
	fn vk_lowest_index_l3() {
		let x0 = finite();
		let mut m = LowestIndex::new(3, &x0).unwrap();
		let mut h = [x0; 3];
		let mut k = 0;
		while k < STEPS {
			let x = finite();
			h = [h[1], h[2], x];
			let out = m.next(&x);
			let mn = min3(h[0], h[1], h[2]);
			let want = if h[2] == mn { 0 } else if h[1] == mn { 1 } else { 2 };
			assert!(out == want);
			k += 1;
		}
	}

	#[kani::proof]
	#[kani::unwind(4)]
	fn vk_smm_l3() {
		let x0 = letter();
		
		let mut m = SMM::new(3, &x0).unwrap();
		let mut h = [x0; 3];
		// five explicit steps (no loop: the unwinding bound then only limits the binary-search recursion, depth <= 2 for length 3)
		let x = letter();  h = [h[1], h[2], x]; let out = m.next(&x); assert!(out == med3(h[0], h[1], h[2]));
		let x = letter();  h = [h[1], h[2], x]; let out = m.next(&x); assert!(out == med3(h[0], h[1], h[2]));
		let x = letter();  h = [h[1], h[2], x]; let out = m.next(&x); assert!(out == med3(h[0], h[1], h[2]));
		let x = letter();  h = [h[1], h[2], x]; let out = m.next(&x); assert!(out == med3(h[0], h[1], h[2]));
		let x = letter();  h = [h[1], h[2], x]; let out = m.next(&x); assert!(out == med3(h[0], h[1], h[2]));
	}

	// the listed finding (both zeros in the window) cut out: the window never holds two zeros of different sign
	#[kani::proof]
	#[kani::unwind(4)]
	fn vk_smm_l3_guarded() {
		let x0 = letter();
		kani::assume(!(x0 == 0.0 && x0.is_sign_negative()));
		let mut m = SMM::new(3, &x0).unwrap();
		let mut h = [x0; 3];
		// five explicit steps (no loop: the unwinding bound then only limits the binary-search recursion, depth <= 2 for length 3)
		let x = letter(); kani::assume(!(x == 0.0 && x.is_sign_negative())); h = [h[1], h[2], x]; let out = m.next(&x); assert!(out == med3(h[0], h[1], h[2]));
		let x = letter(); kani::assume(!(x == 0.0 && x.is_sign_negative())); h = [h[1], h[2], x]; let out = m.next(&x); assert!(out == med3(h[0], h[1], h[2]));
		let x = letter(); kani::assume(!(x == 0.0 && x.is_sign_negative())); h = [h[1], h[2], x]; let out = m.next(&x); assert!(out == med3(h[0], h[1], h[2]));
		let x = letter(); kani::assume(!(x == 0.0 && x.is_sign_negative())); h = [h[1], h[2], x]; let out = m.next(&x); assert!(out == med3(h[0], h[1], h[2]));
		let x = letter(); kani::assume(!(x == 0.0 && x.is_sign_negative())); h = [h[1], h[2], x]; let out = m.next(&x); assert!(out == med3(h[0], h[1], h[2]));
	}

	// window 1: the median IS the input, bit for bit (both zeros included) - the one place where the sign of a zero is pinned down
	#[kani::proof]
	#[kani::unwind(4)]
	fn vk_smm_l1_bits() {
		let x0 = letter();
		let mut m = SMM::new(1, &x0).unwrap();
		let x = letter(); let out = m.next(&x); assert!(out.to_bits() == x.to_bits());
		let x = letter(); let out = m.next(&x); assert!(out.to_bits() == x.to_bits());
		let x = letter(); let out = m.next(&x); assert!(out.to_bits() == x.to_bits());
	}
	// a cheaper witness for the sorted-buffer bookkeeping: window 3, five inputs over the four values {1, 2, 3, 5} (duplicates, no zeros)
	fn quad() -> ValueType {
		let k: u8 = kani::any();
		match k % 4 { 0 => 1.0, 1 => 2.0, 2 => 3.0, _ => 5.0 }
	}
	#[kani::proof]
	#[kani::unwind(4)]
	fn vk_smm_l3_quad() {
		let x0 = quad();
		let mut m = SMM::new(3, &x0).unwrap();
		let mut h = [x0; 3];
		let x = quad(); h = [h[1], h[2], x]; let out = m.next(&x); assert!(out == med3(h[0], h[1], h[2]));
		let x = quad(); h = [h[1], h[2], x]; let out = m.next(&x); assert!(out == med3(h[0], h[1], h[2]));
		let x = quad(); h = [h[1], h[2], x]; let out = m.next(&x); assert!(out == med3(h[0], h[1], h[2]));
		let x = quad(); h = [h[1], h[2], x]; let out = m.next(&x); assert!(out == med3(h[0], h[1], h[2]));
		let x = quad(); h = [h[1], h[2], x]; let out = m.next(&x); assert!(out == med3(h[0], h[1], h[2]));
	}

	// ---- crossing detectors: loop-free over all finite f64 (differences may overflow to +-inf, never NaN): complete ----
	#[kani::proof]
	fn vk_cross_above_under() {
		let a0 = finite();
		let b0 = finite();
		let a1 = finite();
		let b1 = finite();
		let mut up = CrossAbove::new((), &(a0, b0)).unwrap();
		let mut dn = CrossUnder::new((), &(a0, b0)).unwrap();
		let mut both = Cross::new((), &(a0, b0)).unwrap();
		let u = up.next(&(a1, b1));
		let d = dn.next(&(a1, b1));
		let c = both.next(&(a1, b1));
		let last = a0 - b0;
		let cur = a1 - b1;
		// fires exactly when the difference was negative and is non-negative now (mirrored for CrossUnder)
		assert!((u == Action::BUY_ALL) == (last < 0.0 && cur >= 0.0));
		assert!(u == Action::BUY_ALL || u.is_none());
		assert!((d == Action::BUY_ALL) == (last > 0.0 && cur <= 0.0));
		assert!(d == Action::BUY_ALL || d.is_none());
		// Cross is their signed combination
		let want = ((last < 0.0 && cur >= 0.0) as i8) - ((last > 0.0 && cur <= 0.0) as i8);
		assert!(c == Action::from(want));
		assert!(c.analog() == want);
	}

	#[kani::proof]
	fn vk_cross_swap_negates() {
		let a0 = finite();
		let b0 = finite();
		let a1 = finite();
		let b1 = finite();
		let mut x = Cross::new((), &(a0, b0)).unwrap();
		let mut y = Cross::new((), &(b0, a0)).unwrap();
		let cx = x.next(&(a1, b1));
		let cy = y.next(&(b1, a1));
		assert!(cx.analog() == -cy.analog());
		assert!(cx.is_none() == cy.is_none());
	}

	// two steps from an arbitrary reachable state: the state is just the previous difference
	#[kani::proof]
	fn vk_cross_two_steps() {
		let a0 = finite();
		let b0 = finite();
		let a1 = finite();
		let b1 = finite();
		let a2 = finite();
		let b2 = finite();
		let mut up = CrossAbove::new((), &(a0, b0)).unwrap();
		let _ = up.next(&(a1, b1));
		let u = up.next(&(a2, b2));
		assert!((u == Action::BUY_ALL) == ((a1 - b1) < 0.0 && (a2 - b2) >= 0.0));
	}

	// ---- reversal detectors ----
	// (left, right) = (1, 1): fires exactly one step after a value that is >= its older and > its newer neighbour; 6 symbolic steps
	#[kani::proof]
	#[kani::unwind(10)]
	fn vk_reversal_upper_l3() {
		let x0 = letter();
		let mut m = UpperReversalSignal::new(1, 1, &x0).unwrap();
		let mut h = [x0; 3];
		let mut k = 0;
		while k < 6 {
			let x = letter();
			h = [h[1], h[2], x];
			let s = m.next(&x);
			if k >= 3 {
				let peak = h[1] >= h[0] && h[1] > h[2];
				assert!((s == Action::BUY_ALL) == peak);
			}
			assert!(s == Action::BUY_ALL || s.is_none());
			k += 1;
		}
	}
	// warm-up, the stream starting with the construction value (the documented way to seed a method): only elements that exist are
	// compared, so element 0 is a peak when it is > element 1, element 1 when it is >= element 0 and > element 2; nothing fires at step 0
	#[kani::proof]
	#[kani::unwind(10)]
	fn vk_reversal_upper_warmup_l3() {
		let x0 = letter();
		let mut m = UpperReversalSignal::new(1, 1, &x0).unwrap();
		let s0 = m.next(&x0);
		assert!(s0.is_none());
		let x1 = letter();
		let s1 = m.next(&x1);
		assert!((s1 == Action::BUY_ALL) == (x0 > x1));
		let x2 = letter();
		let s2 = m.next(&x2);
		assert!((s2 == Action::BUY_ALL) == (x1 >= x0 && x1 > x2));
	}
	#[kani::proof]
	#[kani::unwind(10)]
	fn vk_reversal_lower_warmup_l3() {
		let x0 = letter();
		let mut m = LowerReversalSignal::new(1, 1, &x0).unwrap();
		let s0 = m.next(&x0);
		assert!(s0.is_none());
		let x1 = letter();
		let s1 = m.next(&x1);
		assert!((s1 == Action::BUY_ALL) == (x0 < x1));
		let x2 = letter();
		let s2 = m.next(&x2);
		assert!((s2 == Action::BUY_ALL) == (x1 <= x0 && x1 < x2));
	}
	// (left, right) = (2, 1): warm-up with a truncated left side, 4 steps
	#[kani::proof]
	#[kani::unwind(10)]
	fn vk_reversal_upper_warmup_l4() {
		let x0 = letter();
		let mut m = UpperReversalSignal::new(2, 1, &x0).unwrap();
		assert!(m.next(&x0).is_none());
		let x1 = letter();
		assert!((m.next(&x1) == Action::BUY_ALL) == (x0 > x1));
		let x2 = letter();
		assert!((m.next(&x2) == Action::BUY_ALL) == (x1 >= x0 && x1 > x2));
		let x3 = letter();
		assert!((m.next(&x3) == Action::BUY_ALL) == (x2 >= x0 && x2 >= x1 && x2 > x3));
		let x4 = letter();
		assert!((m.next(&x4) == Action::BUY_ALL) == (x3 >= x1 && x3 >= x2 && x3 > x4));
	}
	#[kani::proof]
	#[kani::unwind(10)]
	fn vk_reversal_lower_l3() {
		let x0 = letter();
		let mut m = LowerReversalSignal::new(1, 1, &x0).unwrap();
		let mut h = [x0; 3];
		let mut k = 0;
		while k < 6 {
			let x = letter();
			h = [h[1], h[2], x];
			let s = m.next(&x);
			if k >= 3 {
				let trough = h[1] <= h[0] && h[1] < h[2];
				assert!((s == Action::BUY_ALL) == trough);
			}
			k += 1;
		}
	}
	// (left, right) = (2, 2): window 5, 10 symbolic steps over three levels: the rescan branch runs with the minimum in the middle of the window
	fn level() -> ValueType {
		let k: u8 = kani::any();
		match k % 3 { 0 => 1.0, 1 => 2.0, _ => 3.0 }
	}
	#[kani::proof]
	#[kani::unwind(12)]
	fn vk_reversal_lower_l5() {
		let x0 = level();
		let mut m = LowerReversalSignal::new(2, 2, &x0).unwrap();
		let mut h = [x0; 5];
		let mut k = 0;
		while k < 10 {
			let x = level();
			h = [h[1], h[2], h[3], h[4], x];
			let s = m.next(&x);
			if k >= 5 {
				let trough = h[2] <= h[0] && h[2] <= h[1] && h[2] < h[3] && h[2] < h[4];
				assert!((s == Action::BUY_ALL) == trough);
			}
			k += 1;
		}
	}
	#[kani::proof]
	#[kani::unwind(12)]
	fn vk_reversal_upper_l5() {
		let x0 = level();
		let mut m = UpperReversalSignal::new(2, 2, &x0).unwrap();
		let mut h = [x0; 5];
		let mut k = 0;
		while k < 10 {
			let x = level();
			h = [h[1], h[2], h[3], h[4], x];
			let s = m.next(&x);
			if k >= 5 {
				let peak = h[2] >= h[0] && h[2] >= h[1] && h[2] > h[3] && h[2] > h[4];
				assert!((s == Action::BUY_ALL) == peak);
			}
			k += 1;
		}
	}
	// a concrete zigzag much longer than PeriodType::MAX: every peak must still be reported (C07/C14 known finding: it is not)
	#[kani::proof]
	#[kani::unwind(305)]
	fn vk_reversal_long_stream() {
		let mut m = UpperReversalSignal::new(1, 1, &0.0).unwrap();
		let mut k: u32 = 0;
		while k < 300 {
			let x = if k % 2 == 0 { 1.0 } else { 0.0 };
			let s = m.next(&x);
			if k >= 3 {
				assert!((s == Action::BUY_ALL) == (k % 2 == 1));
			}
			k += 1;
		}
	}
	// the same zigzag up to the step at which the position counter reaches its capacity: must hold
	#[kani::proof]
	#[kani::unwind(260)]
	fn vk_reversal_long_stream_guarded() {
		let mut m = UpperReversalSignal::new(1, 1, &0.0).unwrap();
		let mut k: u32 = 0;
		while k < 255 {
			let x = if k % 2 == 0 { 1.0 } else { 0.0 };
			let s = m.next(&x);
			if k >= 3 {
				assert!((s == Action::BUY_ALL) == (k % 2 == 1));
			}
			k += 1;
		}
	}
}
