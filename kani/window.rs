
// ---- appended by /verif (Engine K): bit-precise harnesses for the u8 kernels of Window ----
#[cfg(kani)]
mod verif_window {
	use super::*;

	// a window whose slot i holds the label i; size/index symbolic over the whole well-formed domain.
	// The backing buffer has the maximal length so no symbolic-length allocation is needed; the code under
	// test never reads buf.len() on these paths (get() does: it is given size == buf.len() separately).
	fn labelled(size: PeriodType, index: PeriodType) -> Window<u8> {
		let mut v = [0u8; 254];
		let mut i = 0;
		while i < 254 {
			v[i] = i as u8;
			i += 1;
		}
		Window {
			buf: Box::new(v),
			index,
			size,
			s_1: size.saturating_sub(1),
		}
	}

	fn any_wf() -> (PeriodType, PeriodType) {
		let size: PeriodType = kani::any();
		let index: PeriodType = kani::any();
		kani::assume(size >= 1 && size <= 254);
		kani::assume(index < size);
		(size, index)
	}

	#[kani::proof]
	#[kani::unwind(256)]
	fn vk_window_slice_index() {
		let (size, index) = any_wf();
		let w = labelled(size, index);
		let i: PeriodType = kani::any();
		let r = w.slice_index(i);
		if i < size {
			// age i (0 = newest) lives `size-1-i` slots after the oldest
			let want = ((index as usize) + (size - 1 - i) as usize) % (size as usize);
			assert!(r == Some(want as PeriodType));
		} else {
			assert!(r.is_none());
		}
	}

	#[kani::proof]
	#[kani::unwind(256)]
	fn vk_window_index_newest_oldest() {
		let (size, index) = any_wf();
		let w = labelled(size, index);
		let i: PeriodType = kani::any();
		kani::assume(i < size);
		let want = ((index as usize) + (size - 1 - i) as usize) % (size as usize);
		assert!(w[i] == want as u8);
		assert!(*w.oldest() == index);
		assert!(*w.newest() == (((index as usize) + (size as usize) - 1) % (size as usize)) as u8);
	}

	// Window::get: Some(&element `i` steps back) for i < size, None otherwise (every size, ring phase and argument)
	#[kani::proof]
	#[kani::unwind(256)]
	fn vk_window_get() {
		let (size, index) = any_wf();
		let w = labelled(size, index);
		let i: PeriodType = kani::any();
		match w.get(i) {
			Some(v) => {
				assert!(i < size);
				let want = ((index as usize) + (size - 1 - i) as usize) % (size as usize);
				assert!(*v == want as u8);
			}
			None => assert!(i >= size),
		}
	}

	#[kani::proof]
	#[kani::unwind(256)]
	fn vk_window_push() {
		let (size, index) = any_wf();
		let mut w = labelled(size, index);
		let old = w.push(255);
		assert!(old == index);
		assert!(w.index as usize == ((index as usize) + 1) % (size as usize));
		assert!(w.buf[index as usize] == 255);
		assert!(*w.newest() == 255);
	}

	#[kani::proof]
	#[kani::unwind(256)]
	fn vk_window_iter_steps() {
		let (size, index) = any_wf();
		let w = labelled(size, index);
		// an iterator in an arbitrary reachable state: `left` elements still to be yielded
		let left: PeriodType = kani::any();
		kani::assume(left <= size);
		let n = size as usize;
		let mut it = WindowIterator {
			window: &w,
			index: (((index as usize) + (left as usize)) % n) as PeriodType,
			size: left,
		};
		let r = it.next();
		if left == 0 {
			assert!(r.is_none());
		} else {
			// newest-first: the next one is the element `left-1` slots after the oldest
			assert!(*r.unwrap() == (((index as usize) + (left as usize) - 1) % n) as u8);
			assert!(it.size == left - 1);
			assert!(it.index as usize == ((index as usize) + (left as usize) - 1) % n);
		}
		let mut rit = ReversedWindowIterator {
			window: &w,
			index: (((index as usize) + n - (left as usize)) % n) as PeriodType,
			size: left,
		};
		let r = rit.next();
		if left == 0 {
			assert!(r.is_none());
		} else {
			assert!(*r.unwrap() == (((index as usize) + n - (left as usize)) % n) as u8);
			assert!(rit.size == left - 1);
			assert!(rit.index as usize == ((index as usize) + n - (left as usize) + 1) % n);
		}
	}

	#[kani::proof]
	#[kani::unwind(256)]
	fn vk_window_iter_last() {
		let (size, index) = any_wf();
		let w = labelled(size, index);
		let left: PeriodType = kani::any();
		kani::assume(left <= size);
		let n = size as usize;
		let it = WindowIterator {
			window: &w,
			index: (((index as usize) + (left as usize)) % n) as PeriodType,
			size: left,
		};
		assert!(it.size_hint() == (left as usize, Some(left as usize)));
		let l = it.last();
		if left == 0 {
			assert!(l.is_none());
		} else {
			assert!(*l.unwrap() == index);
		}
		let rit = ReversedWindowIterator {
			window: &w,
			index: (((index as usize) + n - (left as usize)) % n) as PeriodType,
			size: left,
		};
		assert!(rit.count() == left as usize);
		let rit = ReversedWindowIterator {
			window: &w,
			index: (((index as usize) + n - (left as usize)) % n) as PeriodType,
			size: left,
		};
		let l = rit.last();
		if left == 0 {
			assert!(l.is_none());
		} else {
			assert!(*l.unwrap() == (((index as usize) + n - 1) % n) as u8);
		}
	}

	#[kani::proof]
	fn vk_window_empty() {
		let w: Window<u8> = Window::empty();
		let i: PeriodType = kani::any();
		assert!(w.get(i).is_none());
		assert!(w.iter().next().is_none());
		assert!(w.iter_rev().next().is_none());
		assert!(w.iter().last().is_none());
		assert!(w.iter_rev().last().is_none());
		assert!(w.iter().count() == 0);
		assert!(w.is_empty() && w.len() == 0);
	}

	// a window rebuilt from an exported buffer and oldest-index represents the same sequence (length 5, every index)
	#[kani::proof]
	#[kani::unwind(24)]
	fn vk_window_from_parts() {
		let index: PeriodType = kani::any();
		kani::assume(index < 5);
		let buf: Box<[u8]> = Box::new([10, 11, 12, 13, 14]);
		let mut w = Window::from_parts(buf, index);
		assert!(w.len() == 5 && !w.is_empty());
		// oldest first: buf[index], buf[index+1], ... (cyclically)
		let mut i: PeriodType = 0;
		while i < 5 {
			let want = 10 + ((index + i) % 5);
			assert!(w[4 - i] == want);
			assert!(w.get(4 - i) == Some(&want));
			i += 1;
		}
		assert!(*w.oldest() == 10 + index && *w.newest() == 10 + ((index + 4) % 5));
		assert!(w.push(99) == 10 + index);
		assert!(*w.newest() == 99 && *w.oldest() == 10 + ((index + 1) % 5));
	}
}
