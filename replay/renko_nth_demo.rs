use yata::core::{Candle, Method, Source};
use yata::methods::Renko;

#[test]
fn renko_output_nth_past_the_end() {
	let c = |p: f64| Candle { open: p, high: p, low: p, close: p, volume: 1.0 };
	let mut r = Renko::new((0.01, Source::Close), &c(100.0)).unwrap();
	// one brick up: the first boundary above 100 is 100.5 * 1.01 = 101.505
	let out = r.next(&c(102.0));
	let n = out.len(); eprintln!("len={n}"); assert!(n >= 1);
	// Iterator::skip is implemented through nth
	let mut it = out.skip(n + 1);
	assert!(it.next().is_none(), "an emission of one brick yielded a brick after skipping two");
}
