// ---- spec library over sequences of model values (verified on every run) ----
pub open spec fn sum(s: Seq<R>) -> real decreases s.len() {
	if s.len() == 0 { 0real } else { sum(s.drop_last()) + s.last()@ }
}
pub open spec fn konst(n: nat, v: R) -> Seq<R> { Seq::new(n, |i: int| v) }

pub proof fn lemma_sum_tail(s: Seq<R>)
	requires s.len() >= 1
	ensures sum(s.drop_first()) == sum(s) - s[0]@
	decreases s.len()
{
	if s.len() == 1 {
		reveal_with_fuel(sum, 2);
		assert(s.drop_first().len() == 0);
		assert(s.drop_last().len() == 0);
		assert(sum(s.drop_last()) == 0real);
		assert(s.last() == s[0]);
	} else {
		let t = s.drop_last();
		lemma_sum_tail(t);
		assert(s.drop_first().drop_last() =~= t.drop_first());
		assert(s.drop_first().last() == s.last());
		assert(t[0] == s[0]);
	}
}
pub proof fn lemma_sum_push(s: Seq<R>, x: R)
	ensures sum(s.push(x)) == sum(s) + x@
{
	assert(s.push(x).drop_last() =~= s);
	assert(s.push(x).last() == x);
}
// the sliding update every running-sum method relies on
pub proof fn lemma_sum_slide(s: Seq<R>, x: R)
	requires s.len() >= 1
	ensures sum(s.drop_first().push(x)) == sum(s) - s[0]@ + x@
{
	lemma_sum_tail(s);
	lemma_sum_push(s.drop_first(), x);
}
pub proof fn lemma_sum_konst(n: nat, v: R)
	ensures sum(konst(n, v)) == (n as real) * v@
	decreases n
{
	if n == 0 {
		assert(konst(0, v).len() == 0);
		assert(0real * v@ == 0real) by(nonlinear_arith);
	} else {
		lemma_sum_konst((n - 1) as nat, v);
		assert(konst(n, v).drop_last() =~= konst((n - 1) as nat, v));
		assert(konst(n, v).last() == v);
		let m = (n - 1) as nat;
		let (mr, nr, x) = (m as real, n as real, v@);
		assert(mr == nr - 1real);
		assert(mr * x + x == nr * x) by(nonlinear_arith) requires mr == nr - 1real;
	}
}
// a window freshly built by Window::new(n, v) with a Copy element holds n copies of v
pub proof fn lemma_cloned_konst(s: Seq<R>, n: nat, v: R)
	requires s.len() == n, forall|i: int| 0 <= i < n ==> cloned(v, #[trigger] s[i])
	ensures s =~= konst(n, v)
{
}
