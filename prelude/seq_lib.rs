// ---- spec library over sequences of model values (verified on every run) ----
pub open spec fn sum(s: Seq<R>) -> real decreases s.len() {
	if s.len() == 0 { 0real } else { sum(s.drop_last()) + s.last()@ }
}
pub open spec fn konst(n: nat, v: R) -> Seq<R> { Seq::new(n, |i: int| v) }

pub proof fn lemma_sum_tail(s: Seq<R>)
	requires s.len() >= 1
	ensures sum(s.drop_first()) == sum(s) - s[0]@
	decreases s.len()
{
	if s.len() == 1 {
		reveal_with_fuel(sum, 2);
		assert(s.drop_first().len() == 0);
		assert(s.drop_last().len() == 0);
		assert(sum(s.drop_last()) == 0real);
		assert(s.last() == s[0]);
	} else {
		let t = s.drop_last();
		lemma_sum_tail(t);
		assert(s.drop_first().drop_last() =~= t.drop_first());
		assert(s.drop_first().last() == s.last());
		assert(t[0] == s[0]);
	}
}
pub proof fn lemma_sum_push(s: Seq<R>, x: R)
	ensures sum(s.push(x)) == sum(s) + x@
{
	assert(s.push(x).drop_last() =~= s);
	assert(s.push(x).last() == x);
}
// the sliding update every running-sum method relies on
pub proof fn lemma_sum_slide(s: Seq<R>, x: R)
	requires s.len() >= 1
	ensures sum(s.drop_first().push(x)) == sum(s) - s[0]@ + x@
{
	lemma_sum_tail(s);
	lemma_sum_push(s.drop_first(), x);
}
pub proof fn lemma_sum_konst(n: nat, v: R)
	ensures sum(konst(n, v)) == (n as real) * v@
	decreases n
{
	if n == 0 {
		assert(konst(0, v).len() == 0);
		assert(0real * v@ == 0real) by(nonlinear_arith);
	} else {
		lemma_sum_konst((n - 1) as nat, v);
		assert(konst(n, v).drop_last() =~= konst((n - 1) as nat, v));
		assert(konst(n, v).last() == v);
		let m = (n - 1) as nat;
		let (mr, nr, x) = (m as real, n as real, v@);
		assert(mr == nr - 1real);
		assert(mr * x + x == nr * x) by(nonlinear_arith) requires mr == nr - 1real;
	}
}
// a window freshly built by Window::new(n, v) with a Copy element holds n copies of v
pub proof fn lemma_cloned_konst(s: Seq<R>, n: nat, v: R)
	requires s.len() == n, forall|i: int| 0 <= i < n ==> cloned(v, #[trigger] s[i])
	ensures s =~= konst(n, v)
{
}

// weighted sum with weights 1..n (oldest has weight 1, newest weight n)
pub open spec fn wsum(s: Seq<R>) -> real decreases s.len() {
	if s.len() == 0 { 0real } else { wsum(s.drop_last()) + (s.len() as real) * s.last()@ }
}
pub proof fn lemma_wsum_tail(s: Seq<R>)
	requires s.len() >= 1
	ensures wsum(s.drop_first()) == wsum(s) - sum(s)
	decreases s.len()
{
	if s.len() == 1 {
		reveal_with_fuel(wsum, 2); reveal_with_fuel(sum, 2);
		assert(s.drop_first().len() == 0);
		assert(s.drop_last().len() == 0);
		assert(wsum(s.drop_last()) == 0real);
		assert(sum(s.drop_last()) == 0real);
		assert(wsum(s) == 1real * s.last()@);
		assert(sum(s) == s.last()@);
	} else {
		let t = s.drop_last();
		lemma_wsum_tail(t);
		let u = s.drop_first();
		assert(u.drop_last() =~= t.drop_first());
		assert(u.last() == s.last());
		let n = s.len() as real;
		assert(u.len() as real == n - 1real);
		assert(wsum(u) == wsum(t.drop_first()) + (n - 1real) * s.last()@);
		assert(wsum(s) == wsum(t) + n * s.last()@);
		assert(sum(s) == sum(t) + s.last()@);
		assert((n - 1real) * s.last()@ == n * s.last()@ - s.last()@) by(nonlinear_arith);
	}
}
pub proof fn lemma_wsum_slide(s: Seq<R>, x: R)
	requires s.len() >= 1
	ensures wsum(s.drop_first().push(x)) == wsum(s) - sum(s) + (s.len() as real) * x@,
{
	let u = s.drop_first().push(x);
	assert(u.drop_last() =~= s.drop_first());
	assert(u.last() == x);
	lemma_wsum_tail(s);
}
pub open spec fn tri(n: int) -> int decreases n { if n <= 0 { 0 } else { tri(n - 1) + n } }
pub proof fn lemma_tri(n: int)
	requires n >= 0
	ensures 2 * tri(n) == n * (n + 1), tri(n) >= 0, n >= 1 ==> tri(n) >= 1, (n * (n + 1)) / 2 == tri(n), tri(n) >= n
	decreases n
{
	if n > 0 {
		lemma_tri(n - 1);
		assert((n - 1) * n + 2 * n == n * (n + 1)) by(nonlinear_arith);
	} else {
		assert(n * (n + 1) == 0) by(nonlinear_arith) requires n == 0;
	}
}
pub proof fn lemma_wsum_konst(n: nat, v: R)
	ensures wsum(konst(n, v)) == (tri(n as int) as real) * v@
	decreases n
{
	if n == 0 {
		assert(konst(0, v).len() == 0);
		assert(tri(0) == 0);
		assert(0real * v@ == 0real) by(nonlinear_arith);
	} else {
		let m = (n - 1) as nat;
		lemma_wsum_konst(m, v);
		assert(konst(n, v).drop_last() =~= konst(m, v));
		assert(konst(n, v).last() == v);
		lemma_tri(n as int);
		lemma_tri(m as int);
		assert(tri(n as int) == tri(m as int) + n);
		let (a, b, x) = (tri(m as int) as real, n as real, v@);
		assert(tri(n as int) as real == a + b);
		assert(a * x + b * x == (a + b) * x) by(nonlinear_arith);
	}
}

// generic Σ f(s[i])
pub open spec fn fsum<A>(s: Seq<A>, f: spec_fn(A) -> real) -> real decreases s.len() {
	if s.len() == 0 { 0real } else { fsum(s.drop_last(), f) + f(s.last()) }
}
pub proof fn lemma_fsum_tail<A>(s: Seq<A>, f: spec_fn(A) -> real)
	requires s.len() >= 1
	ensures fsum(s.drop_first(), f) == fsum(s, f) - f(s[0])
	decreases s.len()
{
	if s.len() == 1 {
		reveal_with_fuel(fsum, 2);
		assert(s.drop_first().len() == 0);
		assert(s.drop_last().len() == 0);
		assert(fsum(s.drop_last(), f) == 0real);
		assert(s.last() == s[0]);
	} else {
		let t = s.drop_last();
		lemma_fsum_tail(t, f);
		assert(s.drop_first().drop_last() =~= t.drop_first());
		assert(s.drop_first().last() == s.last());
		assert(t[0] == s[0]);
	}
}
pub proof fn lemma_fsum_slide<A>(s: Seq<A>, x: A, f: spec_fn(A) -> real)
	requires s.len() >= 1
	ensures fsum(s.drop_first().push(x), f) == fsum(s, f) - f(s[0]) + f(x)
{
	lemma_fsum_tail(s, f);
	assert(s.drop_first().push(x).drop_last() =~= s.drop_first());
	assert(s.drop_first().push(x).last() == x);
}
pub proof fn lemma_fsum_konst<A>(n: nat, v: A, f: spec_fn(A) -> real)
	ensures fsum(Seq::new(n, |i: int| v), f) == (n as real) * f(v)
	decreases n
{
	let s = Seq::new(n, |i: int| v);
	if n == 0 {
		assert(s.len() == 0);
		assert(0real * f(v) == 0real) by(nonlinear_arith);
	} else {
		let m = (n - 1) as nat;
		lemma_fsum_konst(m, v, f);
		assert(s.drop_last() =~= Seq::new(m, |i: int| v));
		assert(s.last() == v);
		let (mr, nr, x) = (m as real, n as real, f(v));
		assert(mr == nr - 1real);
		assert(mr * x + x == nr * x) by(nonlinear_arith) requires mr == nr - 1real;
	}
}
pub proof fn lemma_fsum_nonneg<A>(s: Seq<A>, f: spec_fn(A) -> real)
	requires forall|i: int| 0 <= i < s.len() ==> f(#[trigger] s[i]) >= 0real
	ensures fsum(s, f) >= 0real
	decreases s.len()
{
	if s.len() > 0 {
		lemma_fsum_nonneg(s.drop_last(), f);
	}
}
pub proof fn lemma_sum_all_eq(s: Seq<R>, x: real)
	requires forall|i: int| 0 <= i < s.len() ==> (#[trigger] s[i])@ == x
	ensures sum(s) == (s.len() as real) * x
	decreases s.len()
{
	if s.len() == 0 {
		assert(0real * x == 0real) by(nonlinear_arith);
	} else {
		lemma_sum_all_eq(s.drop_last(), x);
		let (mr, nr) = (s.drop_last().len() as real, s.len() as real);
		assert(mr == nr - 1real);
		assert(mr * x + x == nr * x) by(nonlinear_arith) requires mr == nr - 1real;
	}
}

// ---- named spec_fn constants used with fsum (closure literals are not comparable; these are)
pub open spec fn id_fn() -> spec_fn(R) -> real { |x: R| x@ }
pub open spec fn sq_fn() -> spec_fn(R) -> real { |x: R| x@ * x@ }
pub open spec fn pos_fn() -> spec_fn(R) -> real { |x: R| rmax(x@, 0real) }
pub open spec fn neg_fn() -> spec_fn(R) -> real { |x: R| rmax(-x@, 0real) }
