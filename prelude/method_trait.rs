// ---- the Method trait with its contract (signatures extracted from src/core/method.rs) ----
#[derive(Debug)]
//@extract src/core/errors.rs enum:Error
//@end

pub trait Method: Sized {
	type Params;
	type Input: ?Sized;
	type Output;

	// representation invariant: holds after new, preserved by next
	spec fn inv(&self) -> bool;
	// parameters the constructor documents as invalid
	spec fn rejects(parameters: Self::Params) -> bool;
	// parameters/initial value for which new is required not to panic
	spec fn new_req(parameters: Self::Params, initial_value: &Self::Input) -> bool;
	// state right after new(parameters, initial_value)
	spec fn fresh(parameters: Self::Params, initial_value: &Self::Input, s: &Self) -> bool;
	// inputs next must accept
	spec fn input_ok(&self, x: &Self::Input) -> bool;
	// one step: the definitional relation between state before, input, state after and output
	spec fn step(pre: &Self, x: &Self::Input, post: &Self, out: &Self::Output) -> bool;

//@extract src/core/method.rs trait[Method]::new
//@sig fn new(parameters: Self::Params, initial_value: &Self::Input) -> (r: Result<Self, Error>)
	requires Self::new_req(parameters, initial_value)
	ensures
		Self::rejects(parameters) ==> r is Err,
		r is Ok ==> r->Ok_0.inv() && Self::fresh(parameters, initial_value, &r->Ok_0),
//@end

//@extract src/core/method.rs trait[Method]::next
	requires old(self).inv(), old(self).input_ok(value)
	ensures final(self).inv(), Self::step(old(self), value, final(self), &r),
//@end
}
