// ---- models of the std iterators the extracted code uses (R8); each `next` is verified exec code ----
// std::slice::Iter<'a, T>: yields &s[0], &s[1], ...
pub struct SliceIt<'a, T> { pub s: &'a [T], pub i: usize }
impl<'a, T> SliceIt<'a, T> {
	pub open spec fn inv(&self) -> bool { self.i <= self.s@.len() }
	pub open spec fn remaining(&self) -> Seq<T> { self.s@.subrange(self.i as int, self.s@.len() as int) }
	pub fn new(s: &'a [T]) -> (r: Self) ensures r.inv(), r.s == s, r.i == 0, r.remaining() =~= s@ { SliceIt { s, i: 0 } }
	pub fn next(&mut self) -> (r: Option<&'a T>)
		requires old(self).inv()
		ensures final(self).inv(), final(self).s == old(self).s,
			old(self).i >= old(self).s@.len() ==> r is None && final(self).i == old(self).i,
			old(self).i < old(self).s@.len() ==> r == Some(&old(self).s@[old(self).i as int]) && final(self).i == old(self).i + 1,
	{
		if self.i >= self.s.len() { return None; }
		let r = &self.s[self.i];
		self.i = self.i + 1;
		Some(r)
	}
}
// std::iter::Rev<std::slice::Iter<'a, T>>: yields &s[n-1], &s[n-2], ...
pub struct SliceRevIt<'a, T> { pub s: &'a [T], pub i: usize }
impl<'a, T> SliceRevIt<'a, T> {
	pub open spec fn inv(&self) -> bool { self.i <= self.s@.len() }
	pub fn new(s: &'a [T]) -> (r: Self) ensures r.inv(), r.s == s, r.i == s@.len() { SliceRevIt { s, i: s.len() } }
	pub fn next(&mut self) -> (r: Option<&'a T>)
		requires old(self).inv()
		ensures final(self).inv(), final(self).s == old(self).s,
			old(self).i == 0 ==> r is None && final(self).i == 0,
			old(self).i > 0 ==> r == Some(&old(self).s@[old(self).i as int - 1]) && final(self).i == old(self).i - 1,
	{
		if self.i == 0 { return None; }
		self.i = self.i - 1;
		Some(&self.s[self.i])
	}
}
// core::ops::RangeFrom<PeriodType> as an iterator: start, start+1, ... (stepping past MAX panics in debug builds)
pub struct RangeFromIt { pub cur: PeriodType }
impl RangeFromIt {
	pub fn new(start: PeriodType) -> (r: Self) ensures r.cur == start { RangeFromIt { cur: start } }
	pub fn next(&mut self) -> (r: Option<PeriodType>)
		requires old(self).cur < PeriodType::MAX
		ensures r == Some(old(self).cur), final(self).cur == old(self).cur + 1
	{
		let c = self.cur;
		self.cur = self.cur + 1;
		Some(c)
	}
}
