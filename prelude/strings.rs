// ---- strings (R9): compared by their Seq<char> view; parsing is abstract ----
#[verifier::external_body]
pub fn str_eq(a: &str, b: &str) -> (r: bool) ensures r == (a@ == b@) { a == b }

pub trait Parsable: Sized {
	// what `str::parse::<Self>` returns for this text (None = parse error); uninterpreted
	spec fn parse_spec(s: Seq<char>) -> Option<Self>;
}
#[verifier::external_body]
pub fn parse_as<T: Parsable>(s: &String) -> (r: Result<T, ()>)
	ensures (r is Ok) == (T::parse_spec(s@) is Some), r is Ok ==> r->Ok_0 == T::parse_spec(s@)->Some_0
{ unimplemented!() }

pub trait ToStringO { fn to_string_o(&self) -> String; }
impl ToStringO for str { #[verifier::external_body] fn to_string_o(&self) -> String { unimplemented!() } }
impl ToStringO for String { #[verifier::external_body] fn to_string_o(&self) -> String { unimplemented!() } }
impl<'a> ToStringO for &'a str { #[verifier::external_body] fn to_string_o(&self) -> String { unimplemented!() } }

pub uninterp spec fn parse_u8(s: Seq<char>) -> Option<u8>;
pub uninterp spec fn parse_u16(s: Seq<char>) -> Option<u16>;
pub uninterp spec fn parse_u32(s: Seq<char>) -> Option<u32>;
pub uninterp spec fn parse_u64(s: Seq<char>) -> Option<u64>;
pub uninterp spec fn parse_bool(s: Seq<char>) -> Option<bool>;
pub uninterp spec fn parse_r(s: Seq<char>) -> Option<R>;
impl Parsable for u8 { open spec fn parse_spec(s: Seq<char>) -> Option<u8> { parse_u8(s) } }
impl Parsable for u16 { open spec fn parse_spec(s: Seq<char>) -> Option<u16> { parse_u16(s) } }
impl Parsable for u32 { open spec fn parse_spec(s: Seq<char>) -> Option<u32> { parse_u32(s) } }
impl Parsable for u64 { open spec fn parse_spec(s: Seq<char>) -> Option<u64> { parse_u64(s) } }
impl Parsable for bool { open spec fn parse_spec(s: Seq<char>) -> Option<bool> { parse_bool(s) } }
impl Parsable for R { open spec fn parse_spec(s: Seq<char>) -> Option<R> { parse_r(s) } }
