// ---- what indicator code relies on: moving-average constructors and the result container ----
pub trait MovingAverage: Method<Input = ValueType, Output = ValueType> {
	// every shipped moving average accepts every finite input
	proof fn input_always_ok(&self, x: &ValueType) ensures self.input_ok(x);
	// kinds whose weights are non-negative (SMA, WMA, TRIMA, EMA, DMA, TMA, RMA, WSMA, SMM, Vidya): they cannot overshoot.
	// A property of the instance (the dispatch enum MAInstance carries its kind at run time); one step never changes it.
	spec fn convex(&self) -> bool;
	// abstract: every value the instance currently holds lies in [lo, hi]
	spec fn within(&self, lo: real, hi: real) -> bool;
	proof fn lemma_within_step(pre: &Self, x: &ValueType, post: &Self, out: &ValueType, lo: real, hi: real)
		requires pre.convex(), pre.inv(), pre.within(lo, hi), lo <= x@ <= hi, Self::step(pre, x, post, out)
		ensures lo <= out@ <= hi, post.within(lo, hi), post.convex();
	proof fn lemma_within_weaken(&self, lo: real, hi: real, lo2: real, hi2: real)
		requires self.within(lo, hi), lo2 <= lo, hi <= hi2
		ensures self.within(lo2, hi2);
}
pub trait MovingAverageConstructor: Clone {
	type Instance: MovingAverage;
	spec fn period_s(&self) -> PeriodType;
	// the instance is the average of this kind and period, freshly seeded with the value v
	spec fn seeded(&self, v: real, inst: &Self::Instance) -> bool;
	// whether the configured kind is one that cannot overshoot
	spec fn convex_kind(&self) -> bool;
//@extract src/core/moving_average.rs trait[MovingAverageConstructor]::init
	ensures r is Ok ==> r->Ok_0.inv() && self.seeded(initial_value@, &r->Ok_0) && r->Ok_0.within(initial_value@, initial_value@)
		&& r->Ok_0.convex() == self.convex_kind(),
//@end
//@extract src/core/moving_average.rs trait[MovingAverageConstructor]::ma_period
	ensures r == self.period_s(),
//@end
	// `self.ma_type() == other.ma_type()`: same averaging kind (abstract here; the default body compares an associated `Type: Eq`)
	spec fn similar_s(&self, other: &Self) -> bool;
	fn is_similar_to(&self, other: &Self) -> (r: bool)
		ensures r == self.similar_s(other);
}

// the default constructor type of the generic indicators
//@extract src/helpers/methods.rs enum:MA keepderive
//@end

// core/indicator/result.rs: the container is used through `new` only; its contract is assumed here (checked by a Kani harness, C11)
pub struct IndicatorResult { pub signals: [Action; 4], pub values: [ValueType; 4], pub length: (u8, u8) }
pub open spec fn min4(n: nat) -> nat { if n < 4 { n } else { 4 } }
impl IndicatorResult {
	pub open spec fn vals(&self) -> Seq<ValueType> { self.values@.subrange(0, self.length.0 as int) }
	pub open spec fn sigs(&self) -> Seq<Action> { self.signals@.subrange(0, self.length.1 as int) }
	#[verifier::external_body]
	pub fn new(values_slice: &[ValueType], signals_slice: &[Action]) -> (r: Self)
		ensures
			r.length.0 as nat == min4(values_slice@.len()), r.length.1 as nat == min4(signals_slice@.len()),
			r.vals() =~= values_slice@.subrange(0, min4(values_slice@.len()) as int),
			r.sigs() =~= signals_slice@.subrange(0, min4(signals_slice@.len()) as int),
	{ unimplemented!() }
}
// derived Default of Cross / CrossAbove / CrossUnder: zero previous difference
impl Cross {
	#[verifier::external_body]
	pub fn default() -> (r: Self) ensures r.up.last_delta@ == 0real, r.down.last_delta@ == 0real { unimplemented!() }
}
impl CrossAbove {
	#[verifier::external_body]
	pub fn default() -> (r: Self) ensures r.last_delta@ == 0real { unimplemented!() }
}
impl CrossUnder {
	#[verifier::external_body]
	pub fn default() -> (r: Self) ensures r.last_delta@ == 0real { unimplemented!() }
}
pub open spec fn clamp255(x: int) -> int { if x > 255 { 255 } else if x < -255 { -255 } else { x } }
// `a - b` on actions: the operator forwards to the verified Action::sub
impl SubSpecImpl<Action> for Action {
	open spec fn obeys_sub_spec() -> bool { false }
	open spec fn sub_req(self, rhs: Action) -> bool { true }
	open spec fn sub_spec(self, rhs: Action) -> Action { arbitrary() }
}
impl core::ops::Sub for Action { type Output = Action;
	fn sub(self, rhs: Action) -> (r: Action) ensures sv(r) == clamp255(sv(self) - sv(rhs)) { Action::sub(self, rhs) } }
// `&T` (T: OHLCV) passed where `&dyn OHLCV` is expected: the unsizing coercion keeps every observation (R10)
pub uninterp spec fn as_dyn_spec<T: OHLCV>(c: &T) -> &DynOHLCV;
#[verifier::external_body]
pub fn as_dyn<T: OHLCV>(c: &T) -> (r: &DynOHLCV)
	ensures r == as_dyn_spec(c), r.open_s() == c.open_s(), r.high_s() == c.high_s(), r.low_s() == c.low_s(), r.close_s() == c.close_s(), r.volume_s() == c.volume_s()
{ unimplemented!() }
