// ---- trusted std specifications (every item here is listed in the evidence trusted_base) ----
pub assume_specification<T> [std::mem::replace] (dest: &mut T, src: T) -> (r: T)
    ensures *final(dest) == src, r == *old(dest);

// R6: the feature flag is an unconstrained boolean, so both code paths are verified against the same contract
#[verifier::external_body]
pub fn unsafe_performance() -> (r: bool) { cfg!(feature = "unsafe_performance") }

// R7: panic sites become proof obligations
pub fn vassert(c: bool) requires c { }
#[verifier::external_body]
pub fn vpanic() -> ! requires false { panic!() }

pub assume_specification<T, A: core::alloc::Allocator> [<Box<[T], A> as From<Vec<T, A>>>::from] (v: Vec<T, A>) -> (r: Box<[T], A>)
    ensures r@ == v@;
pub assume_specification<T, A: core::alloc::Allocator> [Vec::<T, A>::into_boxed_slice] (v: Vec<T, A>) -> (r: Box<[T], A>)
    ensures r@ == v@;

// R6: unchecked slice access keeps its in-bounds precondition as a proof obligation
#[verifier::external_body]
pub fn slice_get_unchecked<T>(s: &[T], i: usize) -> (r: &T)
    requires i < s@.len()
    ensures *r == s@[i as int]
{ unsafe { s.get_unchecked(i) } }
#[verifier::external_body]
pub fn slice_get_unchecked_mut<T>(s: &mut [T], i: usize) -> (r: &mut T)
    requires i < old(s)@.len()
    ensures *r == old(s)@[i as int], final(s)@ == old(s)@.update(i as int, *final(r))
{ unsafe { s.get_unchecked_mut(i) } }

// Option / Result combinators the code (or a plausible edit of it) uses
pub assume_specification<T, E> [Result::<T, E>::unwrap_or] (r: Result<T, E>, default: T) -> (out: T)
    ensures out == (match r { Ok(v) => v, Err(_) => default });


// <[T]>::copy_within / ptr::copy inside one slice (memmove): the source block lands at `dest`, everything else is unchanged.
// The in-bounds precondition is an obligation (C19 for the ptr::copy branch).
#[verifier::external_body]
pub fn slice_copy_within<T: Copy>(s: &mut [T], src_start: usize, src_end: usize, dest: usize)
    requires src_start <= src_end, src_end <= old(s)@.len(), dest + (src_end - src_start) <= old(s)@.len()
    ensures final(s)@.len() == old(s)@.len(),
        forall|i: int| 0 <= i < old(s)@.len() ==> #[trigger] final(s)@[i] ==
            (if dest as int <= i < dest as int + (src_end - src_start) { old(s)@[src_start as int + (i - dest as int)] } else { old(s)@[i] })
{ s.copy_within(src_start..src_end, dest) }

// isize::abs / isize::signum (WoodiesCCI's bar counter)
pub assume_specification[ isize::abs ](x: isize) -> (r: isize)
	requires x != isize::MIN
	ensures r as int == (if x < 0 { -(x as int) } else { x as int });
pub assume_specification[ isize::signum ](x: isize) -> (r: isize)
	ensures r as int == (if x > 0 { 1int } else if x < 0 { -1int } else { 0int });

// <[T]>::rotate_left / rotate_right (ASSUMED std contracts): the first `mid` elements move to the end / the last `k` to the front
pub assume_specification<T> [<[T]>::rotate_left] (s: &mut [T], mid: usize)
	requires mid <= old(s)@.len()
	ensures final(s)@ =~= old(s)@.subrange(mid as int, old(s)@.len() as int) + old(s)@.subrange(0, mid as int);
pub assume_specification<T> [<[T]>::rotate_right] (s: &mut [T], k: usize)
	requires k <= old(s)@.len()
	ensures final(s)@ =~= old(s)@.subrange(old(s)@.len() - k as int, old(s)@.len() as int) + old(s)@.subrange(0, old(s)@.len() - k as int);
