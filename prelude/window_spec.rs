// abstract view of the ring buffer: the sequence of the last N pushed values, oldest first
pub open spec fn slot_of(index: int, i: int, n: int) -> int { (index + i) % n }

// x in [0, 2n) reduced into [0, n) without `%` (keeps iterator invariants linear)
pub open spec fn wrap(x: int, n: int) -> int { if x >= n { x - n } else { x } }

pub proof fn lemma_mod_index(index: int, i: int, n: int)
	requires 0 <= index < n, 0 <= i < n
	ensures 0 <= slot_of(index, i, n) < n,
		slot_of(index, i, n) == (if index + i < n { index + i } else { index + i - n }),
{
	assert(slot_of(index, i, n) == (if index + i < n { index + i } else { index + i - n })) by(nonlinear_arith)
		requires 0 <= index < n, 0 <= i < n, slot_of(index, i, n) == (index + i) % n;
}

impl<T> Window<T> {
	pub open spec fn wf(&self) -> bool {
		&&& self.buf@.len() == self.size as int
		&&& self.size < PeriodType::MAX
		&&& (self.size == 0 ==> self.index == 0 && self.s_1 == 0)
		&&& (self.size > 0 ==> self.index < self.size && self.s_1 == self.size - 1)
	}
	pub open spec fn cap(&self) -> int { self.size as int }
	pub open spec fn view(&self) -> Seq<T> {
		Seq::new(self.size as nat, |i: int| self.buf@[slot_of(self.index as int, i, self.size as int)])
	}
}
