// ---- selection specs (order model: only comparisons and bit-equality are used on values) ----
pub open spec fn is_max(s: Seq<R>, m: R) -> bool {
	(exists|i: int| 0 <= i < s.len() && s[i] == m) && (forall|i: int| 0 <= i < s.len() ==> (#[trigger] s[i])@ <= m@)
}
pub open spec fn is_min(s: Seq<R>, m: R) -> bool {
	(exists|i: int| 0 <= i < s.len() && s[i] == m) && (forall|i: int| 0 <= i < s.len() ==> (#[trigger] s[i])@ >= m@)
}
// the iterator over a window (newest first) has consumed the `n - m` newest elements; the rest is view[0..m] reversed
pub open spec fn iter_at(it: WindowIterator<R>, w: &Window<R>, vw: Seq<R>) -> bool {
	&&& it.inv() && it.window == w && vw == w.view()
	&&& it.remaining().len() <= vw.len()
	&&& it.remaining() =~= vw.subrange(0, it.remaining().len() as int).reverse()
}
pub proof fn lemma_iter_start(it: WindowIterator<R>, w: &Window<R>)
	requires it.inv(), it.window == w, it.remaining() =~= w.view().reverse()
	ensures iter_at(it, w, w.view())
{
	assert(w.view().subrange(0, w.view().len() as int) =~= w.view());
}
pub proof fn lemma_iter_next(pre: WindowIterator<R>, post: WindowIterator<R>, w: &Window<R>, vw: Seq<R>)
	requires iter_at(pre, w, vw), post.inv(), post.window == w, pre.remaining().len() > 0, post.remaining() =~= pre.remaining().drop_first()
	ensures iter_at(post, w, vw), pre.remaining()[0] == vw[pre.remaining().len() - 1], post.remaining().len() == pre.remaining().len() - 1
{
	let m = pre.remaining().len() as int;
	assert(vw.subrange(0, m).reverse()[0] == vw[m - 1]);
	assert(vw.subrange(0, m).reverse().drop_first() =~= vw.subrange(0, m - 1).reverse());
}
