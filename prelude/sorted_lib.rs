// ---- sorted sequences and numeric permutations (for SMM); verified on every run ----
pub open spec fn sorted(s: Seq<R>) -> bool { forall|i: int, j: int| 0 <= i < j < s.len() ==> s[i]@ <= s[j]@ }
pub open spec fn cnt(s: Seq<R>, x: real) -> nat decreases s.len() {
	if s.len() == 0 { 0 } else { cnt(s.drop_last(), x) + (if s.last()@ == x { 1nat } else { 0nat }) }
}
// same multiset of numeric values (the sign of zero is not tracked: "exact up to the sign of zero")
pub open spec fn perm(a: Seq<R>, b: Seq<R>) -> bool { a.len() == b.len() && forall|x: real| cnt(a, x) == cnt(b, x) }
pub open spec fn one(b: bool) -> nat { if b { 1nat } else { 0nat } }

pub proof fn lemma_cnt_push(s: Seq<R>, v: R, x: real)
	ensures cnt(s.push(v), x) == cnt(s, x) + one(v@ == x)
{
	assert(s.push(v).drop_last() =~= s);
	assert(s.push(v).last() == v);
}
pub proof fn lemma_cnt_concat(a: Seq<R>, b: Seq<R>, x: real)
	ensures cnt(a + b, x) == cnt(a, x) + cnt(b, x)
	decreases b.len()
{
	if b.len() == 0 {
		assert(a + b =~= a);
	} else {
		lemma_cnt_concat(a, b.drop_last(), x);
		assert((a + b).drop_last() =~= a + b.drop_last());
		assert((a + b).last() == b.last());
	}
}
pub proof fn lemma_cnt_single(v: R, x: real)
	ensures cnt(seq![v], x) == one(v@ == x)
{
	reveal_with_fuel(cnt, 2);
	assert(seq![v].drop_last().len() == 0);
	assert(seq![v].last() == v);
}
pub proof fn lemma_cnt_remove(s: Seq<R>, i: int, x: real)
	requires 0 <= i < s.len()
	ensures cnt(s.remove(i), x) + one(s[i]@ == x) == cnt(s, x)
{
	let a = s.subrange(0, i);
	let b = s.subrange(i + 1, s.len() as int);
	assert(s =~= a + seq![s[i]] + b);
	assert(s.remove(i) =~= a + b);
	lemma_cnt_concat(a, seq![s[i]], x);
	lemma_cnt_concat(a + seq![s[i]], b, x);
	lemma_cnt_concat(a, b, x);
	lemma_cnt_single(s[i], x);
}
pub proof fn lemma_cnt_insert(s: Seq<R>, i: int, v: R, x: real)
	requires 0 <= i <= s.len()
	ensures cnt(s.insert(i, v), x) == cnt(s, x) + one(v@ == x)
{
	let a = s.subrange(0, i);
	let b = s.subrange(i, s.len() as int);
	assert(s =~= a + b);
	assert(s.insert(i, v) =~= a + seq![v] + b);
	lemma_cnt_concat(a, seq![v], x);
	lemma_cnt_concat(a + seq![v], b, x);
	lemma_cnt_concat(a, b, x);
	lemma_cnt_single(v, x);
}
pub proof fn lemma_cnt_member(s: Seq<R>, i: int)
	requires 0 <= i < s.len()
	ensures cnt(s, s[i]@) >= 1
{
	lemma_cnt_remove(s, i, s[i]@);
}
pub proof fn lemma_cnt_exists(s: Seq<R>, x: real)
	requires cnt(s, x) >= 1
	ensures exists|i: int| 0 <= i < s.len() && (#[trigger] s[i])@ == x
	decreases s.len()
{
	if s.len() > 0 {
		if s.last()@ == x {
			assert(s[s.len() - 1]@ == x);
		} else {
			lemma_cnt_exists(s.drop_last(), x);
			let i = choose|i: int| 0 <= i < s.drop_last().len() && (#[trigger] s.drop_last()[i])@ == x;
			assert(s[i]@ == x);
		}
	}
}
pub proof fn lemma_cnt_konst(n: nat, v: R, w: R, x: real)
	requires v@ == w@
	ensures cnt(konst(n, v), x) == cnt(konst(n, w), x)
	decreases n
{
	if n > 0 {
		lemma_cnt_konst((n - 1) as nat, v, w, x);
		assert(konst(n, v).drop_last() =~= konst((n - 1) as nat, v));
		assert(konst(n, w).drop_last() =~= konst((n - 1) as nat, w));
	}
}
// the window slide as a multiset update
pub broadcast proof fn lemma_cnt_slide(s: Seq<R>, v: R, x: real)
	requires s.len() >= 1
	ensures #[trigger] cnt(s.drop_first().push(v), x) + one(s[0]@ == x) == cnt(s, x) + one(v@ == x)
{
	lemma_cnt_push(s.drop_first(), v, x);
	assert(s.drop_first() =~= s.remove(0));
	lemma_cnt_remove(s, 0, x);
}
