// ---- Σ|x_i - m| over a window, independent of the ring phase (MeanAbsDev, MedianAbsDev); verified on every run ----
// Σ |s[i] - m| over a sequence
pub open spec fn abs_dev_sum(s: Seq<R>, m: real) -> real decreases s.len() {
	if s.len() == 0 { 0real } else { abs_dev_sum(s.drop_last(), m) + rabs(s.last()@ - m) }
}
// the sum does not depend on where the ring buffer starts: it is the same over buf and over view
pub proof fn lemma_abs_dev_rot(w: Window<R>, m: real)
	requires w.wf()
	ensures abs_dev_sum(w.buf@, m) == abs_dev_sum(w.view(), m)
{
	lemma_abs_dev_rotation(w.buf@, w.index as int, m);
	let n = w.size as int;
	if n > 0 {
		assert forall|i: int| 0 <= i < n implies #[trigger] w.view()[i] == (w.buf@.subrange(w.index as int, n) + w.buf@.subrange(0, w.index as int))[i] by {
			lemma_mod_index(w.index as int, i, n);
		}
		assert(w.view() =~= w.buf@.subrange(w.index as int, n) + w.buf@.subrange(0, w.index as int));
	} else {
		assert(w.view() =~= w.buf@);
	}
}
pub proof fn lemma_abs_dev_concat(a: Seq<R>, b: Seq<R>, m: real)
	ensures abs_dev_sum(a + b, m) == abs_dev_sum(a, m) + abs_dev_sum(b, m)
	decreases b.len()
{
	if b.len() == 0 {
		assert(a + b =~= a);
	} else {
		lemma_abs_dev_concat(a, b.drop_last(), m);
		assert((a + b).drop_last() =~= a + b.drop_last());
		assert((a + b).last() == b.last());
	}
}
pub proof fn lemma_abs_dev_rotation(s: Seq<R>, k: int, m: real)
	requires 0 <= k <= s.len()
	ensures abs_dev_sum(s.subrange(k, s.len() as int) + s.subrange(0, k), m) == abs_dev_sum(s, m)
{
	lemma_abs_dev_concat(s.subrange(k, s.len() as int), s.subrange(0, k), m);
	lemma_abs_dev_concat(s.subrange(0, k), s.subrange(k, s.len() as int), m);
	assert(s.subrange(0, k) + s.subrange(k, s.len() as int) =~= s);
}
pub proof fn lemma_abs_dev_nonneg(s: Seq<R>, m: real)
	ensures abs_dev_sum(s, m) >= 0real
	decreases s.len()
{
	if s.len() > 0 { lemma_abs_dev_nonneg(s.drop_last(), m); }
}
