//@ifdef PT_U16
pub type PeriodType = u16;
//@endif
//@ifdef PT_U32
pub type PeriodType = u32;
//@endif
//@ifdef PT_U64
pub type PeriodType = u64;
//@endif
//@ifndef PT_U16
//@ifndef PT_U32
//@ifndef PT_U64
pub type PeriodType = u8;
//@endif
//@endif
//@endif
