#![feature(allocator_api)]
#![allow(unused_imports, unused_variables, dead_code, unused_mut, unused_parens, unused_braces, non_snake_case, unused_assignments)]
use vstd::prelude::*;
use vstd::std_specs::ops::*;
use vstd::std_specs::cmp::*;
use std::mem;
use std::mem::replace;
use std::fmt;
use std::ops::Add;
verus! {
global layout usize is size == 8;
//@include period.rs
//@include std_specs.rs
//@include r_model.rs
//@include seq_lib.rs
//@include iter_models.rs
//@import window.rs.tpl
//@include method_trait.rs
