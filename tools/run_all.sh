#!/bin/bash
# run every registered check (quick tier unless $1 is given) on /repo's working tree; evidence/<id>.json is rewritten by each
cd "$(dirname "$0")/.."
tier=${1:-quick}
for i in $(seq -w 1 20); do
  ./check C$i --tier $tier 2>&1 | grep -E "^\[C|^VIOLATION|^KNOWN|^UNDECIDED" | cut -c1-240
  echo "exit=${PIPESTATUS[0]}"
done
