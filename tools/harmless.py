#!/usr/bin/env python3
"""Behaviour-preserving edits of /repo (harmless/<id>/patch.diff): the checks must never answer VIOLATION on them.
  harmless.py run [<id> ...]   suite must stay green with the patch (scratch worktree); then apply to /repo, run the listed checks, undo.
Outcome per check is recorded in harmless/<id>/meta.json: exit 0 = accepted, exit 2 = undecided (proof script lost), exit 1 = FALSE ALARM."""
import json, os, subprocess, sys, tempfile, shutil, time
V = os.path.dirname(os.path.dirname(os.path.abspath(__file__)))
REPO = "/repo"
PROPS = {"H1-sma-rename-local": ["C02"], "H2-ema-expand-fma": ["C03"], "H3-macd-extra-temp": ["C05"], "H4-cross-early-locals": ["C14"],
         "H5-window-push-reorder": ["C01"], "H6-cmo-guard-rewrite": ["C12"], "H7-adx-swap-independent": ["C05"], "H8-smm-bits-shortcut": ["C04"], "H9-window-from-parts-normalized": ["C01", "C13"],
         "H10-psar-flip-comparison": ["C08"], "H11-hma-init-field-order": ["C08"], "H12-cks-commute-half": ["C08"]}


def sh(cmd, cwd=None, timeout=7200):
    p = subprocess.run(cmd, shell=True, cwd=cwd, capture_output=True, text=True, timeout=timeout)
    return p.returncode, p.stdout + p.stderr


def run(i):
    d = os.path.join(V, "harmless", i)
    patch = os.path.join(d, "patch.diff")
    wt = tempfile.mkdtemp(prefix="hw.", dir="/tmp"); os.rmdir(wt)
    try:
        sh(f"git -C {REPO} worktree add -q --detach {wt} HEAD")
        rc, out = sh(f"git apply {patch}", cwd=wt)
        assert rc == 0, out
        rc, out = sh("cargo test --offline --lib 2>&1 | grep 'test result'", cwd=wt)
        suite_ok = "132 passed" in out
    finally:
        sh(f"git -C {REPO} worktree remove --force {wt}"); shutil.rmtree(wt, ignore_errors=True)
    meta = {"id": i, "note": open(os.path.join(d, "README.txt")).read().strip(), "suite_132_green_with_patch": suite_ok, "checks": {}}
    rc, out = sh(f"git -C {REPO} status --porcelain"); assert out.strip() == "", out
    rc, out = sh(f"git -C {REPO} apply {patch}"); assert rc == 0, out
    try:
        for p in PROPS[i]:
            t0 = time.time()
            rc, out = sh(f"./check {p} --tier quick", cwd=V)
            und = [l[:250] for l in out.split("\n") if l.startswith("UNDECIDED")][:3]
            viol = [l[:250] for l in out.split("\n") if l.startswith("VIOLATION")]
            meta["checks"][p] = {"exit": rc, "undecided": und, "violation_lines": viol, "wall_s": round(time.time() - t0, 1)}
            print(i, p, "exit", rc, {0: "accepted", 2: "undecided", 1: "FALSE ALARM"}.get(rc, "?"), (und or viol)[:1])
    finally:
        sh(f"git -C {REPO} checkout -- ."); sh(f"git -C {V} checkout -- evidence/")
    json.dump(meta, open(os.path.join(d, "meta.json"), "w"), indent=1)


if __name__ == "__main__":
    ids = sys.argv[2:] or sorted(PROPS)
    for i in ids:
        run(i)
