#!/usr/bin/env python3
"""Seeded-change bookkeeping.
  seeded.py import <worktree> <PROP>          copy MUTANTS/* of a sub-agent's worktree to /verif/seeded/<PROP>-<X>/
  seeded.py confirm <id>...                   confirm in a scratch worktree: suite green with the patch, demo fails with / passes without
  seeded.py run <id> [PROP ...]               apply the patch to /repo, run ./check PROP for each, undo; record the outcome in meta.json
"""
import json, os, re, shutil, subprocess, sys, tempfile, time
V = os.path.dirname(os.path.dirname(os.path.abspath(__file__)))
REPO = "/repo"


def sh(cmd, cwd=None, timeout=3600):
    p = subprocess.run(cmd, shell=True, cwd=cwd, capture_output=True, text=True, timeout=timeout)
    return p.returncode, p.stdout + p.stderr


def load(i):
    return json.load(open(os.path.join(V, "seeded", i, "meta.json")))


def save(i, m):
    json.dump(m, open(os.path.join(V, "seeded", i, "meta.json"), "w"), indent=1)


def do_import(wt, prop):
    src = os.path.join(wt, "MUTANTS")
    for x in sorted(os.listdir(src)):
        d = os.path.join(V, "seeded", f"{prop}-{x}")
        os.makedirs(d, exist_ok=True)
        for f in ("patch.diff", "demo.rs", "README.txt"):
            if os.path.exists(os.path.join(src, x, f)):
                shutil.copy(os.path.join(src, x, f), os.path.join(d, f))
        readme = open(os.path.join(d, "README.txt")).read() if os.path.exists(os.path.join(d, "README.txt")) else ""
        m = {"id": f"{prop}-{x}", "breaks": [prop], "origin": "sub-agent given only the property text and a scratch worktree",
             "needs_to_manifest": "", "author_notes": readme[:1500], "confirmed": None, "checks": {}}
        if not os.path.exists(os.path.join(d, "meta.json")):
            save(f"{prop}-{x}", m)
        print("imported", f"{prop}-{x}")


def confirm(i):
    d = os.path.join(V, "seeded", i)
    m = load(i)
    wt = tempfile.mkdtemp(prefix="sc.", dir="/tmp")
    os.rmdir(wt)
    try:
        rc, out = sh(f"git -C {REPO} worktree add -q --detach {wt} HEAD")
        assert rc == 0, out
        os.makedirs(os.path.join(wt, "tests"), exist_ok=True)
        shutil.copy(os.path.join(d, "demo.rs"), os.path.join(wt, "tests", "seeded_demo.rs"))
        feat = (" --features " + m["features"]) if m.get("features") else ""
        rc0, o0 = sh(f"cargo test --offline{feat} --test seeded_demo 2>&1 | tail -15", cwd=wt)
        clean_ok = "test result: ok" in o0
        rca, oa = sh(f"git apply --exclude='tests/*' {os.path.join(d, 'patch.diff')}", cwd=wt)
        if rca != 0:
            m["confirmed"] = {"ok": False, "why": "patch does not apply to /repo HEAD: " + oa[-400:]}
            save(i, m)
            print(i, "PATCH DOES NOT APPLY")
            return
        rc1, o1 = sh(f"cargo test --offline{feat} --test seeded_demo 2>&1 | tail -25", cwd=wt)
        demo_fails = "test result: FAILED" in o1 or "panicked" in o1
        os.remove(os.path.join(wt, "tests", "seeded_demo.rs"))
        rc2, o2 = sh("cargo test --offline --lib 2>&1 | grep 'test result' ", cwd=wt)
        suite_ok = "test result: ok" in o2 and "132 passed" in o2
        m["confirmed"] = {"ok": bool(clean_ok and demo_fails and suite_ok), "demo_passes_on_clean_tree": clean_ok,
                          "demo_fails_with_patch": demo_fails, "suite_132_green_with_patch": suite_ok,
                          "ran": f"scratch worktree of /repo HEAD: cargo test --offline{feat} --test seeded_demo (clean, then patched); cargo test --offline --lib (patched, default features)",
                          "demo_output_with_patch": o1[-600:]}
        save(i, m)
        print(i, "confirmed" if m["confirmed"]["ok"] else f"NOT CONFIRMED clean_ok={clean_ok} demo_fails={demo_fails} suite_ok={suite_ok}")
    finally:
        sh(f"git -C {REPO} worktree remove --force {wt}")
        shutil.rmtree(wt, ignore_errors=True)


def run(i, props):
    d = os.path.join(V, "seeded", i)
    m = load(i)
    props = props or m["breaks"]
    rc, out = sh(f"git -C {REPO} status --porcelain")
    assert out.strip() == "", "repo not clean: " + out
    rc, out = sh(f"git -C {REPO} apply --exclude='tests/*' {os.path.join(d, 'patch.diff')}")
    if rc != 0:
        print(i, "patch does not apply", out)
        return
    try:
        for p in props:
            t0 = time.time()
            rc, out = sh(f"./check {p} --tier quick", cwd=V, timeout=3000)
            viol = [l for l in out.split("\n") if l.startswith("VIOLATION")]
            und = [l for l in out.split("\n") if l.startswith("UNDECIDED")]
            failed = [l.strip() for l in out.split("\n") if "failed obligation" in l]
            m["checks"][p] = {"exit": rc, "violation_lines": viol, "undecided": [u[:300] for u in und[:4]], "failed_obligations": failed[:6],
                              "wall_s": round(time.time() - t0, 1)}
            print(i, p, "exit", rc, "DETECTED" if rc == 1 and viol else ("UNDECIDED" if rc == 2 else "MISSED"), failed[:2] or und[:1])
        m["caught_by"] = [p for p, r in m["checks"].items() if r["exit"] == 1]
        save(i, m)
    finally:
        sh(f"git -C {REPO} checkout -- .")
        # the evidence files written by these runs describe a patched tree: restore the committed ones (written on the unchanged tree)
        sh(f"git -C {V} checkout -- evidence/")


if __name__ == "__main__":
    cmd = sys.argv[1]
    if cmd == "import":
        do_import(sys.argv[2], sys.argv[3])
    elif cmd == "confirm":
        for i in sys.argv[2:]:
            confirm(i)
    elif cmd == "run":
        run(sys.argv[2], sys.argv[3:])
