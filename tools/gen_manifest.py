#!/usr/bin/env python3
"""Regenerate /verif/MANIFEST.json from lib/registry.py (checks) and properties.jsonl (not_applicable for the rest)."""
import json, os, sys
V = os.path.dirname(os.path.dirname(os.path.abspath(__file__)))
sys.path.insert(0, os.path.join(V, "lib"))
import registry
props = [json.loads(l) for l in open(os.path.join(V, "properties.jsonl"))]
checks, na = [], []
for p in props:
    pid = p["id"]
    P = registry.PROPS.get(pid)
    if P is None or P.get("not_applicable"):
        na.append({"property_id": pid, "reason": (P or {}).get("not_applicable") or registry.NOT_BUILT.get(pid, "no contract within reach decides this property yet; see DESIGN.md")})
        continue
    checks.append({
        "property_id": pid,
        "quick_cmd": f"./check {pid} --tier quick",
        "thorough_cmd": f"./check {pid} --tier thorough",
        "evidence_file": f"/verif/evidence/{pid}.json",
        "replay_cmd_template": f"./check {pid} --replay {{path}}",
        "engine": "+".join((["verus"] if P.get("verus") else []) + (["kani"] if P.get("kani") else [])),
        "level_claimed": {"category": "proof", "text": P["claim"], "design_ref": P.get("design_ref", "DESIGN.md section 4, " + pid)},
        "level_note": "; ".join(P.get("assumptions", []) + registry.COMMON_ASSUMPTIONS),
        "technique": P.get("technique", "contract-based deductive verification (Verus on functions extracted from /repo each run" + ("; Kani/CBMC harnesses for bit-precise parts and counterexamples)" if P.get("kani") else ")")),
    })
m = {
    "version": 1,
    "setup_cmd": "cd /verif/vx && cargo build --release --offline && cd /verif && ./check --warm",
    "hooks": {"guard": "cfg(kani)", "enable": "no hook commits: Verus units are extracted from /repo's working tree by vx; Kani harness modules (#[cfg(kani)]) are appended to a scratch copy only",
              "baseline_off_cmd": "cd /repo && cargo test --workspace --no-fail-fast --offline", "source_commits": [], "add_only": True},
    "engines": [
        {"name": "verus", "path": "/verif/contracts + /verif/prelude + /verif/vx", "serves_properties": [c["property_id"] for c in checks if "verus" in c["engine"]],
         "kind_free_text": "deductive verifier (Verus 0.2026.09.13 + Z3) on functions extracted mechanically from /repo/src on every run"},
        {"name": "kani", "path": "/verif/kani", "serves_properties": [c["property_id"] for c in checks if "kani" in c["engine"]],
         "kind_free_text": "Kani 0.68 / CBMC 6.11 harnesses appended to a scratch copy of the crate: loop-free full-domain harnesses are complete proofs, the rest are labelled bounded; also the counterexample source for replay"},
    ],
    "checks": checks,
    "notes": "exit 0 held / exit 1 VIOLATION / exit 2 undecided (extraction error, lost anchor, solver limit): see DESIGN.md 2.5",
    "not_applicable": na,
}
json.dump(m, open(os.path.join(V, "MANIFEST.json"), "w"), indent=1)
print(f"{len(checks)} checks, {len(na)} not claimed")
