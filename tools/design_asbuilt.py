#!/usr/bin/env python3
"""Insert/refresh an 'As built' paragraph under every '### Cxx' heading of DESIGN.md section 4 from lib/registry.py."""
import os, re, sys
V = os.path.dirname(os.path.dirname(os.path.abspath(__file__)))
sys.path.insert(0, os.path.join(V, "lib"))
import registry
p = os.path.join(V, "DESIGN.md")
s = open(p).read()
s = re.sub(r"\n> \*\*As built\.\*\*.*?\n(?=\n)", "\n", s, flags=re.S)
for pid, P in registry.PROPS.items():
    m = re.search(r"^### " + pid + r" [^\n]*\n", s, re.M)
    if not m:
        continue
    units = ", ".join("`%s`" % u for u in P.get("verus", []))
    kani = ", ".join("`%s`" % g for g in P.get("kani", []))
    txt = ("> **As built.** " + P["claim"] + " Verus units: " + (units or "none") + ". Kani groups: " + (kani or "none") + ". "
           + "Assumed / not covered: " + "; ".join(P.get("assumptions", [])) + "\n")
    s = s[:m.end()] + txt + s[m.end():]
open(p, "w").write(s)
print("ok")
