#!/usr/bin/env python3
"""Regenerate DESIGN.md section 10 (which checks catch which seeded changes) from seeded/*/meta.json."""
import json, os, re
V = os.path.dirname(os.path.dirname(os.path.abspath(__file__)))
rows = []
for i in sorted(os.listdir(os.path.join(V, "seeded"))):
    mp = os.path.join(V, "seeded", i, "meta.json")
    if not os.path.exists(mp):
        continue
    m = json.load(open(mp))
    what = (m.get("needs_to_manifest") or m.get("author_notes", "")).strip().split("\n")
    what = next((l.strip() for l in what if len(l.strip()) > 25), "")[:170]
    res = []
    for p, r in sorted(m.get("checks", {}).items()):
        ob = ""
        if r.get("failed_obligations"):
            mm = re.search(r"failed obligation (\S+?):", r["failed_obligations"][0])
            ob = mm.group(1) if mm else ""
        state = {1: "caught", 2: "undecided", 0: "missed"}.get(r["exit"], str(r["exit"]))
        res.append(f"{p}: {state}" + (f" (`{ob}`)" if ob and state == "caught" else ""))
    conf = m.get("confirmed") or {}
    if m.get("harmless_since"):
        # a change that stopped breaking the property once a fix: commit landed: the right outcome is exit 0
        res = [x.replace("missed", "accepted (correct: no alarm on a harmless change)").replace("caught", "FALSE ALARM") for x in res]
        rows.append((i, "harmless since " + m["harmless_since"][:120], what.replace("|", "/"), "; ".join(res) or "not run"))
        continue
    rows.append((i, "yes" if conf.get("ok") else "NO", what.replace("|", "/"), "; ".join(res) or "not run"))
out = ["## 10. Seeded changes: which checks catch which", "",
       "Each change was written by a fresh sub-agent that was given only the property text and its own scratch worktree (nothing from /verif). "
       "I confirmed each one myself in a scratch worktree of /repo HEAD (`tools/seeded.py confirm`: the 132 tests stay green with the patch, the demonstration "
       "fails with it and passes without it) before keeping it under `seeded/<id>/` (patch.diff, demo.rs, meta.json). `tools/seeded.py run <id>` applies the patch to /repo, "
       "runs the listed checks (quick tier) and undoes it; the table is generated from the recorded outcomes. *caught* = exit 1 with a VIOLATION line naming the obligation; "
       "*undecided* = exit 2 (the unit no longer extracts/verifies and no witness harness produced a counterexample); *missed* = exit 0.", "",
       "Eight batches were written (A-D: first two batches, E-H: batches 3-5 aimed at the code that came under contract later, P-S: batch 6 aimed at the indicator-level constancy contracts and the extended C15 laws, C11/C18 P-R: batch 7 aimed at the default configurations and the text forms, C01/C16/C20 K-L: batch 8 aimed at the three properties with the fewest changes so far). What the misses and 'undecided' answers of each batch led to: "
       "batch 2 - Sequence::apply / new_fn / reversal warm-up put under contract or bounded harness; batch 3 - result hints made contract-level (`>>W`), R::signum / R::from, the `get` alias in the SMM unit, "
       "existential-free CMF postcondition, odd-length apply witness, Kaufman's filtered signal specified, SMM quad witness with its own timeout; batch 4 - rule R11 (serde error construction), prefix anchors, "
       "R::is_normal, the dyn harness extended to `over` with history, ma_dispatch added to C15, (2,2) reversal harnesses, a driver fix (functions carrying an attribute were not credited with their errors); "
       "batch 5 - vk_window_get (complete), the window-1 bit harness for the sign of zero (thorough tier); batch 6 - short `//@replace` anchors (C08-Q, a pivot detector seeded with the price, first ended as a lost anchor; now it fails AwesomeOscillator::init's const_state postcondition), the bounded Conv weight-profile harness (C15-Q trims trailing zero weights in a new `while` loop: Verus rejects the loop without a contract and CBMC runs out of memory on the Vec shrink, so it stays undecided); C08-P (ParabolicSAR `<` to `<=`) is caught only because the step contract now fixes the acceleration counter (psar_step); batch 7 - all six caught: the default-configuration harness names the indicator whose default no longer validates, MA::from_str mapping `tema` to TMA fails the from_str postcondition, and the two changes that replace a std text primitive (`parse::<usize>() as PeriodType`, `trim_start`) make the unit lose its anchor / be rejected, after which the concrete-spelling Kani harnesses supply the failing input (`sma-256` accepted, `LOW ` rejected). batch 8 - five of six caught: a partially consumed iterator's size_hint and a from_parts rotation in the wrong direction fail the `window` postconditions (remaining() / view of the rebuilt ring), an f32 NaN swallowed by `max/min` and a wrapping opposite-sign subtraction fail the complete Kani harnesses vk_action_from_f32_total / vk_action_sub, and LinReg's integer intermediates narrowed to u32 fail the overflow obligations of `lin_reg` only in the PT_U16/PT_U64 re-runs (exactly the C20 mechanism); C20-L replaces `.enumerate()` in the HighestIndex/LowestIndex rescan by `.zip(0..=u8::MAX)`, a different iterator chain that vx's desugaring rule does not recognise, so Verus rejects the generated unit and the check answers undecided (exit 2, no alarm) - a window of 257+ symbolic elements is out of Kani's reach, so no bounded stand-in was added. The outcomes below are the ones recorded at the last run of each change; the early changes whose units were "
       "touched afterwards (window, SMM, combinators, reversal, Action, serde) were re-run against the final machinery.", "",
       "| id | confirmed | what it needs to manifest (author's words, first line) | outcome per check |", "|---|---|---|---|"]
for r in rows:
    out.append("| " + " | ".join(r) + " |")
n = len([r for r in rows if not r[1].startswith("harmless")])
harmless = [r for r in rows if r[1].startswith("harmless")]
rows_all = rows
rows = [r for r in rows if not r[1].startswith("harmless")]
caught = sum(1 for r in rows if "caught" in r[3])
und = sum(1 for r in rows if "caught" not in r[3] and "undecided" in r[3])
miss = sum(1 for r in rows if "caught" not in r[3] and "undecided" not in r[3] and "missed" in r[3])
out += ["", f"Totals: {n} property-breaking seeded changes; {caught} caught by at least one check, {und} undecided only, {miss} missed. "
        f"{len(harmless)} further change(s) became harmless after a fix: commit and are accepted by the checks ({sum(1 for r in harmless if 'FALSE ALARM' in r[3])} false alarms).", ""]
p = os.path.join(V, "DESIGN.md")
s = open(p).read()
if "## 10. Seeded changes" in s:
    s = s[:s.index("## 10. Seeded changes")]
s = s.rstrip() + "\n\n" + "\n".join(out)
open(p, "w").write(s)
print(f"{n} rows; caught={caught} undecided={und} missed={miss}")
