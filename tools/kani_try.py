#!/usr/bin/env python3
"""usage: kani_try.py <group> <timeout_s> <harness>...   — run harnesses of a group on a scratch copy, print status/time"""
import sys, os, tempfile, shutil, json
V = os.path.dirname(os.path.dirname(os.path.abspath(__file__)))
sys.path.insert(0, os.path.join(V, "lib"))
import registry, kani_run
grp, tmo, names = sys.argv[1], int(sys.argv[2]), sys.argv[3:]
d = tempfile.mkdtemp(prefix="yk.", dir="/tmp")
try:
    crate, err = kani_run.make_copy(os.environ.get("YATA_REPO", "/repo"), d, [grp])
    mod = registry.KANI_GROUPS[grp]["module"]
    r = kani_run.run_harnesses(crate, [mod + "::" + n for n in names], tmo, min(len(names), 8))
    if r["json"] is None:
        print("NO RESULT", r["stdout"][-2000:], r["stderr"][-3000:])
    else:
        for x in r["json"]["verification_results"]["results"]:
            bad = [c["description"] for c in x.get("checks", []) if c.get("status") == "Failure"][:3]
            print(x["harness_id"].split("::")[-1], x["status"], x.get("duration_ms"), "ms", bad)
        got = set(x["harness_id"].split("::")[-1] for x in r["json"]["verification_results"]["results"])
        for n in names:
            if n not in got:
                print(n, "NO RESULT (timeout?)")
    print("wall", round(r["wall"], 1))
finally:
    shutil.rmtree(d, ignore_errors=True)
