use vstd::prelude::*;
use vstd::string::*;
verus! {
#[verifier::external_body]
fn str_eq(a: &str, b: &str) -> (r: bool) ensures r == (a@ == b@) { a == b }
pub uninterp spec fn parse_u8(s: Seq<char>) -> Option<u8>;
pub uninterp spec fn parse_i32(s: Seq<char>) -> Option<i32>;
#[verifier::external_body]
fn parse_as_u8(s: &str) -> (r: Result<u8, ()>) ensures (r is Ok) == (parse_u8(s@) is Some), r is Ok ==> r->Ok_0 == parse_u8(s@)->Some_0 { s.parse().map_err(|_| ()) }
#[verifier::external_body]
fn parse_as_i32(s: &str) -> (r: Result<i32, ()>) ensures (r is Ok) == (parse_i32(s@) is Some), r is Ok ==> r->Ok_0 == parse_i32(s@)->Some_0 { s.parse().map_err(|_| ()) }
pub struct Cfg { pub period: u8, pub zone: i32 }
// shape of every IndicatorConfig::set after rule R9
fn set(cfg: &mut Cfg, name: &str, value: &str) -> (r: Result<(), ()>)
    ensures
        name@ == "period"@ ==> (match parse_u8(value@) { Some(v) => r is Ok && *final(cfg) == Cfg { period: v, ..*old(cfg) }, None => r is Err && *final(cfg) == *old(cfg) }),
        name@ == "zone"@ ==> (match parse_i32(value@) { Some(v) => r is Ok && *final(cfg) == Cfg { zone: v, ..*old(cfg) }, None => r is Err && *final(cfg) == *old(cfg) }),
        name@ != "period"@ && name@ != "zone"@ ==> r is Err && *final(cfg) == *old(cfg),
{
    proof { reveal_strlit("period"); reveal_strlit("zone"); assert("period"@.len() == 6); assert("zone"@.len() == 4); }
    if str_eq(name, "period") {
        match parse_as_u8(value) { Err(_) => return Err(()), Ok(value) => cfg.period = value, }
    } else if str_eq(name, "zone") {
        match parse_as_i32(value) { Err(_) => return Err(()), Ok(value) => cfg.zone = value, }
    } else {
        return Err(());
    }
    Ok(())
}
} // verus!
fn main() {}
