use vstd::prelude::*;
use vstd::std_specs::ops::*;
use vstd::std_specs::cmp::*;
verus! {
#[derive(Clone, Copy)]
pub struct R { pub v: Ghost<real>, pub nz: Ghost<bool> }
impl View for R { type V = real; open spec fn view(&self) -> real { self.v@ } }
pub open spec fn mk(x: real) -> R { R { v: Ghost(x), nz: Ghost(arbitrary()) } }

impl AddSpecImpl<R> for R {
    open spec fn obeys_add_spec() -> bool { false }
    open spec fn add_req(self, rhs: R) -> bool { true }
    open spec fn add_spec(self, rhs: R) -> R { mk(self@ + rhs@) }
}
impl core::ops::Add for R { type Output = R;
    #[verifier::external_body] fn add(self, rhs: R) -> (r: R) ensures r@ == self@ + rhs@ { unimplemented!() } }
impl SubSpecImpl<R> for R {
    open spec fn obeys_sub_spec() -> bool { false }
    open spec fn sub_req(self, rhs: R) -> bool { true }
    open spec fn sub_spec(self, rhs: R) -> R { mk(self@ - rhs@) }
}
impl core::ops::Sub for R { type Output = R;
    #[verifier::external_body] fn sub(self, rhs: R) -> (r: R) ensures r@ == self@ - rhs@ { unimplemented!() } }
impl MulSpecImpl<R> for R {
    open spec fn obeys_mul_spec() -> bool { false }
    open spec fn mul_req(self, rhs: R) -> bool { true }
    open spec fn mul_spec(self, rhs: R) -> R { mk(self@ * rhs@) }
}
impl core::ops::Mul for R { type Output = R;
    #[verifier::external_body] fn mul(self, rhs: R) -> (r: R) ensures r@ == self@ * rhs@ { unimplemented!() } }
impl AddAssignSpecImpl<R> for R {
    open spec fn obeys_add_assign_spec() -> bool { false }
    open spec fn add_assign_req(&self, rhs: R) -> bool { true }
    open spec fn add_assign_spec(&self, rhs: R) -> &R { &mk(self@ + rhs@) }
}
impl core::ops::AddAssign for R {
    #[verifier::external_body] fn add_assign(&mut self, rhs: R) ensures final(self)@ == old(self)@ + rhs@ { unimplemented!() } }
impl PartialEqSpecImpl for R {
    open spec fn obeys_eq_spec() -> bool { true }
    open spec fn eq_spec(&self, other: &R) -> bool { self@ == other@ }
}
impl PartialEq for R { #[verifier::external_body] fn eq(&self, other: &R) -> bool { unimplemented!() } }
impl PartialOrdSpecImpl for R {
    open spec fn obeys_partial_cmp_spec() -> bool { true }
    open spec fn partial_cmp_spec(&self, other: &R) -> Option<core::cmp::Ordering> {
        if self@ < other@ { Some(core::cmp::Ordering::Less) } else if self@ > other@ { Some(core::cmp::Ordering::Greater) } else { Some(core::cmp::Ordering::Equal) }
    }
}
impl PartialOrd for R { #[verifier::external_body] fn partial_cmp(&self, other: &R) -> Option<core::cmp::Ordering> { unimplemented!() } }

pub type ValueType = R;
pub struct SMAish { pub divider: ValueType, pub value: ValueType }
impl SMAish {
    // body line is verbatim src/methods/sma.rs:100
    fn step(&mut self, value: ValueType, prev_value: ValueType) -> (r: ValueType)
        ensures r@ == old(self).value@ + (value@ - prev_value@) * old(self).divider@
    {
        self.value += (value - prev_value) * self.divider;
        self.value
    }
}
fn cmp_ops(a: R, b: R) -> (r: bool) ensures r == (a@ >= b@ && a@ != b@) { a >= b && a != b }
} // verus!
fn main() {}
