use vstd::prelude::*;
verus! {
pub open spec fn sum(s: Seq<real>) -> real decreases s.len() {
    if s.len() == 0 { 0real } else { sum(s.drop_last()) + s.last() }
}
pub open spec fn wsum(s: Seq<real>) -> real decreases s.len() {
    if s.len() == 0 { 0real } else { wsum(s.drop_last()) + (s.len() as real) * s.last() }
}
pub proof fn lemma_sum_tail(s: Seq<real>)
    requires s.len() >= 1
    ensures sum(s.drop_first()) == sum(s) - s[0]
    decreases s.len()
{
    if s.len() == 1 {
        reveal_with_fuel(sum, 2);
        assert(s.drop_first().len() == 0);
        assert(s.drop_last().len() == 0);
        assert(sum(s.drop_last()) == 0real);
        assert(s.last() == s[0]);
    } else {
        let t = s.drop_last();
        lemma_sum_tail(t);
        assert(s.drop_first().drop_last() =~= t.drop_first());
        assert(s.drop_first().last() == s.last());
        assert(t[0] == s[0]);
    }
}
pub proof fn lemma_wsum_tail(s: Seq<real>)
    requires s.len() >= 1
    ensures wsum(s.drop_first()) == wsum(s) - sum(s)
    decreases s.len()
{
    if s.len() == 1 {
        reveal_with_fuel(wsum, 2); reveal_with_fuel(sum, 2);
        assert(s.drop_first().len() == 0);
        assert(s.drop_last().len() == 0);
        assert(wsum(s.drop_last()) == 0real);
        assert(sum(s.drop_last()) == 0real);
        assert(wsum(s) == 1real * s.last());
        assert(sum(s) == s.last());
    } else {
        let t = s.drop_last();
        lemma_wsum_tail(t);
        let u = s.drop_first();
        assert(u.drop_last() =~= t.drop_first());
        assert(u.last() == s.last());
        let n = s.len() as real;
        assert(u.len() as real == n - 1real);
        assert(wsum(u) == wsum(t.drop_first()) + (n - 1real) * s.last());
        assert(wsum(s) == wsum(t) + n * s.last());
        assert(sum(s) == sum(t) + s.last());
        assert((n - 1real) * s.last() == n * s.last() - s.last()) by(nonlinear_arith);
    }
}
pub proof fn lemma_wma_push(s: Seq<real>, x: real)
    requires s.len() >= 1
    ensures wsum(s.drop_first().push(x)) == wsum(s) - sum(s) + (s.len() as real) * x,
            sum(s.drop_first().push(x)) == sum(s) - s[0] + x,
{
    let u = s.drop_first().push(x);
    assert(u.drop_last() =~= s.drop_first());
    assert(u.last() == x);
    lemma_wsum_tail(s);
    lemma_sum_tail(s);
}
// the update of src/methods/wma.rs:87-88 over reals: numerator == wsum(view), total == -sum(view)
pub proof fn wma_step(s: Seq<real>, numerator: real, total: real, fl: real, x: real)
    requires s.len() >= 1, fl == s.len() as real, numerator == wsum(s), total == -sum(s)
    ensures ({
        let prev = s[0];
        let numerator2 = numerator + (fl * x + total);
        let total2 = total + (prev - x);
        let s2 = s.drop_first().push(x);
        numerator2 == wsum(s2) && total2 == -sum(s2)
    })
{
    lemma_wma_push(s, x);
}
} // verus!
fn main() {}
