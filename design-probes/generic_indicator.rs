use vstd::prelude::*;
use vstd::std_specs::ops::*;
verus! {
#[derive(Clone, Copy)]
pub struct R { pub v: Ghost<real> }
impl View for R { type V = real; open spec fn view(&self) -> real { self.v@ } }
impl SubSpecImpl<R> for R {
    open spec fn obeys_sub_spec() -> bool { true }
    open spec fn sub_req(self, rhs: R) -> bool { true }
    open spec fn sub_spec(self, rhs: R) -> R { R { v: Ghost(self@ - rhs@) } }
}
impl core::ops::Sub for R { type Output = R; fn sub(self, rhs: R) -> R { R { v: Ghost(self@ - rhs@) } } }
impl AddSpecImpl<R> for R {
    open spec fn obeys_add_spec() -> bool { true }
    open spec fn add_req(self, rhs: R) -> bool { true }
    open spec fn add_spec(self, rhs: R) -> R { R { v: Ghost(self@ + rhs@) } }
}
impl core::ops::Add for R { type Output = R; fn add(self, rhs: R) -> R { R { v: Ghost(self@ + rhs@) } } }
impl DivSpecImpl<R> for R {
    open spec fn obeys_div_spec() -> bool { true }
    open spec fn div_req(self, rhs: R) -> bool { true }
    open spec fn div_spec(self, rhs: R) -> R { R { v: Ghost(self@ / rhs@) } }
}
impl core::ops::Div for R { type Output = R; fn div(self, rhs: R) -> R { R { v: Ghost(self@ / rhs@) } } }
impl R { pub fn lit3() -> (r: R) ensures r@ == 3real { R { v: Ghost(3real) } } }

pub type ValueType = R;
pub type PeriodType = u8;
pub enum Error { WrongMethodParameters, WrongConfig }

pub trait OHLCV {
	spec fn high_s(&self) -> ValueType;
	spec fn low_s(&self) -> ValueType;
	spec fn close_s(&self) -> ValueType;
	fn high(&self) -> (r: ValueType) ensures r == self.high_s();
	fn low(&self) -> (r: ValueType) ensures r == self.low_s();
	fn close(&self) -> (r: ValueType) ensures r == self.close_s();
	// provided method, body as in src/core/ohlcv.rs:52 (literal rewritten by R5)
	fn tp(&self) -> (r: ValueType)
		ensures r@ == (self.high_s()@ + self.low_s()@ + self.close_s()@) / 3real
	{
		(self.high() + self.low() + self.close()) / R::lit3()
	}
}

pub trait Method {
	type Params;
	type Input: ?Sized;
	type Output;
	spec fn inv(&self) -> bool;
	spec fn step(pre: &Self, x: &Self::Input, post: &Self, out: &Self::Output) -> bool;
	fn next(&mut self, value: &Self::Input) -> (r: Self::Output)
		requires old(self).inv(),
		ensures final(self).inv(), Self::step(old(self), value, final(self), &r);
}
pub trait MovingAverage: Method<Input = ValueType, Output = ValueType> {}
pub trait MovingAverageConstructor: Clone {
	type Instance: MovingAverage;
	fn init(&self, initial_value: ValueType) -> (r: Result<Self::Instance, Error>)
		ensures r is Ok ==> r->Ok_0.inv();
	fn ma_period(&self) -> PeriodType;
}

pub struct MACDInstance<M: MovingAverageConstructor> { pub ma1: M::Instance, pub ma2: M::Instance, pub ma3: M::Instance }

impl<M: MovingAverageConstructor> MACDInstance<M> {
	pub open spec fn inv(&self) -> bool { self.ma1.inv() && self.ma2.inv() && self.ma3.inv() }

	// body = src/indicators/macd.rs:157-168 (source fixed to close, result tuple instead of IndicatorResult)
	fn next<T: OHLCV>(&mut self, candle: &T) -> (r: (ValueType, ValueType))
		requires old(self).inv()
		ensures final(self).inv(),
			exists|e1: ValueType, e2: ValueType, src: ValueType|
				src == candle.close_s()
				&& <M::Instance as Method>::step(&old(self).ma1, &src, &final(self).ma1, &e1)
				&& <M::Instance as Method>::step(&old(self).ma2, &src, &final(self).ma2, &e2)
				&& r.0@ == e1@ - e2@
				&& <M::Instance as Method>::step(&old(self).ma3, &r.0, &final(self).ma3, &r.1)
	{
		let src = &candle.close();

		let ema1 = self.ma1.next(src);
		let ema2 = self.ma2.next(src);

		let macd = ema1 - ema2;
		let sigline = self.ma3.next(&macd);

		proof {
			let e1 = ema1; let e2 = ema2; let s0 = *src;
			assert(s0 == candle.close_s()
				&& <M::Instance as Method>::step(&old(self).ma1, &s0, &self.ma1, &e1)
				&& <M::Instance as Method>::step(&old(self).ma2, &s0, &self.ma2, &e2)
				&& macd@ == e1@ - e2@
				&& <M::Instance as Method>::step(&old(self).ma3, &macd, &self.ma3, &sigline));
		}
		(macd, sigline)
	}
}
} // verus!
fn main() {}
