use vstd::prelude::*;
use std::mem;
verus! {
pub type PeriodType = u8;
pub assume_specification<T> [std::mem::replace] (dest: &mut T, src: T) -> (r: T)
    ensures *final(dest) == src, r == *old(dest);
pub struct Window<T> { pub buf: Box<[T]>, pub index: PeriodType, pub size: PeriodType, pub s_1: PeriodType }
impl<T> Window<T> {
	pub open spec fn wf(&self) -> bool {
		&&& self.buf@.len() == self.size as int
		&&& self.size < PeriodType::MAX
		&&& (self.size == 0 ==> self.index == 0 && self.s_1 == 0)
		&&& (self.size > 0 ==> self.index < self.size && self.s_1 == self.size - 1)
	}
	pub open spec fn view(&self) -> Seq<T> {
		Seq::new(self.size as nat, |i: int| self.buf@[(self.index as int + i) % (self.size as int)])
	}
	pub fn push(&mut self, value: T) -> (r: T)
		requires old(self).wf(), old(self).size > 0
		ensures final(self).wf(), final(self).size == old(self).size,
			r == old(self).view()[0],
			final(self).view() == old(self).view().drop_first().push(value),
	{
		let refer = &mut self.buf[self.index as usize];

		let old_value = mem::replace(refer, value);

		self.index = (self.index != self.s_1) as PeriodType * (self.index + 1);

		proof {
			let n = self.size as int;
			let oi = old(self).index as int;
			assert(oi % n == oi) by(nonlinear_arith) requires 0 <= oi < n;
			assert forall|i: int| 0 <= i < n implies #[trigger] self.view()[i] == old(self).view().drop_first().push(value)[i] by {
				let ni = self.index as int;
				if i < n - 1 {
					assert((ni + i) % n == (oi + 1 + i) % n) by(nonlinear_arith)
						requires 0 <= oi < n, 0 <= i < n, ni == (if oi == n - 1 { 0 } else { oi + 1 });
					assert((oi + 1 + i) % n != oi) by(nonlinear_arith) requires 0 <= oi < n, 0 <= i < n - 1;
				} else {
					assert((ni + i) % n == oi) by(nonlinear_arith)
						requires 0 <= oi < n, i == n - 1, ni == (if oi == n - 1 { 0 } else { oi + 1 });
				}
			}
			assert(self.view() =~= old(self).view().drop_first().push(value));
		}
		old_value
	}
}
} // verus!
fn main() {}
