use vstd::prelude::*;
verus! {
#[derive(Clone, Copy)]
pub struct R { pub v: Ghost<real>, pub nz: Ghost<bool> }
impl View for R { type V = real; open spec fn view(&self) -> real { self.v@ } }
pub open spec fn bits_eq(a: R, b: R) -> bool { a@ == b@ && (a@ != 0real || a.nz@ == b.nz@) }
impl R {
    pub uninterp spec fn bits(self) -> u64;
    #[verifier::external_body]
    pub fn max(self, o: R) -> (r: R) ensures (r == self || r == o), r@ >= self@, r@ >= o@ { unimplemented!() }
    #[verifier::external_body]
    pub fn ge(self, o: R) -> (r: bool) ensures r == (self@ >= o@) { unimplemented!() }   // stands for `>=` (see r_model.rs)
    #[verifier::external_body]
    pub fn to_bits(self) -> (r: u64) ensures r == self.bits() { unimplemented!() }
}
// trusted axiom of the model: bit patterns are equal iff value and zero-sign are
pub broadcast proof fn bits_axiom(a: R, b: R)
    ensures #[trigger] a.bits() == #[trigger] b.bits() <==> bits_eq(a, b) { admit(); }

pub type ValueType = R;

// ---- Window: contract only here (its proof is window_push.rs / unit `window`) ----
#[verifier::external_body]
#[verifier::reject_recursive_types(T)]
pub struct Window<T> { p: core::marker::PhantomData<T> }
#[verifier::reject_recursive_types(T)]
pub struct WindowIterator<'a, T> { pub w: &'a Window<T>, pub pos: Ghost<int> }
impl<T> Window<T> {
    pub uninterp spec fn view(&self) -> Seq<T>;
    #[verifier::external_body]
    pub fn push(&mut self, value: T) -> (r: T)
        requires old(self).view().len() > 0
        ensures r == old(self).view()[0], final(self).view() == old(self).view().drop_first().push(value)
    { unimplemented!() }
    #[verifier::external_body]
    pub fn iter(&self) -> (r: WindowIterator<'_, T>) ensures r.w == self, r.pos@ == self.view().len() { unimplemented!() }
}
impl<'a, T> WindowIterator<'a, T> {
    // newest first
    #[verifier::external_body]
    pub fn next(&mut self) -> (r: Option<&'a T>)
        requires 0 <= old(self).pos@ <= old(self).w.view().len()
        ensures final(self).w == old(self).w,
            old(self).pos@ == 0 ==> r is None && final(self).pos@ == 0,
            old(self).pos@ > 0 ==> r == Some(&old(self).w.view()[old(self).pos@ - 1]) && final(self).pos@ == old(self).pos@ - 1
    { unimplemented!() }
}

pub open spec fn is_max(s: Seq<R>, m: R) -> bool {
    (exists|i: int| 0 <= i < s.len() && s[i] == m) && (forall|i: int| 0 <= i < s.len() ==> s[i]@ <= m@)
}

pub struct Highest { pub value: ValueType, pub window: Window<ValueType> }

impl Highest {
    pub open spec fn inv(&self) -> bool { self.window.view().len() > 0 && is_max(self.window.view(), self.value) }

    // src/methods/highest_lowest.rs:202-218 after rules R4, R7 (assert dropped here), R8
    fn next(&mut self, value__r: &ValueType) -> (r: ValueType)
        requires old(self).inv()
        ensures final(self).inv(), is_max(final(self).window.view(), r),
            final(self).window.view() == old(self).window.view().drop_first().push(*value__r)
    {
        let value = *value__r;
        broadcast use bits_axiom;
        let left_value = self.window.push(value);
        let ghost vw = self.window.view();

        if value.ge(self.value) {
            self.value = value;
            proof { assert(vw[vw.len() - 1] == value); }
        } else if left_value.to_bits() == self.value.to_bits() {
            // R8: self.window.iter().fold(value, |a, &b| a.max(b))
            self.value = {
                let mut acc = value;
                let mut it = self.window.iter();
                loop
                    invariant_except_break
                        it.w == &self.window, 0 <= it.pos@ <= vw.len(), vw == self.window.view(), vw.len() > 0,
                        vw[vw.len() - 1] == value,
                        (exists|i: int| 0 <= i < vw.len() && vw[i] == acc),
                        (forall|j: int| it.pos@ <= j < vw.len() ==> vw[j]@ <= acc@),
                    ensures
                        is_max(vw, acc),
                    decreases it.pos@
                {
                    match it.next() {
                        None => break,
                        Some(x) => { let a = acc; let b = *x; acc = a.max(b); }
                    }
                }
                acc
            };
        } else {
            proof {
                let ov = old(self).window.view();
                let i = choose|i: int| 0 <= i < ov.len() && ov[i] == old(self).value;
                assert(i != 0) by { if i == 0 { assert(bits_eq(left_value, old(self).value)); } }
                assert(vw[i - 1] == old(self).value);
            }
        }

        self.value
    }
}
} // verus!
fn main() {}
