//! vx — extract real items from /repo/src into a Verus unit.
//!
//! usage: vx <template> <repo-root> <out.rs> <report.json> [-D NAME]...
//!
//! The template is Verus text with directives (lines starting with `//@`):
//!   //@include <file>                       include a prelude file (relative to the template's ../prelude)
//!   //@ifdef NAME | //@ifndef NAME | //@else | //@endif   conditional text (no nesting of the same kind needed, nesting allowed)
//!   //@extract <file> <path> [opts]         start of an extraction block, ended by //@end
//!        lines up to the first sub-directive: contract clauses, inserted between signature and body
//!        //@hint start | end | before <anchor> | after <anchor> | loop <k>   proof text inserted at that place
//!        //@replace <anchor> ==> <text>     one expression/statement text replaced (rule RM, listed in the report)
//!        //@sig <text>                      replace the whole signature (up to the body) by <text> (rule RS)
//!   //@end
//!
//! Paths: struct:Name enum:Name type:Name const:Name fn:name trait[Name]::fn impl[Header]::fn
//! where Header is `SelfType` or `Trait for SelfType` compared with all whitespace removed.
//! Options: pub nopub ret=<ident> noret rename=<ident> nth=<k> keepvis
//!
//! Every automatic rewrite is span-local and counted per rule (R1..R7) in the report. Exit code 3 = extraction error.

use proc_macro2::Span;
use std::collections::{BTreeMap, HashMap, HashSet};
use std::fmt::Write as _;
use syn::spanned::Spanned;
use syn::visit::Visit;

#[derive(Debug, Clone)]
struct Edit {
    start: usize,
    end: usize,
    text: String,
    rule: &'static str,
    seq: usize,
}

struct Src {
    text: String,
    ast: syn::File,
}

fn die(msg: &str) -> ! {
    eprintln!("vx: EXTRACTION-ERROR: {msg}");
    std::process::exit(3);
}

fn nows(s: &str) -> String {
    s.chars().filter(|c| !c.is_whitespace()).collect()
}

/// strip `//` line comments and collapse whitespace; returns normalised string and a map from
/// normalised byte index -> original byte index
fn normalise(s: &str) -> (String, Vec<usize>) {
    let b = s.as_bytes();
    let mut out = String::new();
    let mut map = Vec::new();
    let mut i = 0;
    let mut last_space = true;
    let mut in_str = false;
    while i < b.len() {
        let c = b[i];
        if !in_str && c == b'/' && i + 1 < b.len() && b[i + 1] == b'/' {
            while i < b.len() && b[i] != b'\n' {
                i += 1;
            }
            continue;
        }
        if c == b'"' && (i == 0 || b[i - 1] != b'\\') {
            in_str = !in_str;
        }
        if !in_str && (c as char).is_whitespace() {
            if !last_space {
                out.push(' ');
                map.push(i);
                last_space = true;
            }
            i += 1;
            continue;
        }
        // copy one utf8 char
        let ch_len = utf8_len(c);
        out.push_str(&s[i..i + ch_len]);
        for k in 0..ch_len {
            map.push(i + k);
        }
        last_space = false;
        i += ch_len;
    }
    while out.ends_with(' ') {
        out.pop();
        map.pop();
    }
    (out, map)
}

fn utf8_len(b: u8) -> usize {
    if b < 0x80 {
        1
    } else if b >> 5 == 0b110 {
        2
    } else if b >> 4 == 0b1110 {
        3
    } else {
        4
    }
}

/// drop leading `#[...]` / `#![...]` attribute groups of a normalised statement text
fn strip_attrs(s: &str) -> String {
    let mut t = s.trim_start();
    loop {
        if t.starts_with("#[") || t.starts_with("#![") {
            let mut depth = 0;
            let mut end = None;
            for (i, c) in t.char_indices() {
                if c == '[' { depth += 1; }
                if c == ']' { depth -= 1; if depth == 0 { end = Some(i); break; } }
            }
            match end { Some(e) => t = t[e + 1..].trim_start(), None => break }
        } else { break; }
    }
    t.to_string()
}

fn norm(s: &str) -> String {
    normalise(s).0
}

fn range(sp: Span) -> (usize, usize) {
    let r = sp.byte_range();
    (r.start, r.end)
}

#[derive(Default)]
struct Collector<'a> {
    src: &'a str,
    edits: Vec<Edit>,
    stmts: Vec<(usize, usize)>,
    loops: Vec<usize>, // byte offset of the `{` of each loop body, in source order
    errors: Vec<String>,
    srcmap: Vec<(String, String)>, // R8: iterator source text (normalised) -> model constructor text
    chains: usize,
    chain_log: Vec<String>,
    extra: BTreeMap<&'static str, usize>,
    tmps: usize,
    into_action: bool,
}

impl<'a> Collector<'a> {
    fn push(&mut self, start: usize, end: usize, text: String, rule: &'static str) {
        let seq = self.edits.len();
        self.edits.push(Edit { start, end, text, rule, seq });
    }
    fn remove_attr(&mut self, a: &syn::Attribute) {
        let (s, mut e) = range(a.span());
        // swallow trailing whitespace up to and including one newline
        let b = self.src.as_bytes();
        while e < b.len() && (b[e] == b' ' || b[e] == b'\t') {
            e += 1;
        }
        if e < b.len() && b[e] == b'\n' {
            e += 1;
        }
        self.push(s, e, String::new(), "R1");
    }
    fn float_lit(&mut self, l: &syn::LitFloat) {
        let (s, e) = range(l.span());
        let digits = l.base10_digits(); // e.g. "0.5", "1e-3", "2."
        match rational(digits) {
            Some((n, d)) => self.push(s, e, format!("R::lit({n}, {d})"), "R5"),
            None => self.errors.push(format!("float literal `{}` not representable", l)),
        }
    }
    fn macro_edit(&mut self, m: &syn::Macro, whole: Span) {
        let name = m.path.segments.last().map(|s| s.ident.to_string()).unwrap_or_default();
        let (s, e) = range(whole);
        match name.as_str() {
            "cfg" => {
                let t = nows(&m.tokens.to_string());
                if t == "feature=\"unsafe_performance\"" {
                    self.push(s, e, "unsafe_performance()".into(), "R6");
                } else {
                    self.errors.push(format!("unsupported cfg!({t})"));
                }
            }
            "assert" | "debug_assert" => {
                let args = m
                    .parse_body_with(syn::punctuated::Punctuated::<syn::Expr, syn::Token![,]>::parse_terminated);
                match args {
                    Ok(args) if !args.is_empty() => {
                        let c = &args[0];
                        let (cs, ce) = range(c.span());
                        // keep the condition text in place (so nested rewrites apply); replace around it
                        self.push(s, cs, "vassert(".into(), "R7");
                        self.visit_expr(c);
                        let semi = if self.src[e - 1..e] == *";" { ");" } else { ")" };
                        self.push(ce, e, semi.into(), "R7");
                    }
                    _ => self.errors.push("cannot parse assert! arguments".into()),
                }
            }
            "assert_eq" | "debug_assert_eq" | "assert_ne" | "debug_assert_ne" => {
                let args = m
                    .parse_body_with(syn::punctuated::Punctuated::<syn::Expr, syn::Token![,]>::parse_terminated);
                match args {
                    Ok(args) if args.len() >= 2 => {
                        let (a, b) = (&args[0], &args[1]);
                        let (as_, ae) = range(a.span());
                        let (bs, be) = range(b.span());
                        let op = if name.ends_with("_eq") { " == " } else { " != " };
                        self.push(s, as_, "vassert((".into(), "R7");
                        self.visit_expr(a);
                        self.push(ae, bs, format!("){op}("), "R7");
                        self.visit_expr(b);
                        let semi = if self.src[e - 1..e] == *";" { "));" } else { "))" };
                        self.push(be, e, semi.into(), "R7");
                    }
                    _ => self.errors.push("cannot parse assert_eq! arguments".into()),
                }
            }
            "panic" | "unreachable" | "unimplemented" | "todo" => {
                let semi = if self.src[e - 1..e] == *";" { "vpanic();" } else { "vpanic()" };
                self.push(s, e, semi.into(), "R7");
            }
            "vec" => {
                // left as is (Verus supports vec!); visit inner expressions for literal rewrites
                if let Ok(args) =
                    m.parse_body_with(syn::punctuated::Punctuated::<syn::Expr, syn::Token![;]>::parse_terminated)
                {
                    for a in args.iter() {
                        self.visit_expr(a);
                    }
                } else if let Ok(args) =
                    m.parse_body_with(syn::punctuated::Punctuated::<syn::Expr, syn::Token![,]>::parse_terminated)
                {
                    for a in args.iter() {
                        self.visit_expr(a);
                    }
                }
            }
            "matches" => {}
            "format" => {
                self.push(s, e, "vformat()".into(), "R9");
            }
            other => self.errors.push(format!("unsupported macro `{other}!`")),
        }
    }
}

/// decimal literal digits -> (numerator, denominator) as decimal strings fitting i64/u64
fn rational(d: &str) -> Option<(String, String)> {
    let d = d.replace('_', "");
    let (mant, exp) = match d.find(|c| c == 'e' || c == 'E') {
        Some(i) => (&d[..i], d[i + 1..].parse::<i32>().ok()?),
        None => (&d[..], 0),
    };
    let (ip, fp) = match mant.find('.') {
        Some(i) => (&mant[..i], &mant[i + 1..]),
        None => (mant, ""),
    };
    let mut num: u128 = format!("{ip}{fp}").parse().ok()?;
    let mut den: u128 = 1;
    let mut e = exp - fp.len() as i32;
    while e > 0 {
        num = num.checked_mul(10)?;
        e -= 1;
    }
    while e < 0 {
        den = den.checked_mul(10)?;
        e += 1;
    }
    // reduce
    fn gcd(a: u128, b: u128) -> u128 {
        if b == 0 {
            a
        } else {
            gcd(b, a % b)
        }
    }
    let g = gcd(num, den).max(1);
    num /= g;
    den /= g;
    if num > i64::MAX as u128 || den > u64::MAX as u128 {
        return None;
    }
    Some((num.to_string(), den.to_string()))
}


// ---------------------------------------------------------------------------------------------
// R8: iterator chains are desugared to explicit loops over the real `next` (core's default method bodies)
enum Adapter<'x> {
    Map(&'x syn::Expr),
    Zip(&'x syn::Expr),
    Skip(&'x syn::Expr),
    Enumerate,
    Copied,
    Cloned,
}

fn pat_to_lets(p: &syn::Pat, src: &str, counter: &mut usize, derefs: &mut Vec<String>) -> Result<String, String> {
    match p {
        syn::Pat::Ident(pi) if pi.subpat.is_none() => {
            Ok(format!("{}{}", if pi.mutability.is_some() { "mut " } else { "" }, pi.ident))
        }
        syn::Pat::Wild(_) => Ok("_".into()),
        syn::Pat::Reference(r) => match &*r.pat {
            syn::Pat::Ident(pi) if pi.subpat.is_none() => {
                let nm = format!("{}__r", pi.ident);
                derefs.push(format!("let {}{} = *{};", if pi.mutability.is_some() { "mut " } else { "" }, pi.ident, nm));
                Ok(nm)
            }
            other => {
                *counter += 1;
                let nm = format!("pr{}__r", counter);
                let inner = pat_to_lets(other, src, counter, derefs)?;
                derefs.push(format!("let {inner} = *{nm};"));
                Ok(nm)
            }
        },
        syn::Pat::Tuple(t) => {
            let mut parts = Vec::new();
            for e in t.elems.iter() {
                parts.push(pat_to_lets(e, src, counter, derefs)?);
            }
            Ok(format!("({})", parts.join(", ")))
        }
        syn::Pat::Type(t) => pat_to_lets(&t.pat, src, counter, derefs),
        _ => Err(format!("unsupported closure pattern `{}`", &src[range(p.span()).0..range(p.span()).1])),
    }
}

fn is_place(e: &syn::Expr) -> bool {
    match e {
        syn::Expr::Path(_) | syn::Expr::Lit(_) => true,
        syn::Expr::Field(f) => is_place(&f.base),
        syn::Expr::Reference(r) => is_place(&r.expr),
        syn::Expr::Paren(p) => is_place(&p.expr),
        syn::Expr::Unary(u) => matches!(u.op, syn::UnOp::Deref(_)) && is_place(&u.expr),
        _ => false,
    }
}

impl<'a> Collector<'a> {
    /// R13: `recv.m(&<call expr>)` as the whole expression of a statement: the borrowed temporary gets a name
    /// (`let tmpK__ = <call expr>;` in front of the statement) so that specifications can refer to it. Only done when
    /// the receiver and the other arguments are place expressions or literals, so evaluation order is unaffected.
    fn try_hoist(&mut self, st: &syn::Stmt) -> bool {
        let top: &syn::Expr = match st {
            syn::Stmt::Expr(e, _) => e,
            syn::Stmt::Local(l) => match &l.init {
                Some(i) if i.diverge.is_none() => &i.expr,
                _ => return false,
            },
            _ => return false,
        };
        let mc = match top {
            syn::Expr::MethodCall(mc) => mc,
            _ => return false,
        };
        if !is_place(&mc.receiver) {
            return false;
        }
        let mut target: Option<&syn::Expr> = None;
        for a in mc.args.iter() {
            match a {
                syn::Expr::Reference(r) if r.mutability.is_none() && matches!(&*r.expr, syn::Expr::MethodCall(_) | syn::Expr::Call(_) | syn::Expr::Binary(_)) => {
                    if target.is_some() {
                        return false;
                    }
                    target = Some(&r.expr);
                }
                other if is_place(other) => {}
                _ => return false,
            }
        }
        let inner = match target {
            Some(t) => t,
            None => return false,
        };
        // statement-level attributes / patterns are handled by the normal visitor; only the hoisted argument is special
        let k = self.tmps;
        self.tmps += 1;
        let txt = self.render(inner);
        let (ss, _) = range(st.span());
        let (is_, ie) = range(inner.span());
        self.push(ss, ss, format!("let tmp{k}__ = {txt};\n\t\t"), "R13");
        self.push(is_, ie, format!("tmp{k}__"), "R13");
        if let syn::Stmt::Local(l) = st {
            for a in &l.attrs {
                self.remove_attr(a);
            }
        }
        true
    }
    fn render(&mut self, e: &syn::Expr) -> String {
        let (s, en) = range(e.span());
        let mut sub = Collector { src: self.src, srcmap: self.srcmap.clone(), chains: self.chains, into_action: self.into_action, ..Default::default() };
        sub.visit_expr(e);
        self.chains = sub.chains;
        self.errors.extend(sub.errors.drain(..));
        self.chain_log.extend(sub.chain_log.drain(..));
        for ed in &sub.edits {
            *self.extra.entry(ed.rule).or_default() += 1;
        }
        for (k2, v2) in sub.extra.iter() {
            *self.extra.entry(*k2).or_default() += *v2;
        }
        match apply_edits(self.src, s, en, sub.edits) {
            Ok(t) => t,
            Err(m) => {
                self.errors.push(m);
                String::new()
            }
        }
    }
    fn map_source(&mut self, text: String) -> String {
        let n = nows(&text);
        for (from, to) in &self.srcmap {
            if *from == n {
                return to.clone();
            }
        }
        text
    }
    /// apply a closure literal or a function path to `arg` (an identifier), returning statements binding `out`
    fn apply_fn(&mut self, f: &syn::Expr, args: &[&str], out: &str) -> String {
        match f {
            syn::Expr::Closure(c) => {
                if c.inputs.len() != args.len() {
                    self.errors.push("closure arity".into());
                    return String::new();
                }
                let mut lets = String::new();
                let mut counter = 0;
                for (p, a) in c.inputs.iter().zip(args.iter()) {
                    let mut derefs = Vec::new();
                    match pat_to_lets(p, self.src, &mut counter, &mut derefs) {
                        Ok(pt) => {
                            let _ = write!(lets, "let {pt} = {a}; {} ", derefs.join(" "));
                        }
                        Err(m) => self.errors.push(m),
                    }
                }
                let body = self.render(&c.body);
                format!("let {out} = {{ {lets}{body} }};")
            }
            other => {
                let ft = self.render(other);
                format!("let {out} = {ft}({});", args.join(", "))
            }
        }
    }
    fn try_chain_mut(&mut self, m: &syn::ExprMethodCall, cur: &syn::Expr, adapters: &[Adapter]) -> bool {
        if m.method != "for_each" || m.args.len() != 1 {
            return false;
        }
        let c = match &m.args[0] {
            syn::Expr::Closure(c) if c.inputs.len() == 1 => c,
            _ => return false,
        };
        let param = match &c.inputs[0] {
            syn::Pat::Ident(pi) => pi.ident.to_string(),
            _ => return false,
        };
        // the body must be `*param = E`
        let asg = match &*c.body {
            syn::Expr::Assign(a) => a,
            _ => return false,
        };
        match &*asg.left {
            syn::Expr::Unary(u) if matches!(u.op, syn::UnOp::Deref(_)) && nows(&self.src[range(u.expr.span()).0..range(u.expr.span()).1]) == param => {}
            _ => return false,
        }
        let recv = match cur {
            syn::Expr::MethodCall(mc) => &mc.receiver,
            _ => return false,
        };
        let k = self.chains;
        self.chains += 1;
        let full = self.render(cur);
        let mapped = self.map_source(full.clone());
        let place = if mapped != full { mapped } else { self.render(recv) };
        let mut pre = format!("let mut idx{k}__: usize = 0;\n");
        let mut body = String::new();
        let _ = writeln!(body, "/*CHAIN-START {k}*/");
        let _ = writeln!(body, "if idx{k}__ >= {place}.len() {{ break; }}");
        for a in adapters {
            match a {
                Adapter::Skip(e) => {
                    let nt = self.render(e);
                    let _ = writeln!(pre, "let mut skipped{k}__: usize = 0;");
                    let _ = writeln!(body, "if skipped{k}__ < ({nt}) {{ skipped{k}__ = skipped{k}__ + 1; idx{k}__ = idx{k}__ + 1; continue; }}");
                }
                _ => {
                    self.errors.push("iter_mut chain: only skip(n) is supported before for_each".into());
                    return false;
                }
            }
        }
        let _ = writeln!(body, "/*CHAIN-ITEM {k}*/");
        let rhs = self.render(&asg.right);
        let _ = writeln!(body, "let new{k}__ = {{ let {param} = &{place}[idx{k}__]; {rhs} }};");
        let _ = writeln!(body, "{place}[idx{k}__] = new{k}__;");
        let _ = writeln!(body, "idx{k}__ = idx{k}__ + 1;");
        let (s, e) = range(m.span());
        let text = format!("{{\n{pre}loop\n/*CHAIN-HINT {k}*/\n{{\n{body}/*CHAIN-END {k}*/\n}}\n()\n}}");
        self.chain_log.push(norm(&self.src[s..e]));
        self.push(s, e, text, "R8m");
        true
    }
    /// returns true when the method call was a recognised chain and has been rewritten
    fn try_chain(&mut self, m: &syn::ExprMethodCall) -> bool {
        let term = m.method.to_string();
        if !matches!(term.as_str(), "sum" | "fold" | "for_each" | "collect") {
            return false;
        }
        // walk down the receivers
        let mut adapters: Vec<Adapter> = Vec::new();
        let mut cur: &syn::Expr = &m.receiver;
        loop {
            match cur {
                syn::Expr::MethodCall(mc) => {
                    let n = mc.method.to_string();
                    let a = match (n.as_str(), mc.args.len()) {
                        ("map", 1) => Adapter::Map(&mc.args[0]),
                        ("zip", 1) => Adapter::Zip(&mc.args[0]),
                        ("skip", 1) => Adapter::Skip(&mc.args[0]),
                        ("enumerate", 0) => Adapter::Enumerate,
                        ("copied", 0) => Adapter::Copied,
                        ("cloned", 0) => Adapter::Cloned,
                        _ => break,
                    };
                    adapters.push(a);
                    cur = &mc.receiver;
                }
                _ => break,
            }
        }
        // the source must itself look like an iterator constructor
        let src_text_raw = &self.src[range(cur.span()).0..range(cur.span()).1];
        let nsrc = nows(src_text_raw);
        if !(nsrc.ends_with(".iter()") || nsrc.ends_with(".iter_rev()") || nsrc.ends_with(".iter_mut()") || nsrc.ends_with(".rev()")
            || nsrc.ends_with(".into_iter()") || self.srcmap.iter().any(|(f, _)| *f == nsrc))
        {
            return false;
        }
        adapters.reverse();
        // R8m: `<slice>.iter_mut()[.skip(n)].for_each(|x| *x = E)` becomes an index loop: x is read as &S[i], then S[i] is written
        if nsrc.ends_with(".iter_mut()") {
            return self.try_chain_mut(m, cur, &adapters);
        }
        let k = self.chains;
        self.chains += 1;
        let src_t = self.render(cur);
        let src_t = self.map_source(src_t);
        let mut pre = format!("let mut it{k}__ = {src_t};\n");
        let mut body = String::new();
        let _ = writeln!(body, "/*CHAIN-START {k}*/");
        let _ = writeln!(body, "let item__ = match it{k}__.next() {{ None => break, Some(v__) => v__ }};");
        let mut zips = 0;
        let mut item_marked = false;
        for a in &adapters {
            if !item_marked && !matches!(a, Adapter::Zip(_) | Adapter::Skip(_)) {
                let _ = writeln!(body, "/*CHAIN-ITEM {k}*/");
                item_marked = true;
            }
            match a {
                Adapter::Zip(e) => {
                    zips += 1;
                    let zt = self.render(e);
                    let zt = self.map_source(zt);
                    let _ = writeln!(pre, "let mut it{k}z{zips}__ = {zt};");
                    let _ = writeln!(body, "let item__ = match it{k}z{zips}__.next() {{ None => break, Some(v__) => (item__, v__) }};");
                }
                Adapter::Skip(e) => {
                    let nt = self.render(e);
                    let _ = writeln!(pre, "let mut skipped{k}__: usize = 0;");
                    let _ = writeln!(body, "if skipped{k}__ < ({nt}) {{ skipped{k}__ = skipped{k}__ + 1; continue; }}");
                }
                Adapter::Enumerate => {
                    let _ = writeln!(pre, "let mut idx{k}__: usize = 0;");
                    let _ = writeln!(body, "let item__ = (idx{k}__, item__); idx{k}__ = idx{k}__ + 1;");
                }
                Adapter::Copied => {
                    let _ = writeln!(body, "let item__ = *item__;");
                }
                Adapter::Cloned => {
                    let _ = writeln!(body, "let item__ = item__.clone();");
                }
                Adapter::Map(f) => {
                    let st = self.apply_fn(f, &["item__"], "item__");
                    let _ = writeln!(body, "{st}");
                }
            }
        }
        if !item_marked {
            let _ = writeln!(body, "/*CHAIN-ITEM {k}*/");
        }
        let result;
        match term.as_str() {
            "sum" => {
                let _ = writeln!(pre, "let mut acc{k}__ = R::lit(0, 1);");
                let _ = writeln!(body, "acc{k}__ = acc{k}__ + item__;");
                result = format!("acc{k}__");
            }
            "fold" => {
                if m.args.len() != 2 {
                    return false;
                }
                let init = self.render(&m.args[0]);
                let _ = writeln!(pre, "let mut acc{k}__ = {init};");
                let accn = format!("acc{k}__");
                let st = self.apply_fn(&m.args[1], &[&accn, "item__"], &format!("next{k}__"));
                let _ = writeln!(body, "{st} acc{k}__ = next{k}__;");
                result = format!("acc{k}__");
            }
            "for_each" => {
                if m.args.len() != 1 {
                    return false;
                }
                let st = self.apply_fn(&m.args[0], &["item__"], "_unit__");
                let _ = writeln!(body, "{st}");
                result = "()".into();
            }
            "collect" => {
                let _ = writeln!(pre, "let mut acc{k}__ = Vec::new();");
                let _ = writeln!(body, "acc{k}__.push(item__);");
                result = format!("acc{k}__");
            }
            _ => return false,
        }
        let (s, e) = range(m.span());
        let text = format!("{{\n{pre}loop\n/*CHAIN-HINT {k}*/\n{{\n{body}/*CHAIN-END {k}*/\n}}\n{result}\n}}");
        self.chain_log.push(norm(&self.src[s..e]));
        self.push(s, e, text, "R8");
        true
    }
}

impl<'a, 'ast> Visit<'ast> for Collector<'a> {
    fn visit_attribute(&mut self, a: &'ast syn::Attribute) {
        self.remove_attr(a);
    }
    fn visit_block(&mut self, b: &'ast syn::Block) {
        for st in &b.stmts {
            let (s, e) = range(st.span());
            self.stmts.push((s, e));
        }
        for st in &b.stmts {
            if !self.try_hoist(st) {
                self.visit_stmt(st);
            }
        }
    }
    fn visit_expr_while(&mut self, w: &'ast syn::ExprWhile) {
        self.loops.push(range(w.body.brace_token.span.open()).0);
        syn::visit::visit_expr_while(self, w);
    }
    fn visit_expr_loop(&mut self, w: &'ast syn::ExprLoop) {
        self.loops.push(range(w.body.brace_token.span.open()).0);
        syn::visit::visit_expr_loop(self, w);
    }
    fn visit_expr_for_loop(&mut self, w: &'ast syn::ExprForLoop) {
        self.loops.push(range(w.body.brace_token.span.open()).0);
        syn::visit::visit_expr_for_loop(self, w);
    }
    fn visit_expr_lit(&mut self, l: &'ast syn::ExprLit) {
        if let syn::Lit::Float(f) = &l.lit {
            self.float_lit(f);
        }
    }
    fn visit_pat(&mut self, p: &'ast syn::Pat) {
        // float literals in patterns are not rewritten (none in the extracted code); report if seen
        if let syn::Pat::Lit(l) = p {
            if let syn::Lit::Float(_) = &l.lit {
                self.errors.push("float literal in pattern".into());
            }
        }
        syn::visit::visit_pat(self, p);
    }
    fn visit_expr_cast(&mut self, c: &'ast syn::ExprCast) {
        let ty = nows(&self.src[range(c.ty.span()).0..range(c.ty.span()).1]);
        if ty == "ValueType" || ty == "f64" || ty == "f32" {
            let (es, ee) = range(c.expr.span());
            let (_, ce) = range(c.span());
            self.push(es, es, "to_r(".into(), "R5");
            self.visit_expr(&c.expr);
            self.push(ee, ce, ")".into(), "R5");
        } else {
            syn::visit::visit_expr_cast(self, c);
        }
    }
    fn visit_expr_path(&mut self, p: &'ast syn::ExprPath) {
        let segs: Vec<String> = p.path.segments.iter().map(|s| s.ident.to_string()).collect();
        if segs.len() == 1 {
            if let Some(newname) = FCONSTS.with(|f| f.borrow().iter().rev().find(|(o, _)| *o == segs[0]).map(|(_, n)| n.clone())) {
                let (s0, e) = range(p.span());
                self.push(s0, e, format!("{newname}()"), "R5c");
                return;
            }
        }
        if segs.len() == 2 && (segs[0] == "ValueType" || segs[0] == "f64") {
            let up = segs[1].chars().all(|c| c.is_uppercase() || c == '_' || c.is_ascii_digit());
            let (s, e) = range(p.span());
            if up {
                self.push(s, e, format!("R::{}()", segs[1]), "R5");
            } else {
                self.push(s, e, format!("R::{}", segs[1]), "R5");
            }
        }
    }
    fn visit_expr_match(&mut self, m: &'ast syn::ExprMatch) {
        fn lit_strs(p: &syn::Pat, out: &mut Vec<String>) -> bool {
            match p {
                syn::Pat::Lit(l) => {
                    if let syn::Lit::Str(s) = &l.lit {
                        out.push(s.token().to_string());
                        true
                    } else {
                        false
                    }
                }
                syn::Pat::Or(o) => o.cases.iter().all(|c| lit_strs(c, out)),
                _ => false,
            }
        }
        let mut any_str = false;
        for a in &m.arms {
            let mut v = Vec::new();
            if lit_strs(&a.pat, &mut v) {
                any_str = true;
            }
        }
        if !any_str {
            syn::visit::visit_expr_match(self, m);
            return;
        }
        // R9: `match s { "a" => A, "b" | "c" => B, other => Z }` becomes an if-chain over str_eq
        let scrut = self.render(&m.expr);
        // the scrutinee may be mapped by a //@src line (e.g. a chain of std string methods replaced by one modelled call)
        let scrut = self.map_source(scrut);
        let mut out = format!("{{ let scrut__ = {scrut}; ");
        let mut closed = false;
        for (i, a) in m.arms.iter().enumerate() {
            let mut lits = Vec::new();
            let body = self.render(&a.body);
            if a.guard.is_some() {
                self.errors.push("match guard in string match".into());
            }
            if lit_strs(&a.pat, &mut lits) {
                let cond: Vec<String> = lits.iter().map(|l| format!("str_eq(scrut__, {l})")).collect();
                let _ = write!(out, "{}if {} {{ {} }}", if i == 0 { "" } else { " else " }, cond.join(" || "), body);
            } else {
                let bind = match &a.pat {
                    syn::Pat::Wild(_) => String::new(),
                    syn::Pat::Ident(pi) => format!("let {} = scrut__; ", pi.ident),
                    _ => {
                        self.errors.push("unsupported catch-all pattern in string match".into());
                        String::new()
                    }
                };
                let _ = write!(out, "{}{{ {}{} }}", if i == 0 { "" } else { " else " }, bind, body);
                closed = true;
                break;
            }
        }
        if !closed {
            self.errors.push("string match without catch-all arm".into());
        }
        out.push_str(" }");
        let (s, e) = range(m.span());
        self.push(s, e, out, "R9");
    }
    fn visit_expr_method_call(&mut self, m: &'ast syn::ExprMethodCall) {
        if self.try_chain(m) {
            return;
        }
        let name = m.method.to_string();
        if name == "parse" && m.args.is_empty() && m.turbofish.is_none() {
            let recv = self.render(&m.receiver);
            let (s, e) = range(m.span());
            self.push(s, e, format!("parse_as(&{recv})"), "R9");
            return;
        }
        if self.into_action && name == "into" && m.args.is_empty() {
            // R12: `x.into()` where the target is Action (i8 / f64 -> Action): resolved through the local trait IntoAction
            let (ms, me) = range(m.method.span());
            self.visit_expr(&m.receiver);
            self.push(ms, me, "into_action".into(), "R12");
            return;
        }
        if name == "to_string" && m.args.is_empty() {
            let (ms, me) = range(m.method.span());
            self.visit_expr(&m.receiver);
            self.push(ms, me, "to_string_o".into(), "R9");
            return;
        }
        if name == "get_unchecked" || name == "get_unchecked_mut" {
            let (rs, re) = range(m.receiver.span());
            let (_, pe) = range(m.paren_token.span.open());
            let pre = if name == "get_unchecked" { "slice_get_unchecked(&" } else { "slice_get_unchecked_mut(&mut " };
            self.push(rs, rs, pre.into(), "R6");
            self.visit_expr(&m.receiver);
            self.push(re, pe, ", ".into(), "R6");
            for a in m.args.iter() {
                self.visit_expr(a);
            }
            return;
        }
        syn::visit::visit_expr_method_call(self, m);
    }
    fn visit_type_trait_object(&mut self, t: &'ast syn::TypeTraitObject) {
        // R10: `dyn OHLCV` is instantiated at an opaque candle type whose five accessors are uninterpreted
        let (s, e) = range(t.span());
        if nows(&self.src[s..e]) == "dynOHLCV" {
            self.push(s, e, "DynOHLCV".into(), "R10");
        } else {
            self.errors.push(format!("unsupported trait object `{}`", &self.src[s..e]));
        }
    }
    fn visit_expr_call(&mut self, c: &'ast syn::ExprCall) {
        // R11: building a serde error (`SerdeError::custom(..)`, `serde::de::Error::custom(..)`) is replaced by `()`: the extracted
        // deserializers return Result<_, ()>; the message text (format!) is dropped with it
        if let syn::Expr::Path(p) = &*c.func {
            let t = nows(&self.src[range(p.span()).0..range(p.span()).1]);
            if t == "SerdeError::custom" || t == "serde::de::Error::custom" || t == "de::Error::custom" {
                let (s, e) = range(c.span());
                self.push(s, e, "()".into(), "R11");
                return;
            }
        }
        if self.into_action {
            if let syn::Expr::Path(p) = &*c.func {
                let t = nows(&self.src[range(p.span()).0..range(p.span()).1]);
                if t == "Action::from" {
                    let (s, e) = range(p.span());
                    self.push(s, e, "Action::from_any".into(), "R12");
                    for a in c.args.iter() {
                        self.visit_expr(a);
                    }
                    return;
                }
            }
        }
        syn::visit::visit_expr_call(self, c);
    }
    fn visit_expr_unsafe(&mut self, u: &'ast syn::ExprUnsafe) {
        let (s, e) = range(u.unsafe_token.span());
        self.push(s, e, String::new(), "R6");
        syn::visit::visit_expr_unsafe(self, u);
    }
    fn visit_expr_macro(&mut self, m: &'ast syn::ExprMacro) {
        self.macro_edit(&m.mac, m.span());
    }
    fn visit_stmt_macro(&mut self, m: &'ast syn::StmtMacro) {
        self.macro_edit(&m.mac, m.span());
    }
}

fn apply_edits(src: &str, base: usize, end: usize, mut edits: Vec<Edit>) -> Result<String, String> {
    edits.sort_by(|a, b| (a.start, a.end.min(a.start + 1), a.seq).cmp(&(b.start, b.end.min(b.start + 1), b.seq)));
    let mut out = String::new();
    let mut pos = base;
    for e in &edits {
        if e.start < pos {
            return Err(format!(
                "overlapping rewrites at byte {} (rule {}): `{}`",
                e.start,
                e.rule,
                &src[e.start..e.end.min(e.start + 40).min(src.len())]
            ));
        }
        out.push_str(&src[pos..e.start]);
        out.push_str(&e.text);
        pos = e.end;
    }
    out.push_str(&src[pos..end]);
    Ok(out)
}

thread_local! { static FCONSTS: std::cell::RefCell<Vec<(String, String)>> = std::cell::RefCell::new(Vec::new()); }

#[derive(Default, Debug)]
struct Block {
    file: String,
    path: String,
    opts: Vec<String>,
    contract: Vec<String>,
    hints: Vec<(String, Vec<String>)>,
    replaces: Vec<(String, String)>,
    replaces_all: Vec<(String, String)>,
    srcs: Vec<(String, String)>,
    sig: Option<String>,
}

struct Found<'a> {
    attrs: &'a [syn::Attribute],
    vis: Option<&'a syn::Visibility>,
    sig: Option<&'a syn::Signature>,
    block: Option<&'a syn::Block>,
    span: Span,
    in_trait_impl: bool,
    kind: &'static str,
    item: Option<&'a syn::Item>,
}

fn find_item<'a>(ast: &'a syn::File, path: &str, nth: usize) -> Result<Found<'a>, String> {
    let mut matches: Vec<Found<'a>> = Vec::new();
    if let Some(rest) = path.strip_prefix("impl[") {
        let close = rest.rfind("]::").ok_or("bad impl path")?;
        let header = nows(&rest[..close]);
        let fname = &rest[close + 3..];
        for it in &ast.items {
            if let syn::Item::Impl(im) = it {
                let self_ty = nows(&quote::ToTokens::to_token_stream(&*im.self_ty).to_string());
                let h = match &im.trait_ {
                    Some((_, p, _)) => format!("{}for{}", nows(&quote::ToTokens::to_token_stream(p).to_string()), self_ty),
                    None => self_ty,
                };
                if h != header {
                    continue;
                }
                for ii in &im.items {
                    if let syn::ImplItem::Fn(f) = ii {
                        if f.sig.ident == fname {
                            matches.push(Found {
                                attrs: &f.attrs,
                                vis: Some(&f.vis),
                                sig: Some(&f.sig),
                                block: Some(&f.block),
                                span: f.span(),
                                in_trait_impl: im.trait_.is_some(),
                                kind: "fn",
                                item: None,
                            });
                        }
                    }
                }
            }
        }
    } else if let Some(rest) = path.strip_prefix("trait[") {
        let close = rest.rfind("]::").ok_or("bad trait path")?;
        let tname = &rest[..close];
        let fname = &rest[close + 3..];
        for it in &ast.items {
            if let syn::Item::Trait(tr) = it {
                if tr.ident != tname {
                    continue;
                }
                for ti in &tr.items {
                    if let syn::TraitItem::Fn(f) = ti {
                        if f.sig.ident == fname {
                            matches.push(Found {
                                attrs: &f.attrs,
                                vis: None,
                                sig: Some(&f.sig),
                                block: f.default.as_ref(),
                                span: f.span(),
                                in_trait_impl: true,
                                kind: "fn",
                                item: None,
                            });
                        }
                    }
                }
            }
        }
    } else {
        let (kind, name) = path.split_once(':').ok_or("bad path")?;
        for it in &ast.items {
            match (kind, it) {
                ("fn", syn::Item::Fn(f)) if f.sig.ident == name => matches.push(Found {
                    attrs: &f.attrs,
                    vis: Some(&f.vis),
                    sig: Some(&f.sig),
                    block: Some(&f.block),
                    span: f.span(),
                    in_trait_impl: false,
                    kind: "fn",
                    item: None,
                }),
                ("struct", syn::Item::Struct(s)) if s.ident == name => matches.push(Found {
                    attrs: &s.attrs,
                    vis: Some(&s.vis),
                    sig: None,
                    block: None,
                    span: s.span(),
                    in_trait_impl: false,
                    kind: "struct",
                    item: Some(it),
                }),
                ("enum", syn::Item::Enum(s)) if s.ident == name => matches.push(Found {
                    attrs: &s.attrs,
                    vis: Some(&s.vis),
                    sig: None,
                    block: None,
                    span: s.span(),
                    in_trait_impl: false,
                    kind: "enum",
                    item: Some(it),
                }),
                ("type", syn::Item::Type(s)) if s.ident == name => matches.push(Found {
                    attrs: &s.attrs,
                    vis: Some(&s.vis),
                    sig: None,
                    block: None,
                    span: s.span(),
                    in_trait_impl: false,
                    kind: "type",
                    item: Some(it),
                }),
                ("const", syn::Item::Const(s)) if s.ident == name => matches.push(Found {
                    attrs: &s.attrs,
                    vis: Some(&s.vis),
                    sig: None,
                    block: None,
                    span: s.span(),
                    in_trait_impl: false,
                    kind: "const",
                    item: Some(it),
                }),
                _ => {}
            }
        }
    }
    if matches.is_empty() {
        return Err(format!("item `{path}` not found"));
    }
    if nth != usize::MAX && nth >= matches.len() {
        return Err(format!("item `{path}` nth={nth} but only {} matches", matches.len()));
    }
    if matches.len() > 1 && nth == usize::MAX {
        return Err(format!("item `{path}` is ambiguous ({} matches); use nth=", matches.len()));
    }
    let k = if nth == usize::MAX { 0 } else { nth };
    Ok(matches.into_iter().nth(k).unwrap())
}

fn indent(lines: &[String], pad: &str) -> String {
    let mut s = String::new();
    for l in lines {
        s.push_str(pad);
        s.push_str(l);
        s.push('\n');
    }
    s
}

fn extract(src: &Src, b: &Block, report: &mut Vec<serde_json::Value>, vacuity: bool, contract_only: Option<&str>) -> Result<String, String> {
    let mut nth = usize::MAX;
    let mut force_pub: Option<bool> = None;
    let mut ret_name = Some("r".to_string());
    let mut rename: Option<String> = None;
    let mut keepvis = false;
    let mut keepderive = false;
    let mut into_action = false;
    for o in &b.opts {
        if o == "pub" {
            force_pub = Some(true)
        } else if o == "nopub" {
            force_pub = Some(false)
        } else if o == "noret" {
            ret_name = None
        } else if o == "keepvis" {
            keepvis = true
        } else if o == "keepderive" {
            keepderive = true
        } else if o == "into=action" {
            into_action = true
        } else if let Some(v) = o.strip_prefix("ret=") {
            ret_name = Some(v.to_string())
        } else if let Some(v) = o.strip_prefix("rename=") {
            rename = Some(v.to_string())
        } else if let Some(v) = o.strip_prefix("nth=") {
            nth = v.parse().map_err(|_| "bad nth")?
        } else {
            return Err(format!("unknown option `{o}`"));
        }
    }
    let f = find_item(&src.ast, &b.path, nth)?;
    let text = &src.text;
    let (mut s0, e0) = range(f.span);
    for a in f.attrs {
        s0 = s0.min(range(a.span()).0);
    }
    let orig = text[s0..e0].to_string();
    let mut col = Collector { src: text, srcmap: b.srcs.clone(), into_action, ..Default::default() };
    // R1 attributes on the item
    for a in f.attrs {
        if keepderive && a.path().is_ident("derive") {
            // keep only the derives Verus understands (Clone, Copy); Debug/Serialize/... are dropped (R1)
            let mut kept: Vec<String> = Vec::new();
            let _ = a.parse_nested_meta(|m| {
                if let Some(id) = m.path.get_ident() {
                    let n = id.to_string();
                    if n == "Clone" || n == "Copy" {
                        kept.push(n);
                    }
                }
                Ok(())
            });
            let (s, e) = range(a.span());
            if kept.is_empty() {
                col.remove_attr(a);
            } else {
                col.push(s, e, format!("#[derive({})]", kept.join(", ")), "R1");
            }
        } else {
            col.remove_attr(a);
        }
    }
    let mut manual: Vec<serde_json::Value> = Vec::new();
    if f.kind != "fn" {
        // struct / enum / type / const: fields pub, attrs dropped
        match f.item.unwrap() {
            syn::Item::Struct(s) => {
                // R1: default type parameters (`M: MovingAverageConstructor = MA`) are dropped; every use names the parameter
                for gp in s.generics.params.iter() {
                    if let syn::GenericParam::Type(tp) = gp {
                        if let (Some(eq), Some(def)) = (&tp.eq_token, &tp.default) {
                            let (es, _) = range(eq.span());
                            let (_, de) = range(def.span());
                            col.push(es, de, String::new(), "R1");
                        }
                    }
                }
                if !keepvis {
                    vis_pub(&mut col, &s.vis, range(s.struct_token.span()).0);
                }
                for fld in s.fields.iter() {
                    for a in &fld.attrs {
                        col.remove_attr(a);
                    }
                    let at = match &fld.ident {
                        Some(id) => range(id.span()).0,
                        None => range(fld.ty.span()).0,
                    };
                    vis_pub(&mut col, &fld.vis, at);
                }
            }
            syn::Item::Enum(s) => {
                if !keepvis {
                    vis_pub(&mut col, &s.vis, range(s.enum_token.span()).0);
                }
                for v in s.variants.iter() {
                    for a in &v.attrs {
                        col.remove_attr(a);
                    }
                    for fld in v.fields.iter() {
                        for a in &fld.attrs {
                            col.remove_attr(a);
                        }
                    }
                    if let Some((_, e)) = &v.discriminant {
                        col.visit_expr(e);
                    }
                }
            }
            syn::Item::Type(s) => {
                vis_pub(&mut col, &s.vis, range(s.type_token.span()).0);
            }
            syn::Item::Const(s) => {
                let ty = nows(&src.text[range(s.ty.span()).0..range(s.ty.span()).1]);
                if ty == "ValueType" || ty == "f64" {
                    // R5c: a float constant becomes a nullary fn (R::lit is not const); uses are rewritten to calls (see FCONSTS)
                    let (is, _) = range(s.span());
                    let (ts, _) = range(s.const_token.span());
                    let (es, _) = range(s.expr.span());
                    let (_, ie) = range(s.span());
                    let (_, ee) = range(s.expr.span());
                    col.push(is, ts, String::new(), "R5c");
                    let contract = if b.contract.is_empty() { String::new() } else { format!("\n{}\n", indent(&b.contract, "\t\t")) };
                    let fname = rename.clone().unwrap_or_else(|| s.ident.to_string());
                    col.push(ts, es, format!("pub fn {}() -> (r: ValueType){}{{ ", fname, contract), "R5c");
                    col.visit_expr(&s.expr);
                    col.push(ee, ie, " }".into(), "R5c");
                    FCONSTS.with(|f| f.borrow_mut().push((s.ident.to_string(), fname)));
                } else {
                    vis_pub(&mut col, &s.vis, range(s.const_token.span()).0);
                    col.visit_expr(&s.expr);
                }
            }
            _ => unreachable!(),
        }
    } else {
        let sig = f.sig.unwrap();
        let want_pub = force_pub.unwrap_or(!f.in_trait_impl);
        // R2 visibility
        let sig_start = range(sig.span()).0;
        if let Some(v) = f.vis {
            if !matches!(v, syn::Visibility::Inherited) {
                let (vs, ve) = range(v.span());
                col.push(vs, ve, String::new(), "R2");
            }
        }
        if want_pub {
            col.push(sig_start, sig_start, "pub ".into(), "R2");
        }
        // R1 const
        if let Some(c) = &sig.constness {
            let (cs, ce) = range(c.span());
            col.push(cs, ce + 1, String::new(), "R1");
        }
        if let Some(n) = &rename {
            let (is, ie) = range(sig.ident.span());
            col.push(is, ie, n.clone(), "RS");
        }
        // R4 parameter patterns
        let mut lets: Vec<String> = Vec::new();
        for (k, inp) in sig.inputs.iter().enumerate() {
            if let syn::FnArg::Typed(pt) = inp {
                for a in &pt.attrs {
                    col.remove_attr(a);
                }
                match &*pt.pat {
                    syn::Pat::Ident(pi) if pi.by_ref.is_none() && pi.subpat.is_none() => {
                        if let Some(m) = &pi.mutability {
                            // `mut x: T` is accepted by Verus; keep
                            let _ = m;
                        }
                    }
                    syn::Pat::Reference(pr) => {
                        let (ps, pe) = range(pt.pat.span());
                        let inner = &text[range(pr.pat.span()).0..range(pr.pat.span()).1];
                        let base = match &*pr.pat {
                            syn::Pat::Ident(pi) => pi.ident.to_string(),
                            _ => format!("arg{k}"),
                        };
                        let nm = format!("{base}__r");
                        col.push(ps, pe, nm.clone(), "R4");
                        lets.push(format!("let {inner} = *{nm};"));
                    }
                    syn::Pat::Tuple(_) | syn::Pat::TupleStruct(_) | syn::Pat::Struct(_) => {
                        let (ps, pe) = range(pt.pat.span());
                        let inner = &text[ps..pe];
                        let nm = format!("arg{k}__p");
                        lets.push(format!("let {inner} = {nm};"));
                        col.push(ps, pe, nm, "R4");
                    }
                    syn::Pat::Wild(_) => {
                        let (ps, pe) = range(pt.pat.span());
                        col.push(ps, pe, format!("_arg{k}"), "R4");
                    }
                    _ => return Err("unsupported parameter pattern".into()),
                }
            }
        }
        for inp in sig.inputs.iter() {
            if let syn::FnArg::Typed(pt) = inp {
                col.visit_type(&pt.ty);
            }
        }
        if let syn::ReturnType::Type(_, ty) = &sig.output {
            col.visit_type(ty);
        }
        // R3 named return
        if let (Some(rn), syn::ReturnType::Type(_, ty)) = (&ret_name, &sig.output) {
            let (ts, te) = range(ty.span());
            col.push(ts, ts, format!("({rn}: "), "R3");
            col.push(te, te, ")".into(), "R3");
        }
        match f.block {
            Some(block) if contract_only.is_some() => {
                let open = range(block.brace_token.span.open());
                let close = range(block.brace_token.span.close());
                if let Some(sg) = &b.sig {
                    col.edits.retain(|e| !(e.start >= sig_start && e.end <= open.0));
                    col.push(sig_start, open.0, format!("{sg}\n"), "RS");
                }
                if !b.contract.is_empty() {
                    col.push(open.0, open.0, format!("\n{}", indent(&b.contract, "\t\t")), "R3");
                }
                // edits already queued inside the body (e.g. inner attributes removed by R1) are dropped with the body
                col.edits.retain(|e| !(e.start > open.0 && e.end <= close.1));
                col.push(open.0, close.1, "{ unimplemented!() }".into(), "IMPORT");
            }
            Some(block) => {
                let open = range(block.brace_token.span.open());
                let close = range(block.brace_token.span.close());
                if let Some(sg) = &b.sig {
                    // replace everything from the signature start up to the body
                    col.edits.retain(|e| !(e.start >= sig_start && e.end <= open.0));
                    col.push(sig_start, open.0, format!("{sg}\n"), "RS");
                    manual.push(serde_json::json!({"rule":"RS","original": norm(&text[sig_start..open.0]), "replacement": sg}));
                }
                if !b.contract.is_empty() {
                    col.push(open.0, open.0, format!("\n{}", indent(&b.contract, "\t\t")), "R3");
                }
                if !lets.is_empty() {
                    col.push(open.1, open.1, format!("\n\t\t{}", lets.join(" ")), "R4");
                }
                if vacuity {
                    col.push(open.1, open.1, format!("\n\t\tproof {{ assert(false); }} // VACUITY-PROBE {}", nows(&b.path)), "V");
                }
                col.visit_block(block);
                // hints
                let body_norm_cache: Vec<(usize, usize, String)> =
                    col.stmts.iter().map(|&(s, e)| (s, e, strip_attrs(&norm(&text[s..e])))).collect();
                for (place, lines) in &b.hints {
                    // a `result` hint asserts the witnesses of the postcondition right before the return: marked W (contract-level), not H
                    let mk = if place == "result" { "W" } else { "H" };
                    let txt = format!("\n\t\t// >>{mk}\n{}\t\t// <<{mk}\n", indent(lines, "\t\t"));
                    if place == "start" {
                        col.push(open.1, open.1, txt, "H");
                    } else if place == "end" {
                        // before the tail expression if any, else before the closing brace
                        let at = match block.stmts.last() {
                            Some(syn::Stmt::Expr(e, None)) => range(e.span()).0,
                            _ => close.0,
                        };
                        col.push(at, at, format!("{txt}\t\t"), "H");
                    } else if place.starts_with("chain ") || place.starts_with("chain-item ") || place.starts_with("chain-end ") || place.starts_with("chain-start ") {
                        // handled after the edits are applied (the loop is generated by R8)
                    } else if place == "result" {
                        // RB: bind the tail expression to the return name so the proof text can mention it
                        let rn = ret_name.clone().unwrap_or_else(|| "r".into());
                        match block.stmts.last() {
                            Some(syn::Stmt::Expr(e, None)) => {
                                let (es, ee) = range(e.span());
                                col.push(es, es, format!("let {rn} = "), "RB");
                                col.push(ee, ee, format!(";{txt}\t\t{rn}"), "RB");
                            }
                            _ => return Err(format!("hint result: {} has no tail expression", b.path)),
                        }
                    } else if let Some(k) = place.strip_prefix("loop ") {
                        let k: usize = k.trim().parse().map_err(|_| "bad loop ordinal")?;
                        let at = *col.loops.get(k).ok_or_else(|| format!("LOST-ANCHOR: loop {k} not found in {}", b.path))?;
                        col.push(at, at, txt, "H");
                    } else if place.starts_with("before") || place.starts_with("after") {
                        // `before <anchor>` / `after <anchor>`; `before#k <anchor>` picks the k-th (1-based) matching statement in source order
                        let before = place.starts_with("before");
                        let rest = if before { &place[6..] } else { &place[5..] };
                        let (ord, a) = if let Some(r2) = rest.strip_prefix('#') {
                            let sp = r2.find(' ').ok_or("bad hint ordinal")?;
                            (Some(r2[..sp].parse::<usize>().map_err(|_| "bad hint ordinal")?), r2[sp..].trim())
                        } else {
                            (None, rest.trim())
                        };
                        let an = norm(a);
                        let mut hits: Vec<&(usize, usize, String)> =
                            body_norm_cache.iter().filter(|(_, _, t)| t.starts_with(&an)).collect();
                        if hits.is_empty() {
                            return Err(format!("LOST-ANCHOR: `{a}` in {}", b.path));
                        }
                        let best: &(usize, usize, String) = match ord {
                            Some(k) => {
                                // distinct start offsets in source order; for equal starts keep the innermost
                                hits.sort_by_key(|h| (h.0, h.1 - h.0));
                                let mut starts: Vec<&(usize, usize, String)> = Vec::new();
                                for h in hits.iter() {
                                    if starts.last().map(|l| l.0 != h.0).unwrap_or(true) {
                                        starts.push(h);
                                    }
                                }
                                // drop statements that enclose another match (outer blocks starting with the same text are not meant)
                                if k == 0 || k > starts.len() {
                                    return Err(format!("LOST-ANCHOR: `{a}` #{k} in {} ({} matches)", b.path, starts.len()));
                                }
                                starts[k - 1]
                            }
                            None => {
                                let best = *hits.iter().min_by_key(|h| h.1 - h.0).unwrap();
                                let same_len = hits.iter().filter(|h| h.1 - h.0 == best.1 - best.0).count();
                                let distinct_starts: HashSet<usize> = hits.iter().map(|h| h.0).collect();
                                if same_len > 1 || distinct_starts.len() > 1 {
                                    return Err(format!("AMBIGUOUS-ANCHOR: `{a}` in {}", b.path));
                                }
                                best
                            }
                        };
                        let at = if before { best.0 } else { best.1 };
                        let t = if before { format!("{}\t\t", &txt[1..]) } else { txt };
                        col.push(at, at, t, "H");
                    } else {
                        return Err(format!("bad hint place `{place}`"));
                    }
                }
                // manual replaces (rule RM): unique normalised occurrence inside the body
                let (bs, be) = (open.0, close.1);
                let (nbody, map) = normalise(&text[bs..be]);
                for (from, to) in &b.replaces_all {
                    // every occurrence (at least one) of the normalised text is replaced (rule RM, each listed)
                    let nf = norm(from);
                    let idxs: Vec<usize> = nbody.match_indices(&nf).map(|(i, _)| i).collect();
                    if idxs.is_empty() {
                        return Err(format!("LOST-ANCHOR: replaceall `{from}` in {}", b.path));
                    }
                    for i0 in idxs {
                        let s = bs + map[i0];
                        let e = bs + map[i0 + nf.len() - 1] + 1;
                        col.edits.retain(|ed| !(ed.start >= s && ed.end <= e && ed.rule != "H") || (ed.start == ed.end && ed.start == s));
                        col.push(s, e, to.clone(), "RM");
                        manual.push(serde_json::json!({"rule":"RM","original": nf, "replacement": to}));
                    }
                }
                for (from, to) in &b.replaces {
                    let nf = norm(from);
                    let idxs: Vec<usize> = nbody.match_indices(&nf).map(|(i, _)| i).collect();
                    if idxs.is_empty() {
                        return Err(format!("LOST-ANCHOR: replace `{from}` in {}", b.path));
                    }
                    if idxs.len() > 1 {
                        return Err(format!("AMBIGUOUS-ANCHOR: replace `{from}` in {}", b.path));
                    }
                    let s = bs + map[idxs[0]];
                    let e = bs + map[idxs[0] + nf.len() - 1] + 1;
                    // drop automatic edits inside the replaced span
                    col.edits.retain(|ed| !(ed.start >= s && ed.end <= e && ed.rule != "H") || (ed.start == ed.end && ed.start == s));
                    col.push(s, e, to.clone(), "RM");
                    manual.push(serde_json::json!({"rule":"RM","original": nf, "replacement": to}));
                }
            }
            None => {
                // trait method without default body: contract goes before the `;`
                if !b.contract.is_empty() {
                    col.push(e0 - 1, e0 - 1, format!("\n{}", indent(&b.contract, "\t\t")), "R3");
                }
            }
        }
    }
    if !col.errors.is_empty() {
        return Err(format!("in {}: {}", b.path, col.errors.join("; ")));
    }
    let mut counts: BTreeMap<&str, usize> = BTreeMap::new();
    for e in &col.edits {
        *counts.entry(e.rule).or_default() += 1;
    }
    for (k2, v2) in col.extra.iter() {
        *counts.entry(*k2).or_default() += *v2;
    }
    let mut out = apply_edits(text, s0, e0, col.edits.clone())?;
    for k in 0..col.chains {
        for (kw, tag) in [("chain", "CHAIN-HINT"), ("chain-item", "CHAIN-ITEM"), ("chain-end", "CHAIN-END"), ("chain-start", "CHAIN-START")] {
            let key = format!("{kw} {k}");
            let ph = format!("/*{tag} {k}*/");
            let txt = b.hints.iter().find(|(p, _)| *p == key).map(|(_, l)| format!("\t\t// >>H\n{}\t\t// <<H", indent(l, "\t\t"))).unwrap_or_default();
            out = out.replace(&ph, &txt);
        }
    }
    for (p, _) in b.hints.iter().filter(|_| contract_only.is_none()) {
        if let Some(k) = p.strip_prefix("chain ").or_else(|| p.strip_prefix("chain-item ")).or_else(|| p.strip_prefix("chain-end ")).or_else(|| p.strip_prefix("chain-start ")) {
            let k: usize = k.trim().parse().map_err(|_| "bad chain ordinal")?;
            if k >= col.chains {
                return Err(format!("LOST-ANCHOR: chain {k} not found in {}", b.path));
            }
        }
    }
    for (i, c) in col.chain_log.iter().enumerate() {
        manual.push(serde_json::json!({"rule": "R8", "chain": i, "original": c}));
    }
    let ls = text[..s0].matches('\n').count() + 1;
    let le = text[..e0].matches('\n').count() + 1;
    if contract_only.is_some() && f.kind == "fn" {
        let out = if f.block.is_none() { out } else { format!("#[verifier::external_body] /* contract imported from unit {}; the body is verified there */\n\t{}", contract_only.unwrap(), out) };
        report.push(serde_json::json!({"file": b.file, "path": b.path, "kind": "imported-contract", "from_unit": contract_only.unwrap()}));
        return Ok(out);
    }
    report.push(serde_json::json!({
        "file": b.file, "path": b.path, "lines": [ls, le], "kind": f.kind,
        "original": orig, "rewrites": counts, "manual": manual,
        "contract_clauses": b.contract.iter().filter(|l| !l.trim().is_empty()).count(),
        "hints": b.hints.len(),
    }));
    Ok(out)
}

fn vis_pub(col: &mut Collector, v: &syn::Visibility, at: usize) {
    match v {
        syn::Visibility::Inherited => col.push(at, at, "pub ".into(), "R2"),
        syn::Visibility::Public(_) => {}
        other => {
            let (s, e) = range(other.span());
            col.push(s, e, "pub".into(), "R2");
        }
    }
}

fn expand(text: &str, prelude_dir: &std::path::Path, defs: &HashSet<String>, out: &mut Vec<String>, depth: usize) {
    if depth > 8 {
        die("include depth");
    }
    let mut stack: Vec<bool> = Vec::new();
    for l in text.lines() {
        let t = l.trim();
        if let Some(n) = t.strip_prefix("//@ifdef ") {
            stack.push(defs.contains(n.trim()));
            continue;
        }
        if let Some(n) = t.strip_prefix("//@ifndef ") {
            stack.push(!defs.contains(n.trim()));
            continue;
        }
        if t == "//@else" {
            let v = stack.pop().unwrap_or_else(|| die("//@else without //@ifdef"));
            stack.push(!v);
            continue;
        }
        if t == "//@endif" {
            stack.pop().unwrap_or_else(|| die("//@endif without //@ifdef"));
            continue;
        }
        if stack.iter().any(|v| !*v) {
            continue;
        }
        if let Some(f) = t.strip_prefix("//@include ") {
            let p = prelude_dir.join(f.trim());
            let inc = std::fs::read_to_string(&p).unwrap_or_else(|e| die(&format!("include {}: {e}", p.display())));
            out.push(format!("// ---- begin include {} ----", f.trim()));
            expand(&inc, prelude_dir, defs, out, depth + 1);
            out.push(format!("// ---- end include {} ----", f.trim()));
            continue;
        }
        out.push(l.to_string());
    }
    if !stack.is_empty() {
        die("unterminated //@ifdef");
    }
}


struct Ctx {
    repo: std::path::PathBuf,
    defs: HashSet<String>,
    tpl_dir: std::path::PathBuf,
    prelude_dir: std::path::PathBuf,
}

fn process_lines(lines: &[String], ctx: &Ctx, cache: &mut HashMap<String, Src>, report: &mut Vec<serde_json::Value>, contract_only: Option<&str>) -> String {
    let repo = &ctx.repo;
    let defs = &ctx.defs;
    let mut out = String::new();
    let mut k = 0;
    while k < lines.len() {
        let l = &lines[k];
        let t = l.trim();
        if let Some(rest) = t.strip_prefix("//@import ") {
            let name = rest.trim();
            let p = ctx.tpl_dir.join(name);
            let text = std::fs::read_to_string(&p).unwrap_or_else(|e| die(&format!("import {}: {e}", p.display())));
            let mut exp: Vec<String> = Vec::new();
            expand(&text, &ctx.prelude_dir, defs, &mut exp, 0);
            let mut sel: Vec<String> = Vec::new();
            let mut on = false;
            for x in exp {
                let tx = x.trim();
                if tx == "//@export-begin" { on = true; continue; }
                if tx == "//@export-end" { on = false; continue; }
                if on { sel.push(x); }
            }
            if sel.is_empty() { die(&format!("import {name}: no //@export-begin region")); }
            let unit = name.trim_end_matches(".rs.tpl");
            let _ = writeln!(out, "// ==== contracts imported from unit {unit} (bodies verified there) ====");
            out.push_str(&process_lines(&sel, ctx, cache, report, Some(unit)));
            let _ = writeln!(out, "// ==== end import {unit} ====");
            k += 1;
            continue;
        }
        if t == "//@export-begin" || t == "//@export-end" { k += 1; continue; }
        if let Some(rest) = t.strip_prefix("//@extract ") {
            let mut parts = rest.split_whitespace();
            let file = parts.next().unwrap_or_else(|| die("//@extract needs a file")).to_string();
            // path may contain spaces inside [...]; re-split manually
            let after_file = rest[rest.find(&file).unwrap() + file.len()..].trim();
            let (path, opts_str) = if after_file.starts_with("impl[") || after_file.starts_with("trait[") {
                let close = after_file.find("]::").unwrap_or_else(|| die("bad path"));
                let tail = &after_file[close + 3..];
                let fn_end = tail.find(char::is_whitespace).unwrap_or(tail.len());
                (after_file[..close + 3 + fn_end].to_string(), tail[fn_end..].trim().to_string())
            } else {
                let e = after_file.find(char::is_whitespace).unwrap_or(after_file.len());
                (after_file[..e].to_string(), after_file[e..].trim().to_string())
            };
            let mut b = Block { file: file.clone(), path, ..Default::default() };
            b.opts = opts_str.split_whitespace().map(|s| s.to_string()).collect();
            k += 1;
            let mut cur_hint: Option<(String, Vec<String>)> = None;
            loop {
                if k >= lines.len() {
                    die(&format!("unterminated //@extract {}", b.path));
                }
                let l2 = lines[k].clone();
                let t2 = l2.trim();
                if t2 == "//@end" {
                    break;
                }
                if let Some(h) = t2.strip_prefix("//@hint ") {
                    if let Some(c) = cur_hint.take() {
                        b.hints.push(c);
                    }
                    cur_hint = Some((h.trim().to_string(), Vec::new()));
                } else if let Some(r) = t2.strip_prefix("//@replaceall ") {
                    if let Some(c) = cur_hint.take() {
                        b.hints.push(c);
                    }
                    let (from, to) = r.split_once("==>").unwrap_or_else(|| die("//@replaceall needs ==>"));
                    b.replaces_all.push((from.trim().to_string(), to.trim().to_string()));
                } else if let Some(r) = t2.strip_prefix("//@replace ") {
                    if let Some(c) = cur_hint.take() {
                        b.hints.push(c);
                    }
                    // possibly multi-line replacement: `//@replace A ==> B` ; continuation lines start with `//@+ `
                    let (from, to) = r.split_once("==>").unwrap_or_else(|| die("//@replace needs ==>"));
                    let mut to = to.trim().to_string();
                    while k + 1 < lines.len() && lines[k + 1].trim().starts_with("//@+") {
                        k += 1;
                        let c = lines[k].trim().strip_prefix("//@+").unwrap();
                        to.push('\n');
                        to.push_str(c.strip_prefix(' ').unwrap_or(c));
                    }
                    b.replaces.push((from.trim().to_string(), to));
                } else if let Some(r) = t2.strip_prefix("//@src ") {
                    let (from, to) = r.split_once("==>").unwrap_or_else(|| die("//@src needs ==>"));
                    b.srcs.push((nows(from), to.trim().to_string()));
                } else if let Some(s) = t2.strip_prefix("//@sig ") {
                    b.sig = Some(s.trim().to_string());
                } else if t2.starts_with("//@") {
                    die(&format!("unknown directive in extract block: {t2}"));
                } else if let Some(c) = cur_hint.as_mut() {
                    c.1.push(l2.trim_end().to_string());
                } else {
                    b.contract.push(l2.trim().to_string());
                }
                k += 1;
            }
            if let Some(c) = cur_hint.take() {
                b.hints.push(c);
            }
            let src = cache.entry(file.clone()).or_insert_with(|| {
                let p = repo.join(&file);
                let text = std::fs::read_to_string(&p).unwrap_or_else(|e| die(&format!("{}: {e}", p.display())));
                let ast = syn::parse_file(&text).unwrap_or_else(|e| die(&format!("parse {}: {e}", p.display())));
                Src { text, ast }
            });
            match extract(src, &b, report, defs.contains("VACUITY") && contract_only.is_none(), contract_only) {
                Ok(txt) => {
                    let _ = writeln!(out, "\t// >>> extracted from {} :: {}", b.file, b.path);
                    out.push('\t');
                    out.push_str(&txt);
                    out.push('\n');
                    let _ = writeln!(out, "\t// <<< end {}", b.path);
                }
                Err(e) => die(&e),
            }
            k += 1;
            continue;
        }
        if t.starts_with("//@") && !t.starts_with("//@unit") && !t.starts_with("//@doc") {
            die(&format!("unknown directive: {t}"));
        }
        out.push_str(l);
        out.push('\n');
        k += 1;
    }
    out
}

fn main() {
    let args: Vec<String> = std::env::args().collect();
    if args.len() < 5 {
        eprintln!("usage: vx <template> <repo-root> <out.rs> <report.json> [-D NAME]...");
        std::process::exit(2);
    }
    let tpl_path = std::path::PathBuf::from(&args[1]);
    let repo = std::path::PathBuf::from(&args[2]);
    let mut defs: HashSet<String> = HashSet::new();
    let mut i = 5;
    while i < args.len() {
        if args[i] == "-D" && i + 1 < args.len() {
            defs.insert(args[i + 1].clone());
            i += 2;
        } else {
            die(&format!("bad argument {}", args[i]));
        }
    }
    let prelude_dir = match std::env::var("VX_PRELUDE_DIR") {
        Ok(d) => std::path::PathBuf::from(d),
        Err(_) => tpl_path.parent().unwrap().parent().unwrap().join("prelude"),
    };
    let tpl = std::fs::read_to_string(&tpl_path).unwrap_or_else(|e| die(&format!("template: {e}")));
    // 1. expand includes (recursively) and conditionals into a flat list of lines
    let mut lines: Vec<String> = Vec::new();
    expand(&tpl, &prelude_dir, &defs, &mut lines, 0);

    // 2. process extraction blocks
    let mut cache: HashMap<String, Src> = HashMap::new();
    let mut report: Vec<serde_json::Value> = Vec::new();
    let ctx = Ctx { repo: repo.clone(), defs: defs.clone(), tpl_dir: match std::env::var("VX_TPL_DIR") { Ok(d) => std::path::PathBuf::from(d), Err(_) => tpl_path.parent().unwrap().to_path_buf() }, prelude_dir: prelude_dir.clone() };
    let out = process_lines(&lines, &ctx, &mut cache, &mut report, None);
    std::fs::write(&args[3], out).unwrap_or_else(|e| die(&format!("write: {e}")));
    std::fs::write(&args[4], serde_json::to_string_pretty(&serde_json::json!({"items": report})).unwrap())
        .unwrap_or_else(|e| die(&format!("write: {e}")));
}
